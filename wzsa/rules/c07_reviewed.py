"""C07 reviewed roles: raising sites that neither a handler nor a guard idiom discharges, each read once.

A reviewed line no longer names a function and an expression text.  It names a ROLE: the modelled exception, the kind
of operation and what the operand IS, found through data flow (reaching definitions, local renames, parameter binding
to the call sites on the escaping chain, return values of private helpers: wzsa/effects.py ``Flow``).  Where the reason
depends on other code the *premise* is re-established on the code as it is shaped now, across a caller / helper
boundary if need be.  A role answers

* ``None``            - this site does not play the role (the site stays unreviewed: reported, fail-closed);
* ``(True, why)``     - the role applies and its premise holds;
* ``(False, why)``    - the role applies, the code shape is understood and the premise is false (violation);
* raises AnalysisError - the role applies but the anchor of its premise has a shape that is not understood (exit 2).
"""

from __future__ import annotations

import ast
import re
import typing as t

from .. import astq
from ..cfg import cfg_of
from ..effects import _ASCII_CODECS, _ASCII_COMPATIBLE, _LATIN1_CODECS, INF, PS, Effects, Flow, PathSim, Site, St, _subst_key, codec_call, const_int
from ..fold import Folder, RegexConst, class_of_items, sre_c
from ..guards import canon
from ..loader import AnalysisError, ClassInfo, FuncInfo, dotted, norm, walk_no_nested


class A:
    """what a role may look at."""

    def __init__(self, ctx, eff: Effects, folder: Folder, flow: Flow):
        self.ctx = ctx
        self.repo = ctx.repo
        self.eff = eff
        self.folder = folder
        self.flow = flow
        self.sim = flow.sim = PathSim(flow)  # path-wise facts (nullness, difference bounds, lengths): shared so that helper summaries are computed once


Verdict = t.Optional[t.Tuple[bool, str]]


def _is_subclass(a: A, c: ClassInfo | None, base_fq: str) -> bool:
    return c is not None and any(k.fq == base_fq for k in a.repo.mro(c))


# ---------------------------------------------------------------------
# input model: environ / header text is latin-1


_CGI_KEY = re.compile(r"[A-Z][A-Z0-9_]*\Z")


def _input_text(a: A, fi: FuncInfo, e: ast.AST, node, st: St = St(), depth: int = 0) -> bool:
    """e is text of the input model: a CGI variable looked up in a mapping parameter, an argument of an entry point
    (header text by the property's quantifier), a latin-1 constant, or a choice between those."""
    if depth > 12:
        return False
    if isinstance(e, ast.Constant):
        if e.value is None:
            return True
        if isinstance(e.value, str):
            try:
                e.value.encode("latin1")
                return True
            except UnicodeEncodeError:
                return False
        return False
    if isinstance(e, ast.BoolOp):
        return all(_input_text(a, fi, v, node, st, depth + 1) for v in e.values)
    if isinstance(e, ast.IfExp):
        return _input_text(a, fi, e.body, node, st, depth + 1) and _input_text(a, fi, e.orelse, node, st, depth + 1)
    if isinstance(e, ast.NamedExpr):
        return _input_text(a, fi, e.value, node, st, depth + 1)
    look = None
    if isinstance(e, ast.Call) and isinstance(e.func, ast.Attribute) and e.func.attr == "get" and 1 <= len(e.args) <= 2 and not e.keywords:
        look = (e.func.value, e.args[0], e.args[1] if len(e.args) == 2 else None)
    elif isinstance(e, ast.Subscript) and not isinstance(e.slice, ast.Slice):
        look = (e.value, e.slice, None)
    if look is not None:
        m, k, dflt = look
        ks = astq.const_str(k)
        if ks is None or not _CGI_KEY.match(ks):
            return False
        if dflt is not None and not _input_text(a, fi, dflt, node, st, depth + 1):
            return False
        return _mapping_param(a, fi, m, node)
    if isinstance(e, ast.Name):
        if node is None:
            return False
        defs = a.flow.rd(fi).reaching(node, e.id)
        if not defs:
            return False
        for d in defs:
            if d.kind in ("assign", "walrus") and d.index is None and d.value is not None:
                if not _input_text(a, fi, d.value, d.node, st, depth + 1):
                    return False
            elif d.kind == "param":
                if fi.fq in a.flow.entry_fqs:
                    continue  # the arguments of the entry points are the client text the property quantifies over
                srcs = a.flow.param_sources(fi, d.name, st)
                if srcs is None:
                    return False
                for f2, x, n2, s2 in srcs:
                    if not _input_text(a, f2, x, n2, s2, depth + 1):
                        return False
            else:
                return False
        return True
    return False


def _mapping_param(a: A, fi: FuncInfo, m: ast.AST, node) -> bool:
    """the mapping a CGI variable is read from is a parameter (the environ / header mapping handed in) or <x>.environ."""
    if isinstance(m, ast.Attribute) and m.attr == "environ":
        return True
    if isinstance(m, ast.Name) and node is not None:
        defs = a.flow.rd(fi).reaching(node, m.id)
        return bool(defs) and all(d.kind == "param" or (d.kind == "assign" and d.index is None and isinstance(d.value, ast.Attribute) and d.value.attr == "environ") for d in defs)
    return False


def role_latin1_input(a: A, s: Site, e: str) -> Verdict:
    if s.kind != "encode" or e != "UnicodeEncodeError" or not isinstance(s.node, ast.Call):
        return None
    cc = codec_call(s.node)
    if cc is None or cc[0] != "encode" or cc[2] not in _LATIN1_CODECS:
        return None
    recv = cc[1]
    node = a.flow.node(s.func, s.node)
    if _input_text(a, s.func, recv, node):
        return True, "receiver is environ / header text (a CGI variable of the environ mapping or an argument of an entry point), latin-1 by the WSGI contract (input model)"
    return None


# ---------------------------------------------------------------------
# application / server controlled raises


def role_shallow_flag(a: A, s: Site, e: str) -> Verdict:
    if s.kind != "raise" or e != "RuntimeError" or s.func.cls is None or not s.func.params:
        return None
    sn = s.func.params[0]
    node = a.flow.node(s.func, s.node)
    if node is None:
        return None
    flags = []
    for at in a.flow.atoms(s.func, node):
        if at.op == "truthy" and at.truth and astq.is_self_attr(at.a, None, sn) and a.flow.fresh(s.func, at, node):
            flags.append(at.a.attr)  # type: ignore[attr-defined]
    for fl in flags:
        # the flag is constructor configuration: some __init__ in the MRO stores its own parameter of that name
        for k in a.repo.mro(s.func.cls):
            ini = k.methods.get("__init__") if isinstance(k, ClassInfo) else None
            if ini is not None and fl in ini.params and _bool_default(ini, fl):
                stored = any(isinstance(x, ast.Assign) and any(astq.is_self_attr(tg, fl, ini.params[0]) for tg in x.targets) and isinstance(x.value, ast.Name) and x.value.id == fl for x in walk_no_nested(ini.node))
                if stored:
                    return True, f"raised only under `{sn}.{fl}`, a flag the application passes to {k.name}.__init__ (application configuration, not client input)"
    return None


def _bool_default(f: FuncInfo, pname: str) -> bool:
    """the parameter is an on/off switch: its default is the constant True or False."""
    a_ = f.node.args  # type: ignore[attr-defined]
    pos = a_.posonlyargs + a_.args
    for i, x in enumerate(pos):
        if x.arg == pname:
            j = i - (len(pos) - len(a_.defaults))
            return j >= 0 and isinstance(a_.defaults[j], ast.Constant) and isinstance(a_.defaults[j].value, bool)
    for x, d in zip(a_.kwonlyargs, a_.kw_defaults):
        if x.arg == pname:
            return isinstance(d, ast.Constant) and isinstance(d.value, bool)
    return False


def role_abstract_method(a: A, s: Site, e: str) -> Verdict:
    if s.kind != "raise" or e != "NotImplementedError" or s.func.cls is None:
        return None
    subs = a.repo.subclasses(s.func.cls.fq)
    if not subs:
        return None
    missing = []
    for c in subs:
        _, w = a.repo.lookup(c, s.func.name)
        if not isinstance(w, FuncInfo) or w is s.func:
            missing.append(c.name)
    ok = not missing
    return ok, f"abstract: all {len(subs)} subclass(es) of {s.func.cls.name} override {s.func.name}" if ok else f"abstract method not overridden in {missing}"


def _client_positions(a: A, meth: FuncInfo) -> tuple[set[int], int]:
    """argument positions of self.<meth>(...) calls (in the class hierarchy) that carry an element of `self`
    (the client's list), and the number of such calls."""
    pos: set[int] = set()
    ncalls = 0
    classes = [k for k in a.repo.mro(meth.cls) if isinstance(k, ClassInfo)] + list(a.repo.subclasses(meth.cls.fq))  # type: ignore[arg-type]
    for k in classes:
        for m in k.methods.values():
            if not m.params:
                continue
            sn = m.params[0]
            for c in astq.calls(m.node):
                if isinstance(c.func, ast.Attribute) and c.func.attr == meth.name and isinstance(c.func.value, ast.Name) and c.func.value.id == sn:
                    ncalls += 1
                    nn = cfg_of(m).node_of(c)
                    for i, arg in enumerate(c.args):
                        if _from_self_elements(a, m, arg, nn):
                            pos.add(i)
    return pos, ncalls


def _from_self_elements(a: A, m: FuncInfo, e: ast.AST, node, depth: int = 0) -> bool:
    """e is (a component of) an element obtained by iterating / indexing the method's own `self`."""
    sn = m.params[0]
    if depth > 6:
        return False
    if isinstance(e, ast.Subscript):
        if isinstance(e.value, ast.Name) and e.value.id == sn:
            return True
        return _from_self_elements(a, m, e.value, node, depth + 1)
    if isinstance(e, ast.Name) and node is not None:
        cb = a.flow._comp_binding(m, e) if hasattr(e, "_parent") else None
        if cb is not None:
            return _iter_of_self(cb[0].iter, sn)
        defs = a.flow.rd(m).reaching(node, e.id)
        if not defs:
            return False
        for d in defs:
            if d.kind == "for":
                it = d.stmt.iter if isinstance(d.stmt, (ast.For, ast.AsyncFor)) else None
                if it is None or not _iter_of_self(it, sn):
                    return False
            elif d.kind in ("assign", "unpack", "walrus") and d.value is not None:
                if not _from_self_elements(a, m, d.value, d.node, depth + 1):
                    return False
            else:
                return False
        return True
    return False


def _iter_of_self(it: ast.AST, sn: str) -> bool:
    if isinstance(it, ast.Name) and it.id == sn:
        return True
    if isinstance(it, ast.Call) and dotted(it.func) in ("enumerate", "iter", "reversed", "list", "tuple") and it.args and isinstance(it.args[0], ast.Name) and it.args[0].id == sn:
        return True
    return False


def _app_params(a: A, fi: FuncInfo, depth: int = 0) -> tuple[set[str], str] | None:
    """the parameters of fi that only ever carry values of the application (the offers / keys it passes to an Accept
    method), never an element of the client's list; None when fi is not on such a path."""
    if depth > 3 or not fi.params:
        return None
    if _is_subclass(a, fi.cls, "werkzeug.datastructures.accept.Accept"):
        params = fi.params[1:]
        pos, ncalls = _client_positions(a, fi)
        if ncalls and pos:
            client = {params[i] for i in pos if i < len(params)}
            return set(params) - client, f"of {ncalls} call(s) self.{fi.name}(...) the argument(s) {sorted(client)} carry the client's items"
        if not ncalls and fi.fq in a.flow.entry_fqs:
            return set(params), f"{fi.qualname} is called by the application with its own values"
        return None
    cal = a.flow.callers(fi)
    if not cal:
        return None
    static = any(d.rsplit(".", 1)[-1] == "staticmethod" for d in fi.decorators)
    params = fi.params[1:] if (fi.cls is not None and not static) else list(fi.params)
    app = set(params)
    whys = []
    for f, n, kind in cal:
        if kind != "call":
            return None
        up = _app_params(a, f, depth + 1)
        if up is None:
            return None
        whys.append(up[1])
        nn = cfg_of(f).node_of(n)
        for p in list(app):
            b = a.flow.bind(fi, n, p)
            if b is None:
                app.discard(p)
                continue
            if b[0] == "default":
                continue
            deps = a.flow.param_deps(f, b[1], nn)
            if not deps <= up[0]:
                app.discard(p)
    return app, f"{fi.qualname} is called from {len(cal)} place(s) [{'; '.join(sorted(set(whys)))}]"


def role_application_value(a: A, s: Site, e: str) -> Verdict:
    """explicit raise on the path of an Accept matching method (in it, or in a helper it calls), under a test of the
    application's own value only."""
    if s.kind != "raise" or e != "ValueError":
        return None
    got = _app_params(a, s.func)
    if got is None:
        return None
    app, why = got
    node = a.flow.node(s.func, s.node)
    if node is None or not app:
        return None
    own = []
    for at in a.flow.atoms(s.func, node):
        deps = set()
        for x in (at.a, at.b):
            if x is not None:
                deps |= a.flow.param_deps(s.func, x, at.test)
        if s.func.cls is not None:
            deps.discard(s.func.params[0])
        if deps and deps <= app:
            own.append(norm(at.test.ast))
    ok = bool(own)
    why = why + "; "
    if ok:
        return True, why + f"this raise is dominated by a test of the application's own value only ({own[0]}): a client item cannot trigger it"
    return False, why + "this raise is not dominated by any test that depends on the application's value only"


# ---------------------------------------------------------------------
# Accept lists: (value, quality) pairs


def _accept_pairs_premise(a: A) -> tuple[bool, str]:
    f = a.repo.func("http.parse_accept_header")
    facts = []
    ok = True
    n = 0
    for r in astq.returns_of(f.node):
        v = r.value
        if isinstance(v, ast.Call) and len(v.args) == 1 and not v.keywords and isinstance(v.func, ast.Name):
            if astq.is_none(v.args[0]):
                continue
            n += 1
            save = a.flow.cur
            a.flow.cur = None
            try:
                ar = a.flow.minlen(f, v.args[0], cfg_of(f).node_of(r), (("any",),))
            finally:
                a.flow.cur = save
            facts.append(f"`{norm(v)}`: every element has >= {ar if ar < INF else 'inf'} component(s)")
            ok = ok and ar >= 2
    if not n:
        raise AnalysisError("C07 accept pairs: parse_accept_header does not return <cls>(<list>) any more; the producer of the Accept list was not found")
    return ok, "; ".join(facts)


def role_accept_pair(a: A, s: Site, e: str) -> Verdict:
    if s.kind != "const-index" or e != "IndexError" or not _is_subclass(a, s.func.cls, "werkzeug.datastructures.accept.Accept"):
        return None
    sub = s.node
    idx = const_int(sub.slice)  # type: ignore[attr-defined]
    if idx not in (0, 1):
        return None
    node = a.flow.node(s.func, sub)
    if not _from_self_elements(a, s.func, sub.value, node) or (isinstance(sub.value, ast.Name) and sub.value.id == s.func.params[0]):  # type: ignore[attr-defined]
        return None
    ok, why = _accept_pairs_premise(a)
    return ok, f"component {idx} of an element of the Accept list itself: (value, quality) pairs by construction [{why}]"


def _rename(e: ast.AST, old: str, new: str = "_") -> str:
    fresh = ast.parse(ast.unparse(e), mode="eval").body

    class T(ast.NodeTransformer):
        def visit_Name(self, n):  # noqa: N802
            return ast.copy_location(ast.Name(new, n.ctx), n) if n.id == old else n

    return norm(T().visit(fresh))


def role_fallback_search(a: A, s: Site, e: str) -> Verdict:
    """next(<x for x in M if key(x) == R>) where R was negotiated over [key(x) for x in M]."""
    if s.kind != "next" or e != "StopIteration" or not _is_subclass(a, s.func.cls, "werkzeug.datastructures.accept.Accept"):
        return None
    call = s.node
    g = call.args[0] if isinstance(call, ast.Call) and call.args else None
    if not isinstance(g, ast.GeneratorExp) or len(g.generators) != 1 or len(g.generators[0].ifs) != 1 or not isinstance(g.generators[0].target, ast.Name):
        return None
    gen = g.generators[0]
    var = gen.target.id
    cond = gen.ifs[0]
    if not (isinstance(cond, ast.Compare) and len(cond.ops) == 1 and isinstance(cond.ops[0], ast.Eq)):
        return None
    l, r = cond.left, cond.comparators[0]
    if isinstance(l, ast.Name) and l.id != var:
        l, r = r, l
    if not isinstance(r, ast.Name) or var in astq.names_in(r) or var not in astq.names_in(l):
        return None
    fi = s.func
    node = a.flow.node(fi, call)
    rd = a.flow.rd(fi)
    key_txt = _rename(l, var)
    facts = []
    # R is not None here
    nn = a.flow.holds(fi, node, lambda at: (at.op == "is" and not at.truth and norm(at.a) == r.id and astq.is_none(at.b)) or (at.op == "truthy" and at.truth and norm(at.a) == r.id))
    facts.append(f"`{r.id}` is known to be a negotiated value (not None): {nn is not None}")
    # R = <...>.best_match(L) where every element of L is key(y) for some y of M
    defs = list(rd.reaching(node, r.id))
    ok_src = False
    if len(defs) == 1 and defs[0].kind in ("assign", "walrus") and isinstance(defs[0].value, ast.Call) and isinstance(defs[0].value.func, ast.Attribute) and defs[0].value.func.attr == "best_match" and len(defs[0].value.args) == 1 and not defs[0].value.keywords:
        larg = defs[0].value.args[0]
        els = _keyed_elements(a, fi, larg, defs[0].node)
        if els is None:
            raise AnalysisError(f"C07 fallback search: {fi.qualname}: the list `{norm(larg)[:60]}` negotiated over is built in a shape that is not understood")
        elif not els:
            facts.append("the list negotiated over is always empty")
        else:
            same_key = all(k == key_txt for k, _, _ in els)
            same_iter = all(it == norm(gen.iter) for _, it, _ in els)
            stable = isinstance(gen.iter, ast.Name) and all({id(d) for d in rd.reaching(node, gen.iter.id)} == {id(d) for d in rd.reaching(n2, gen.iter.id)} for _, _, n2 in els)
            ok_src = same_key and same_iter and stable
            facts.append(f"negotiated over {{{els[0][0]} for _ in {els[0][1]}}} ({len(els)} producer(s)): same key {same_key}, same offers {same_iter and stable}")
    else:
        facts.append(f"`{r.id}` is not the single result of a best_match call")
    # best_match returns one of its offers (or the default, None here)
    bm = a.repo.func("datastructures.accept.Accept.best_match")
    ok_bm = _returns_offer_or_default(a, bm)
    facts.append(f"Accept.best_match returns one of its offers or the default: {ok_bm}")
    ok = nn is not None and ok_src and ok_bm
    return ok, "the searched value is the key of one of the offers by construction [" + "; ".join(facts) + "]"


def _key_of_callable(f: ast.AST) -> str | None:
    """the text of f(_) for a callable expression f (a name or a lambda of one parameter)."""
    if isinstance(f, ast.Lambda):
        ar = f.args
        if len(ar.args) == 1 and not (ar.posonlyargs or ar.kwonlyargs or ar.vararg or ar.kwarg or ar.defaults):
            return _rename(f.body, ar.args[0].arg)
        return None
    if dotted(f):
        return f"{dotted(f)}(_)"
    return None


def _keyed_elements(a: A, fi: FuncInfo, e: ast.AST, node, depth: int = 0) -> list[tuple[str, str, t.Any]] | None:
    """what a list / iterable holds, as [(key text with `_` for the element, text of the iterable, CFG node)]: every
    element is key(y) for some y of the iterable (a filter only removes elements).  Comprehensions and generators,
    list() / tuple() / sorted() / set() around them, map(f, M), and a local filled by `for y in M: L.append(key(y))`."""
    if depth > 6:
        return None
    if isinstance(e, (ast.ListComp, ast.GeneratorExp, ast.SetComp)):
        if len(e.generators) != 1 or not isinstance(e.generators[0].target, ast.Name):
            return None
        g = e.generators[0]
        return [(_rename(e.elt, g.target.id), norm(g.iter), node)]
    if isinstance(e, ast.Call):
        d = dotted(e.func)
        if d in ("list", "tuple", "sorted", "set", "frozenset", "iter", "reversed") and len(e.args) == 1:
            return _keyed_elements(a, fi, e.args[0], node, depth + 1)
        if d in ("list", "tuple", "set") and not e.args and not e.keywords:
            return []
        if d == "map" and len(e.args) == 2 and not e.keywords:
            k = _key_of_callable(e.args[0])
            return None if k is None else [(k, norm(e.args[1]), node)]
        return None
    if isinstance(e, (ast.List, ast.Tuple)):
        return [] if not e.elts else None
    if isinstance(e, ast.Name):
        if node is None:
            return None
        defs = list(a.flow.rd(fi).reaching(node, e.id))
        if not defs:
            return None
        out: list[tuple[str, str, t.Any]] = []
        for d_ in defs:
            if not (d_.kind in ("assign", "walrus") and d_.index is None and d_.value is not None):
                return None
            got = _keyed_elements(a, fi, d_.value, d_.node, depth + 1)
            if got is None:
                return None
            out += got
        # additions to the local anywhere in the function
        cfg = cfg_of(fi)
        for n in walk_no_nested(fi.node):
            if isinstance(n, ast.Call) and isinstance(n.func, ast.Attribute) and isinstance(n.func.value, ast.Name) and n.func.value.id == e.id:
                m = n.func.attr
                if m in ("append", "add") and len(n.args) == 1 and not n.keywords:
                    loop = astq.enclosing(n, (ast.For,))
                    if not (isinstance(loop, ast.For) and isinstance(loop.target, ast.Name)):
                        return None
                    head = cfg.by_ast.get(id(loop), [None])[0]
                    out.append((_rename(n.args[0], loop.target.id), norm(loop.iter), head))
                elif m in ("extend", "update") and len(n.args) == 1 and not n.keywords:
                    got = _keyed_elements(a, fi, n.args[0], cfg.node_of(n), depth + 1)
                    if got is None:
                        return None
                    out += got
                elif m in _NO_NEW:
                    continue
                else:
                    return None
            elif isinstance(n, ast.AugAssign) and isinstance(n.target, ast.Name) and n.target.id == e.id:
                got = _keyed_elements(a, fi, n.value, cfg.node_of(n), depth + 1)
                if got is None:
                    return None
                out += got
            elif isinstance(n, ast.Assign) and any(isinstance(tg, ast.Subscript) and isinstance(tg.value, ast.Name) and tg.value.id == e.id for tg in n.targets):
                return None
        return out
    return None


def _returns_offer_or_default(a: A, bm: FuncInfo) -> bool:
    rd = a.flow.rd(bm)
    cfg = cfg_of(bm)
    if len(bm.params) < 3:
        return False
    offers, default = bm.params[1], bm.params[2]
    rets = astq.returns_of(bm.node)
    if not rets:
        return False

    def ok_val(v, n, depth=0) -> bool:
        if depth > 4 or not isinstance(v, ast.Name):
            return False
        ds = rd.reaching(n, v.id)
        if not ds:
            return False
        for d in ds:
            if d.kind == "param":
                if d.name != default:
                    return False
            elif d.kind == "for" and d.index is None and isinstance(d.stmt, ast.For) and isinstance(d.stmt.iter, ast.Name) and d.stmt.iter.id == offers:
                continue
            elif d.kind in ("assign", "walrus") and d.index is None and d.value is not None:
                if not ok_val(d.value, d.node, depth + 1):
                    return False
            else:
                return False
        return True

    return all(r.value is not None and ok_val(r.value, cfg.node_of(r)) for r in rets)


# ---------------------------------------------------------------------
# numbers parsed from text that a regex fully matched


def _digits_only(items, rx: RegexConst) -> bool:
    cls = class_of_items(items, rx.flags, isinstance(rx.pattern, bytes), 0x3000)
    return bool(cls) and all(48 <= c <= 57 for c in cls)


def _is_digit_run(node, rx: RegexConst, min_lo: int) -> bool:
    op, av = node
    if op in (sre_c.MAX_REPEAT, sre_c.MIN_REPEAT):
        lo, hi, sub = av
        sub = list(sub)
        return lo >= min_lo and len(sub) == 1 and sub[0][0] is sre_c.IN and _digits_only(sub[0][1], rx)
    if op is sre_c.IN and min_lo <= 1:
        return _digits_only(av, rx)
    return False


def _is_sign_opt(node) -> bool:
    op, av = node
    if op in (sre_c.MAX_REPEAT, sre_c.MIN_REPEAT) and av[0] == 0 and av[1] == 1:
        sub = list(av[2])
        if len(sub) == 1 and sub[0][0] is sre_c.LITERAL and chr(sub[0][1]) in "+-":
            return True
        if len(sub) == 1 and sub[0][0] is sre_c.IN and all(o is sre_c.LITERAL and chr(v) in "+-" for o, v in sub[0][1]):
            return True
    return False


def decimal_language(rx: RegexConst, allow_fraction: bool) -> bool:
    """L(rx) is a subset of [+-]? DIGIT+ ( '.' DIGIT* )?  (ASCII digits): every member is accepted by int()/float()."""
    if isinstance(rx.pattern, bytes):
        return False
    items = list(rx.parsed())
    i = 0
    if i < len(items) and _is_sign_opt(items[i]):
        i += 1
    if i >= len(items) or not _is_digit_run(items[i], rx, 1):
        return False
    i += 1
    if i == len(items):
        return True
    if not allow_fraction or i != len(items) - 1:
        return False
    op, av = items[i]
    frac = None
    if op in (sre_c.MAX_REPEAT, sre_c.MIN_REPEAT) and av[0] == 0 and av[1] == 1:
        sub = list(av[2])
        if len(sub) == 1 and sub[0][0] is sre_c.SUBPATTERN:
            frac = list(sub[0][1][3])
        else:
            frac = sub
    elif op is sre_c.SUBPATTERN:
        frac = list(av[3])
    if frac is None or len(frac) != 2:
        return False
    return frac[0][0] is sre_c.LITERAL and chr(frac[0][1]) == "." and _is_digit_run(frac[1], rx, 0)


def _fullmatched_by(a: A, fi: FuncInfo, x: ast.AST, node, st: St = St(), depth: int = 0):
    """regexes R with `R.fullmatch(x)` established at node (a dominating guard here, or - x being a parameter passed
    straight through - at every call site on the escaping chain).  Returns (regex, description) or None."""
    ks = a.flow.keys(fi, x, node)
    for at in a.flow.atoms(fi, node):
        c = None
        if at.op == "is" and not at.truth and astq.is_none(at.b):
            c = at.a
        elif at.op == "truthy" and at.truth:
            c = at.a
        if isinstance(c, ast.Call) and isinstance(c.func, ast.Attribute) and c.func.attr == "fullmatch" and len(c.args) == 1 and norm(c.args[0]) in ks:
            rx = a.flow.fold_regex(fi, c.func.value)
            if rx is not None and a.flow.fresh(fi, at, node):
                return rx, f"`{norm(c)}` matched on every path to the conversion in {fi.qualname}"
    if isinstance(x, ast.Name) and depth < 2:
        defs = a.flow.rd(fi).reaching(node, x.id)
        if defs and all(d.kind == "param" for d in defs):
            srcs = a.flow.param_sources(fi, x.id, st)
            if srcs:
                got = [_fullmatched_by(a, f2, y, n2, s2, depth + 1) for f2, y, n2, s2 in srcs]
                if all(g is not None and g[0].pattern == got[0][0].pattern and g[0].flags == got[0][0].flags for g in got):
                    return got[0][0], "; ".join(g[1] for g in got) + f" (argument passed straight to {fi.qualname})"
    return None


def role_regex_number(a: A, s: Site, e: str) -> Verdict:
    if s.kind not in ("float", "int") or e != "ValueError" or not isinstance(s.node, ast.Call) or len(s.node.args) != 1 or s.node.keywords:
        return None
    node = a.flow.node(s.func, s.node)
    if node is None:
        return None
    arg = s.node.args[0]
    got = None
    whole = None
    if isinstance(arg, ast.Call) and isinstance(arg.func, ast.Attribute) and arg.func.attr == "group" and (not arg.args or (len(arg.args) == 1 and const_int(arg.args[0]) == 0)):
        whole = arg.func.value
    elif isinstance(arg, ast.Subscript) and const_int(arg.slice) == 0:
        whole = arg.value
    if whole is not None:
        rx0 = a.flow.regex_of_match(s.func, whole, node)
        if rx0 is not None:
            got = rx0, f"the operand is the whole match `{norm(arg)}` of a match object of the pattern, a member of its language"
    if got is None:
        got = _fullmatched_by(a, s.func, arg, node)
    if got is None:
        return None
    rx, how = got
    ok = decimal_language(rx, allow_fraction=s.kind == "float") and bool(rx.flags & re.A)
    return ok, f"{how}; language of {rx.pattern!r} (re.ASCII: {bool(rx.flags & re.A)}) is a subset of the {'decimal' if s.kind == 'float' else 'integer'} literals {s.kind}() accepts: {ok}"


# ---------------------------------------------------------------------
# octal escapes: int(x, 8).to_bytes(1, ...)


def _alt_classes(seq, rx: RegexConst):
    """a fixed-length sequence of character classes as a list of sets, or None."""
    out = []
    for op, av in seq:
        if op in (sre_c.MAX_REPEAT, sre_c.MIN_REPEAT):
            lo, hi, sub = av
            sub = list(sub)
            if lo != hi or len(sub) != 1:
                return None
            one = _alt_classes(sub, rx)
            if one is None:
                return None
            out.extend(one * lo)
        elif op is sre_c.IN:
            out.append(class_of_items(av, rx.flags, isinstance(rx.pattern, bytes), 256))
        elif op is sre_c.LITERAL:
            out.append({av})
        elif op is sre_c.ANY:
            out.append(set(range(256)))
        else:
            return None
    return out


def _group_alternatives(rx: RegexConst, group: int):
    res = []

    def rec(seq):
        for op, av in seq:
            if op is sre_c.SUBPATTERN:
                if av[0] == group:
                    res.append(list(av[3]))
                rec(av[3])
            elif op in (sre_c.MAX_REPEAT, sre_c.MIN_REPEAT):
                rec(av[2])
            elif op is sre_c.BRANCH:
                for b in av[1]:
                    rec(b)

    rec(rx.parsed())
    if len(res) != 1:
        return None
    body = res[0]
    if len(body) == 1 and body[0][0] is sre_c.BRANCH:
        return [list(b) for b in body[0][1][1]]
    return [body]


def _group_ref(a: A, fi: FuncInfo, x: ast.AST, node, depth: int = 0):
    """(match object expression, group number k >= 1, CFG node) when x is group k of a match: m.group(k), m[k],
    m.groups()[k-1], a name bound to one of those or unpacked from m.groups() / m.group(i, j, ...)."""
    if depth > 4:
        return None
    if isinstance(x, ast.Call) and isinstance(x.func, ast.Attribute) and x.func.attr == "group" and len(x.args) == 1 and const_int(x.args[0]):
        return x.func.value, const_int(x.args[0]), node
    if isinstance(x, ast.Subscript):
        k = const_int(x.slice)
        v = x.value
        if k is None:
            return None
        if isinstance(v, ast.Call) and isinstance(v.func, ast.Attribute) and v.func.attr == "groups" and not v.args and k >= 0:
            return v.func.value, k + 1, node
        if isinstance(v, ast.Call) and isinstance(v.func, ast.Attribute) and v.func.attr == "group" and len(v.args) > 1 and 0 <= k < len(v.args) and const_int(v.args[k]):
            return v.func.value, const_int(v.args[k]), node
        if k >= 1 and a.flow.regex_of_match(fi, v, node) is not None:
            return v, k, node
        return None
    if isinstance(x, ast.Name) and node is not None:
        ds = list(a.flow.rd(fi).reaching(node, x.id))
        if not ds:
            return None
        got = []
        for d in ds:
            if d.kind in ("assign", "walrus") and d.index is None and d.value is not None:
                got.append(_group_ref(a, fi, d.value, d.node, depth + 1))
            elif d.kind == "unpack" and d.index is not None and d.value is not None:
                tg = getattr(d.stmt, "targets", [None])[0] if isinstance(d.stmt, ast.Assign) else None
                if isinstance(tg, (ast.Tuple, ast.List)) and any(isinstance(y, ast.Starred) for y in tg.elts):
                    return None
                got.append(_group_ref(a, fi, ast.Subscript(value=d.value, slice=ast.Constant(d.index), ctx=ast.Load()), d.node, depth + 1))
            else:
                return None
        if any(g is None for g in got) or len({(norm(g[0]), g[1]) for g in got}) != 1:
            return None
        return got[0]
    return None


def role_octal_escape(a: A, s: Site, e: str) -> Verdict:
    call = s.node
    if s.kind == "int" and e == "ValueError" and isinstance(call, ast.Call) and len(call.args) == 2 and const_int(call.args[1]) == 8:
        x = call.args[0]
    elif s.kind == "to_bytes" and e == "OverflowError" and isinstance(call, ast.Call) and const_int(astq.arg_or_kw(call, 0, "length")) == 1:
        src = call.func.value  # type: ignore[attr-defined]
        node0 = a.flow.node(s.func, call)
        if isinstance(src, ast.Name) and node0 is not None:
            ds = list(a.flow.rd(s.func).reaching(node0, src.id))
            src = ds[0].value if len(ds) == 1 and ds[0].kind in ("assign", "walrus") and ds[0].index is None else None
        if not (isinstance(src, ast.Call) and dotted(src.func) == "int" and len(src.args) == 2 and const_int(src.args[1]) == 8):
            return None
        x = src.args[0]
    else:
        return None
    fi = s.func
    node = a.flow.node(fi, call)
    # x is group k of a match of regex R
    ref = _group_ref(a, fi, x, node)
    if ref is None:
        return None
    mexpr, k, gnode = ref
    rx = a.flow.regex_of_match(fi, mexpr, gnode)
    if rx is None:
        return None
    alts = _group_alternatives(rx, k)
    if alts is None:
        raise AnalysisError(f"C07 octal escape: group {k} of {rx.pattern!r} not understood")
    # a dominating length test excludes the single-character alternative(s)
    multi = a.flow.minlen(fi, x, node) >= 2 or a.flow.holds(fi, node, lambda at: at.op == "eq" and not at.truth and any(isinstance(p, ast.Call) and dotted(p.func) == "len" and len(p.args) == 1 and norm(p.args[0]) == norm(x) and const_int(q) == 1 for p, q in ((at.a, at.b), (at.b, at.a)))) is not None
    octal = set(b"01234567")
    bad = []
    for alt in alts:
        cl = _alt_classes(alt, rx)
        if cl is not None and len(cl) == 1 and multi:
            continue
        if cl is None or not cl or len(cl) > 3 or not all(c <= octal for c in cl) or (len(cl) == 3 and not cl[0] <= set(b"0123")):
            bad.append(alt)
    ok = not bad
    pat = rx.pattern if isinstance(rx.pattern, str) else rx.pattern.decode("latin1")
    return ok, f"operand is group {k} of {pat!r}; single-character alternative excluded by a length test: {bool(multi)}; every other alternative is 1-3 octal digits below 0o400: {ok}"


# ---------------------------------------------------------------------
# ASCII bytes


def _ascii_bytes(a: A, fi: FuncInfo, e: ast.AST, node, st: St = St(), depth: int = 0) -> bool:
    """the value holds only bytes < 128: decided by Flow.ascii_only (origins, dominating `is ASCII` tests, call sites)."""
    return a.flow.ascii_only(fi, e, node, st, depth)


def role_ascii_decode(a: A, s: Site, e: str) -> Verdict:
    if s.kind != "decode" or e != "UnicodeDecodeError" or not isinstance(s.node, ast.Call):
        return None
    cc = codec_call(s.node)
    if cc is None or cc[0] != "decode" or cc[2] not in _ASCII_CODECS | _ASCII_COMPATIBLE:
        return None
    node = a.flow.node(s.func, s.node)
    if _ascii_bytes(a, s.func, cc[1], node):
        return True, "the receiver holds only ASCII bytes on every definition that reaches it, across the call boundary ((a piece of) the result of <str>.encode('ascii'), or of an ASCII-compatible encode of a text tested with isascii(), or bytes tested with isascii()): ASCII bytes decode as ASCII in every ASCII-compatible codec"
    return None


# ---------------------------------------------------------------------
# constructor validation already done by the parser


class _PairSite(t.NamedTuple):
    """one place where an element is put into the list that reaches the validating constructor."""

    fi: FuncInfo
    node: t.Any  # CFG node that evaluates the element
    expr: ast.AST  # the element
    comp: ast.AST | None  # the comprehension that produces it, if any
    via: t.Any  # (_PairSite-like context of the call) when fi received the list as an argument: (caller fi, call, via)


_LIST_COPY = {"list", "tuple", "sorted", "reversed", "iter"}
_NO_NEW = {"pop", "clear", "remove", "sort", "reverse", "copy", "index", "count", "__len__", "__contains__", "__iter__", "__getitem__"}


class _ListOrigin:
    """every element that can be in a list value: literals, comprehensions, append / insert / extend / += / item
    assignment on the local that holds it (flow-insensitive: every addition anywhere counts), aliases, copies, helpers
    that build and return it, helpers that fill it through a parameter, and the callers' arguments for a parameter."""

    def __init__(self, a: A):
        self.a = a
        self.seen: set[tuple[str, str]] = set()

    def err(self, fi: FuncInfo, n: ast.AST, why: str) -> AnalysisError:
        return AnalysisError(f"C07 range constructor: {fi.qualname}: `{norm(n)[:70]}` {why}")

    def value(self, fi: FuncInfo, v: ast.AST | None, node, via, depth: int = 0) -> list[_PairSite]:
        """element sites of the list / iterable expression v."""
        if v is None or depth > 8:
            return []
        if isinstance(v, ast.Constant):
            if v.value is None or v.value == () or v.value == "":
                return []
            raise self.err(fi, v, "is not a list of pairs")
        if isinstance(v, (ast.List, ast.Tuple, ast.Set)):
            out: list[_PairSite] = []
            for x in v.elts:
                if isinstance(x, ast.Starred):
                    out += self.value(fi, x.value, node, via, depth + 1)
                else:
                    out.append(_PairSite(fi, node, x, None, via))
            return out
        if isinstance(v, (ast.ListComp, ast.GeneratorExp, ast.SetComp)):
            return [_PairSite(fi, node, v.elt, v, via)]
        if isinstance(v, ast.NamedExpr):
            return self.value(fi, v.value, node, via, depth + 1)
        if isinstance(v, ast.IfExp):
            return self.value(fi, v.body, node, via, depth + 1) + self.value(fi, v.orelse, node, via, depth + 1)
        if isinstance(v, ast.BoolOp):
            return [x for y in v.values for x in self.value(fi, y, node, via, depth + 1)]
        if isinstance(v, ast.BinOp) and isinstance(v.op, ast.Add):
            return self.value(fi, v.left, node, via, depth + 1) + self.value(fi, v.right, node, via, depth + 1)
        if isinstance(v, ast.Subscript) and isinstance(v.slice, ast.Slice):
            return self.value(fi, v.value, node, via, depth + 1)
        if isinstance(v, ast.Name):
            return self.name(fi, v.id, via, depth + 1)
        if isinstance(v, ast.Call):
            d = dotted(v.func)
            if d in _LIST_COPY and not v.keywords or (d == "sorted"):
                return self.value(fi, v.args[0], node, via, depth + 1) if v.args else []
            if d is not None and d.rsplit(".", 1)[-1] == "cast" and len(v.args) == 2:
                return self.value(fi, v.args[1], node, via, depth + 1)
            if isinstance(v.func, ast.Attribute) and v.func.attr == "copy" and not v.args:
                return self.value(fi, v.func.value, node, via, depth + 1)
            gs = self.a.flow.resolve_callee(fi, v)
            if gs:
                out = []
                for g in gs:
                    if any(isinstance(x, (ast.Yield, ast.YieldFrom)) for x in walk_no_nested(g.node)):
                        for y in walk_no_nested(g.node):
                            if isinstance(y, ast.Yield) and y.value is not None:
                                out.append(_PairSite(g, cfg_of(g).node_of(y), y.value, None, None))
                            elif isinstance(y, ast.YieldFrom):
                                out += self.value(g, y.value, cfg_of(g).node_of(y), None, depth + 1)
                        continue
                    for r in astq.returns_of(g.node):
                        out += self.value(g, r.value, cfg_of(g).node_of(r), None, depth + 1)
                return out
        raise self.err(fi, v, "builds the list in a shape that is not understood")

    def name(self, fi: FuncInfo, name: str, via, depth: int = 0) -> list[_PairSite]:
        """element sites of the list held by local `name` of fi (every addition anywhere in fi)."""
        key = (fi.fq + "|" + str(id(via)), name)
        if key in self.seen:
            return []
        self.seen.add(key)
        cfg = cfg_of(fi)
        out: list[_PairSite] = []
        if name in fi.params:
            out += self.param(fi, name, via, depth)
        for n in walk_no_nested(fi.node):
            if isinstance(n, (ast.Assign, ast.AnnAssign)):
                tgs = n.targets if isinstance(n, ast.Assign) else [n.target]
                val = n.value
                for tg in tgs:
                    if isinstance(tg, ast.Name) and tg.id == name:
                        out += self.value(fi, val, cfg.node_of(n), via, depth + 1)
                    elif isinstance(tg, (ast.Tuple, ast.List)) and any(isinstance(x, ast.Name) and x.id == name for x in ast.walk(tg)):
                        raise self.err(fi, n, "binds the list by unpacking")
                    elif isinstance(tg, ast.Subscript) and isinstance(tg.value, ast.Name) and tg.value.id == name:
                        if isinstance(tg.slice, ast.Slice):
                            out += self.value(fi, val, cfg.node_of(n), via, depth + 1)
                        else:
                            out.append(_PairSite(fi, cfg.node_of(n), val, None, via))
                    elif isinstance(tg, ast.Name) and isinstance(val, ast.Name) and val.id == name:
                        out += self.name(fi, tg.id, via, depth + 1)  # alias: additions through the other name count
            elif isinstance(n, ast.AugAssign) and isinstance(n.target, ast.Name) and n.target.id == name:
                if not isinstance(n.op, ast.Add):
                    raise self.err(fi, n, "changes the list in a shape that is not understood")
                out += self.value(fi, n.value, cfg.node_of(n), via, depth + 1)
            elif isinstance(n, ast.NamedExpr) and n.target.id == name:
                out += self.value(fi, n.value, cfg.node_of(n), via, depth + 1)
            elif isinstance(n, (ast.For, ast.AsyncFor)) and any(isinstance(x, ast.Name) and x.id == name for x in ast.walk(n.target)):
                raise self.err(fi, n.target, "rebinds the list as a loop variable")
            elif isinstance(n, ast.Call):
                f = n.func
                if isinstance(f, ast.Attribute) and isinstance(f.value, ast.Name) and f.value.id == name:
                    nn = cfg.node_of(n)
                    if f.attr in ("append", "add") and len(n.args) == 1 and not n.keywords:
                        out.append(_PairSite(fi, nn, n.args[0], None, via))
                    elif f.attr == "insert" and len(n.args) == 2 and not n.keywords:
                        out.append(_PairSite(fi, nn, n.args[1], None, via))
                    elif f.attr in ("extend", "update", "__iadd__") and len(n.args) == 1 and not n.keywords:
                        out += self.value(fi, n.args[0], nn, via, depth + 1)
                    elif f.attr == "__setitem__" and len(n.args) == 2:
                        out.append(_PairSite(fi, nn, n.args[1], None, via))
                    elif f.attr in _NO_NEW:
                        pass
                    else:
                        raise self.err(fi, n, "changes the list in a shape that is not understood")
                    continue
                # the list handed to a package helper that fills it through its parameter
                hit = [("pos", i) for i, x in enumerate(n.args) if isinstance(x, ast.Name) and x.id == name] + [("kw", k.arg) for k in n.keywords if isinstance(k.value, ast.Name) and k.value.id == name]
                if not hit:
                    continue
                for g in self.a.flow.resolve_callee(fi, n):
                    for p in g.params:
                        b = self.a.flow.bind(g, n, p)
                        if b is not None and b[0] == "arg" and isinstance(b[1], ast.Name) and b[1].id == name:
                            sub = _ListOrigin(self.a)
                            sub.seen = self.seen
                            out += sub.name(g, p, (fi, n, via), depth + 1)
        return out

    def param(self, fi: FuncInfo, pname: str, via, depth: int) -> list[_PairSite]:
        """the list is a parameter: what the callers pass (unless fi was entered through a known call: `via`)."""
        if via is not None:
            return []  # the caller's own additions are collected in the caller
        if fi.fq in self.a.flow.entry_fqs:
            raise AnalysisError(f"C07 range constructor: the list is parameter `{pname}` of the entry point {fi.qualname}")
        cal = self.a.flow.callers(fi)
        if not cal:
            raise AnalysisError(f"C07 range constructor: no caller found for {fi.qualname} whose parameter `{pname}` holds the list")
        out: list[_PairSite] = []
        for f, n, kind in cal:
            b = self.a.flow.bind(fi, n, pname) if kind == "call" else None
            if b is None:
                raise AnalysisError(f"C07 range constructor: cannot bind `{pname}` of {fi.qualname} at `{norm(n)[:60]}`")
            if b[0] == "default":
                out += self.value(fi, b[1], cfg_of(fi).entry, None, depth + 1)
            else:
                out += self.value(f, b[1], cfg_of(f).node_of(n), None, depth + 1)
        return out


class _Ctor:
    """the validating constructor: a raise (in the constructor or in a helper it calls) inside a `for` loop over one of
    the constructor's parameters.  replay(pair) decides whether that raise can be reached for an element about which
    only the given facts are known."""

    def __init__(self, a: A, sim: PathSim, init: FuncInfo, anchors: list[ast.AST], raiser: FuncInfo, raise_stmt: ast.AST):
        self.a, self.sim, self.init, self.anchors, self.raiser, self.raise_stmt = a, sim, init, anchors, raiser, raise_stmt
        self.loops: list[tuple[ast.For, str, ast.AST]] = []  # (loop, list parameter, element target)
        for an in anchors:
            cur = astq.enclosing(an, (ast.For,))
            found = None
            while isinstance(cur, ast.For):
                got = self._iter_param(cur)
                if got is not None:
                    found = (cur, got[0], got[1])
                    break
                cur = astq.enclosing(cur, (ast.For,))
            if found is None:
                raise _NotThisRole()
            self.loops.append(found)
        if len({p for _, p, _ in self.loops}) != 1:
            raise AnalysisError(f"C07 range constructor: the validation loops of {init.qualname} iterate different parameters")
        self.param = self.loops[0][1]

    def _iter_param(self, loop: ast.For) -> tuple[str, ast.AST] | None:
        """(parameter the loop iterates, the part of the loop target that is one element)."""
        it, tg = loop.iter, loop.target
        while isinstance(it, ast.Call) and dotted(it.func) in ("enumerate", "iter", "list", "tuple", "reversed", "sorted") and it.args:
            if dotted(it.func) == "enumerate":
                if not (isinstance(tg, ast.Tuple) and len(tg.elts) == 2):
                    return None
                tg = tg.elts[1]
            it = it.args[0]
        init = self.init
        if isinstance(it, ast.Name) and it.id in init.params and not astq.assigns_to(init.node, it.id):
            return it.id, tg
        if isinstance(it, ast.Name):
            vals = [v for _, v in astq.assigns_to(init.node, it.id)]
            if vals and all(isinstance(v, ast.Name) and v.id in init.params and not astq.assigns_to(init.node, v.id) for v in vals) and len({v.id for v in vals}) == 1:  # type: ignore[union-attr]
                return vals[0].id, tg  # type: ignore[union-attr]
        if init.params and astq.is_self_attr(it, None, init.params[0]):
            srcs = [x.value for x in walk_no_nested(init.node) if isinstance(x, (ast.Assign, ast.AnnAssign)) and getattr(x, "value", None) is not None and any(astq.is_self_attr(tg2, it.attr, init.params[0]) for tg2 in (x.targets if isinstance(x, ast.Assign) else [x.target]))]  # type: ignore[attr-defined]
            if srcs and all(isinstance(v, ast.Name) and v.id in init.params and not astq.assigns_to(init.node, v.id) for v in srcs) and len({v.id for v in srcs}) == 1:  # type: ignore[union-attr]
                return srcs[0].id, tg  # type: ignore[union-attr]
        return None

    def _element_state(self, pair: PS, tg: ast.AST) -> PS:
        """the loop's initial facts: the element target bound to the pair."""
        if isinstance(tg, ast.Name):
            mp = {"$p": tg.id}
        elif isinstance(tg, (ast.Tuple, ast.List)) and all(isinstance(x, ast.Name) for x in tg.elts) and len(tg.elts) == len(pair.tup.get("$p", ())):
            mp = {f"$p#{i}": x.id for i, x in enumerate(tg.elts)}  # type: ignore[attr-defined]
        else:
            raise AnalysisError(f"C07 range constructor: the loop target `{norm(tg)}` of {self.init.qualname} is not understood")

        def ren(v: str) -> str | None:
            if v in mp:
                return mp[v]
            root, sep, rest = v.partition("#")
            if root in mp:
                return mp[root] + sep + rest
            # components of components
            for k, nv in mp.items():
                if v.startswith(k + "#"):
                    return nv + v[len(k):]
            return None

        st = PS()
        st.merge(pair.renamed(ren))
        return st

    def reaches(self, pair: PS) -> bool:
        """can the raise be reached for an element with these facts?"""
        icfg = cfg_of(self.init)
        for an, (loop, _, tg) in zip(self.anchors, self.loops):
            head = icfg.by_ast.get(id(loop), [None])[0]
            goal = icfg.node_of(an)
            if head is None or goal is None:
                raise AnalysisError(f"C07 range constructor: no CFG for the validation loop of {self.init.qualname}")
            hit = []

            def on_goal(n, st: PS, an=an) -> None:
                if self.raiser is self.init:
                    hit.append(st)
                    return
                # the raise sits in a helper called here: enter it with the arguments' facts
                for c in [x for x in [an, *ast.walk(an)] if isinstance(x, ast.Call)]:
                    if self.raiser in self.a.flow.resolve_callee(self.init, c):
                        for hst in _enter(self.a, self.sim, self.init, st.copy(), c, self.raiser):
                            inner = []
                            self.sim.walk(self.raiser, [cfg_of(self.raiser).node_of(self.raise_stmt)], lambda n2, s2: inner.append(s2), init=hst)
                            if inner:
                                hit.append(st)
                                return

            self.sim.walk(self.init, [goal], on_goal, init=self._element_state(pair, tg), starts=icfg.succ(head, "T"), block=[head])
            if hit:
                return True
        return False


class _NotThisRole(Exception):
    pass


def _enter(a: A, sim: PathSim, fi: FuncInfo, st: PS, call: ast.Call, g: FuncInfo) -> list[PS]:
    """the entry states of helper g when called at `call` in state st of fi: its parameters carry the arguments' facts."""
    states = [st]
    amap: dict[str, str] = {}
    ar = g.node.args  # type: ignore[attr-defined]
    pnames = [x.arg for x in ar.posonlyargs + ar.args + ar.kwonlyargs]
    static = any(d.rsplit(".", 1)[-1] == "staticmethod" for d in g.decorators)
    if g.cls is not None and not static and pnames:
        pnames = pnames[1:]
    for p in pnames:
        b = a.flow.bind(g, call, p)
        if b is None:
            continue
        t1 = sim.tmp("e")
        amap[t1] = p
        nxt: list[PS] = []
        for s in states:
            nxt += sim.eval(fi, s, b[1], t1)
        states = nxt

    def ren(v: str) -> str | None:
        root, sep, rest = v.partition("#")
        return amap[root] + sep + rest if root in amap else None

    out = []
    base = sim.entry_state(g)
    # textual atoms of the caller about plain names it passes: the same atoms hold about the parameters
    inv: dict[str, ast.AST] = {}
    for p in pnames:
        b = a.flow.bind(g, call, p)
        if b is not None and b[0] == "arg" and isinstance(b[1], ast.Name) and b[1].id not in inv:
            inv[b[1].id] = ast.Name(p, ast.Load())
    for s in states:
        e0 = base.copy()
        if not e0.merge(s.project(list(amap)).renamed(ren)):
            continue
        for key, (truth, names) in s.gen.items():
            if names and names <= set(inv):
                got = _subst_key(key, {k: inv[k] for k in names})
                if got is not None:
                    e0.gen[got[0]] = (truth == got[1], frozenset(got[2]))
        out.append(e0)
    return out


def _states_at(a: A, sim: PathSim, fi: FuncInfo, node, via) -> list[PS]:
    """the fact sets of all paths that reach `node` of fi (entered from the function's entry, or - for a helper that was
    handed the list - from each state of the calling site)."""
    out: list[PS] = []
    if via is None:
        sim.walk(fi, [node], lambda n, st: out.append(st))
        return out
    cf, call, cvia = via
    for cst in _states_at(a, sim, cf, cfg_of(cf).node_of(call), cvia):
        for e0 in _enter(a, sim, cf, cst, call, fi):
            sim.walk(fi, [node], lambda n, st: out.append(st), init=e0)
    return out


def _find_ctor(a: A, sim: PathSim, s: Site) -> _Ctor | None:
    g = s.func
    if g.name == "__init__" and g.cls is not None:
        try:
            return _Ctor(a, sim, g, [s.node], g, s.node)
        except _NotThisRole:
            return None
    cal = a.flow.callers(g)
    inits = {f.fq: f for f, n, kind in cal if kind == "call" and f.name == "__init__" and f.cls is not None}
    if len(inits) != 1 or any(f.fq not in inits or kind != "call" for f, n, kind in cal):
        return None
    init = next(iter(inits.values()))
    try:
        return _Ctor(a, sim, init, [n for f, n, kind in cal], g, s.node)
    except _NotThisRole:
        return None


def role_range_constructor(a: A, s: Site, e: str) -> Verdict:
    """a raise that validates, element by element, a list handed to a constructor (Range.__init__): excluded when every
    element that can be in the list at each construction satisfies what the validation demands."""
    if s.kind != "raise" or e != "ValueError":
        return None
    sim = a.sim
    sim.steps = 0
    ctor = _find_ctor(a, sim, s)
    if ctor is None:
        return None
    init = ctor.init
    cal = a.flow.callers(init)
    if not cal:
        return None
    sites: list[_PairSite] = []
    org = _ListOrigin(a)
    for f, n, kind in cal:
        b = a.flow.bind(init, n, ctor.param) if kind == "call" else None
        if b is None:
            raise AnalysisError(f"C07 range constructor: cannot tell which list `{norm(n)[:60]}` in {f.qualname} hands to {init.qualname}")
        where = cfg_of(f).node_of(n) if b[0] == "arg" else cfg_of(init).entry
        sites += org.value(f if b[0] == "arg" else init, b[1], where, None)
    uniq: dict[tuple, _PairSite] = {}
    for ps in sites:
        uniq.setdefault((ps.fi.fq, id(ps.expr), id(ps.via[1]) if ps.via else 0), ps)
    nstates = 0
    for ps in uniq.values():
        if ps.node is None:
            raise AnalysisError(f"C07 range constructor: no CFG node for `{norm(ps.expr)[:60]}` in {ps.fi.qualname}")
        for st in _states_at(a, sim, ps.fi, ps.node, ps.via):
            states = [st]
            if ps.comp is not None:
                for gen in ps.comp.generators:  # type: ignore[attr-defined]
                    for x in ast.walk(gen.target):
                        if isinstance(x, ast.Name):
                            for s_ in states:
                                s_.unknown(x.id, opaque=True)
                    for cond in gen.ifs:
                        states = [s2 for s_ in states for s2 in sim.assume(ps.fi, s_, cond, True)]
            for st1 in states:
                for st2 in sim.eval(ps.fi, st1, ps.expr, "$p"):
                    nstates += 1
                    comps = st2.tup.get("$p")
                    txt = f"`{norm(ps.expr)[:60]}` in {ps.fi.qualname}"
                    if st2.null.get("$p") is True:
                        return False, f"{txt} can put None into the list handed to {init.qualname}"
                    if comps is None:
                        raise AnalysisError(f"C07 range constructor: the element {txt} is not a tuple that is understood")
                    pair = st2.project(["$p"])
                    if ctor.reaches(pair):
                        if any(c in st2.opq for c in st2.closure_of(["$p"])):
                            raise AnalysisError(f"C07 range constructor: the element {txt} has a component whose origin is not modelled ({pair.describe(comps)})")
                        return False, f"a path of {ps.fi.qualname} reaches {txt} knowing only [{pair.describe(comps)}], which does not exclude the constructor's raise"
    return True, f"{len(uniq)} place(s) put an element into the list handed to {init.qualname} ({', '.join(sorted({norm(p.expr)[:40] for p in uniq.values()}))}); on each of the {nstates} path state(s) reaching them the facts about the element (nullness, int, difference bounds after the last rebinding) make the constructor's raise unreachable when its validation is replayed"


def role_validated_constructor(a: A, s: Site, e: str) -> Verdict:
    """assert <pred>(params...) in a method reached from a constructor call that sits under the same predicate."""
    if s.kind != "assert" or e != "AssertionError" or s.func.cls is None:
        return None
    test = s.node.test  # type: ignore[attr-defined]
    if not (isinstance(test, ast.Call) and all(isinstance(x, ast.Name) and x.id in s.func.params for x in test.args) and not test.keywords and dotted(test.func)):
        return None
    pred = dotted(test.func).rsplit(".", 1)[-1]  # type: ignore[union-attr]
    pnames = [x.id for x in test.args]  # type: ignore[union-attr]
    facts = []
    ok = True
    work = [(s.func, pnames, 0)]
    tops = 0
    while work:
        g, names, depth = work.pop()
        cal = a.flow.callers(g)
        if not cal:
            return None
        for f, n, kind in cal:
            if kind != "call":
                return None
            args = []
            for p in names:
                b = a.flow.bind(g, n, p)
                if b is None:
                    return None
                args.append(b[1])
            if f.cls is g.cls and f.name == "__init__" and all(isinstance(x, ast.Name) and x.id in f.params for x in args) and depth < 2:
                work.append((f, [x.id for x in args], depth + 1))  # type: ignore[union-attr]
                continue
            tops += 1
            nn = cfg_of(f).node_of(n)
            want = [norm(x) for x in args]
            save_sa = a.flow.site_ast
            a.flow.site_ast = n  # the conditional expressions the construction sits in count as guards
            try:
                hit = a.flow.holds(f, nn, lambda at: at.op == "truthy" and at.truth and isinstance(at.a, ast.Call) and (dotted(at.a.func) or "").rsplit(".", 1)[-1] == pred and [norm(x) for x in at.a.args] == want and not at.a.keywords)
            finally:
                a.flow.site_ast = save_sa
            facts.append(f"{f.qualname}: `{norm(n)[:60]}` under {pred}({', '.join(want)}): {hit is not None}")
            ok = ok and hit is not None
    if not tops:
        return None
    return ok, "every construction on the request path sits under the same predicate: " + "; ".join(facts)


ROLES: list[tuple[str, t.Callable[[A, Site, str], Verdict]]] = [
    ("input-model latin-1 text", role_latin1_input),
    ("application flag", role_shallow_flag),
    ("abstract method", role_abstract_method),
    ("application's own value", role_application_value),
    ("accept pair", role_accept_pair),
    ("fallback search", role_fallback_search),
    ("regex-matched number", role_regex_number),
    ("octal escape", role_octal_escape),
    ("ascii bytes", role_ascii_decode),
    ("range constructor", role_range_constructor),
    ("validated constructor", role_validated_constructor),
]


def review(a: A, s: Site, e: str) -> tuple[str, bool, str] | None:
    for name, fn in ROLES:
        v = fn(a, s, e)
        if v is not None:
            return name, v[0], v[1]
    return None


# ---------------------------------------------------------------------
# form parser silent mode (not a site role: it makes a re-raise dead)


# -- what a call hands to the `silent` parameter: explicit keyword, position, or a key of a `**mapping` whose keys fold


_DICT_NO_NEW = {"pop", "popitem", "get", "items", "keys", "values", "copy", "clear", "__contains__", "__len__", "__getitem__", "__iter__"}


def _str_consts(folder, f: FuncInfo, e: ast.AST | None, depth: int = 0) -> list[str] | None:
    """the texts a constant collection holds: a tuple / list / set display of constants, a dict display (its keys), a
    module constant, a local bound once to one of those, sorted() / tuple() / ... / .keys() / + around them."""
    if e is None or depth > 6:
        return None
    if isinstance(e, (ast.Tuple, ast.List, ast.Set)):
        out: list[str] = []
        for x in e.elts:
            if isinstance(x, ast.Starred):
                sub = _str_consts(folder, f, x.value, depth + 1)
                if sub is None:
                    return None
                out += sub
            else:
                vs = _str_values(folder, f, x, depth + 1)
                if vs is None:
                    return None
                out += vs
        return out
    if isinstance(e, ast.Dict):
        if any(k is None for k in e.keys):
            return None
        return _str_consts(folder, f, ast.Tuple(elts=list(e.keys), ctx=ast.Load()), depth + 1)
    if isinstance(e, ast.Constant):
        return None  # a text is not a collection of names
    if isinstance(e, ast.BinOp) and isinstance(e.op, (ast.Add, ast.BitOr)):
        l, r = _str_consts(folder, f, e.left, depth + 1), _str_consts(folder, f, e.right, depth + 1)
        return None if l is None or r is None else l + r
    if isinstance(e, ast.Call):
        d = dotted(e.func)
        if d in ("sorted", "list", "tuple", "reversed", "set", "frozenset", "iter") and len(e.args) == 1:
            return _str_consts(folder, f, e.args[0], depth + 1)
        if isinstance(e.func, ast.Attribute) and e.func.attr == "keys" and not e.args:
            return _str_consts(folder, f, e.func.value, depth + 1)
        if d in ("dict", "dict.fromkeys"):
            tbl = _kw_table(folder, f, e, depth + 1)
            return None if tbl is None else list(tbl)
        return None
    if isinstance(e, ast.DictComp):
        tbl = _kw_table(folder, f, e, depth + 1)
        return None if tbl is None else list(tbl)
    if isinstance(e, ast.Name):
        binds = astq.assigns_to(f.node, e.id)
        if e.id in f.params:
            return None
        if binds:
            if len(binds) != 1 or binds[0][1] is None or isinstance(binds[0][0], (ast.For, ast.AsyncFor)):
                return None
            if any(isinstance(c.func, ast.Attribute) and isinstance(c.func.value, ast.Name) and c.func.value.id == e.id and c.func.attr not in _NO_NEW | _DICT_NO_NEW for c in astq.calls(f.node, nested=False)):
                return None  # the local collection is changed after it was bound
            out = _str_consts(folder, f, binds[0][1], depth + 1)
            if out is None:
                return None
            # item stores into the local: a key that iterates the local itself adds nothing, other keys must fold
            for n in walk_no_nested(f.node):
                if isinstance(n, (ast.Assign, ast.AugAssign, ast.AnnAssign)):
                    for tg in (n.targets if isinstance(n, ast.Assign) else [n.target]):
                        for x in [tg, *ast.walk(tg)]:
                            if isinstance(x, ast.Subscript) and isinstance(x.value, ast.Name) and x.value.id == e.id and isinstance(x.ctx, ast.Store):
                                if _iterates(x.slice, e.id):
                                    continue
                                vs = _str_values(folder, f, x.slice, depth + 1)
                                if vs is None:
                                    return None
                                out = out + vs
            return out
    d = dotted(e)
    if d:
        try:
            v = folder.name(f.module, d)
        except Exception:
            return None
        if isinstance(v, (tuple, list, set, frozenset, dict)) and all(isinstance(x, str) for x in v):
            return sorted(v) if isinstance(v, (set, frozenset)) else list(v)
    return None


def _iterates(key: ast.AST, coll: str) -> bool:
    """`key` is the plain variable of an enclosing for loop over the local collection `coll` itself."""
    if not isinstance(key, ast.Name):
        return False
    cur = getattr(key, "_parent", None)
    while cur is not None:
        if isinstance(cur, (ast.For, ast.AsyncFor)) and isinstance(cur.target, ast.Name) and cur.target.id == key.id:
            it = cur.iter
            while isinstance(it, ast.Call) and ((dotted(it.func) in ("list", "tuple", "sorted", "iter") and len(it.args) == 1) or (isinstance(it.func, ast.Attribute) and it.func.attr == "keys" and not it.args)):
                it = it.args[0] if it.args else it.func.value  # type: ignore[union-attr]
            return isinstance(it, ast.Name) and it.id == coll
        cur = getattr(cur, "_parent", None)
    return False


def _str_values(folder, f: FuncInfo, e: ast.AST, depth: int = 0) -> list[str] | None:
    """the texts a key expression can be: a constant, a module constant, the variable of an enclosing for loop /
    comprehension over a constant collection (also one component of constant tuples), a local bound to constants."""
    if depth > 6:
        return None
    if isinstance(e, ast.Constant):
        return [e.value] if isinstance(e.value, str) else None
    if isinstance(e, ast.IfExp):
        l, r = _str_values(folder, f, e.body, depth + 1), _str_values(folder, f, e.orelse, depth + 1)
        return None if l is None or r is None else l + r
    if isinstance(e, ast.Name):
        cur = getattr(e, "_parent", None)
        while cur is not None and cur is not f.node:
            gens = []
            if isinstance(cur, (ast.For, ast.AsyncFor)):
                gens = [(cur.target, cur.iter)]
            elif isinstance(cur, (ast.ListComp, ast.SetComp, ast.GeneratorExp, ast.DictComp)):
                gens = [(g.target, g.iter) for g in cur.generators]
            for tg, it in gens:
                got = _target_values(folder, f, tg, it, e.id, depth)
                if got is not False:
                    return got
            cur = getattr(cur, "_parent", None)
        binds = astq.assigns_to(f.node, e.id)
        if binds and e.id not in f.params:
            out: list[str] = []
            for _, v in binds:
                vs = _str_values(folder, f, v, depth + 1) if v is not None and not isinstance(v, ast.Name) else None
                if vs is None:
                    return None
                out += vs
            return out
    d = dotted(e)
    if d and not (isinstance(e, ast.Name) and e.id in f.params):
        try:
            v = folder.name(f.module, d)
        except Exception:
            return None
        return [v] if isinstance(v, str) else None
    return None


def _target_values(folder, f: FuncInfo, tg: ast.AST, it: ast.AST, name: str, depth: int):
    """the loop / comprehension binds `name`: its values (None = not constant); False = this loop does not bind it."""
    if isinstance(tg, ast.Name):
        if tg.id != name:
            return False
        return _str_consts(folder, f, it, depth + 1)
    if not any(isinstance(x, ast.Name) and x.id == name for x in ast.walk(tg)):
        return False
    if isinstance(tg, (ast.Tuple, ast.List)) and not any(isinstance(x, ast.Starred) for x in tg.elts):
        idx = next((i for i, x in enumerate(tg.elts) if isinstance(x, ast.Name) and x.id == name), None)
        if idx is None:
            return None
        # enumerate(K) / zip(K, ...) / K.items() of a dict display / a display of constant tuples
        if isinstance(it, ast.Call) and dotted(it.func) == "enumerate" and idx == 1 and it.args:
            return _str_consts(folder, f, it.args[0], depth + 1)
        if isinstance(it, ast.Call) and dotted(it.func) == "zip" and idx < len(it.args) and not any(isinstance(x, ast.Starred) for x in it.args):
            return _str_consts(folder, f, it.args[idx], depth + 1)
        if isinstance(it, ast.Call) and isinstance(it.func, ast.Attribute) and it.func.attr == "items" and not it.args and idx == 0:
            return _str_consts(folder, f, it.func.value, depth + 1)
        src = it
        if isinstance(src, ast.Name) and src.id not in f.params:
            binds = astq.assigns_to(f.node, src.id)
            if len(binds) == 1 and binds[0][1] is not None:
                src = binds[0][1]
        if isinstance(src, (ast.Tuple, ast.List, ast.Set)):
            out: list[str] = []
            for x in src.elts:
                if not (isinstance(x, (ast.Tuple, ast.List)) and len(x.elts) == len(tg.elts)):
                    return None
                vs = _str_values(folder, f, x.elts[idx], depth + 1)
                if vs is None:
                    return None
                out += vs
            return out
    return None


def _kw_table(folder, f: FuncInfo, e: ast.AST | None, depth: int = 0) -> dict[str, list[ast.AST | None]] | None:
    """keys -> value expressions (None: some value) a mapping expression can hold; None when the keys do not fold.
    Dict displays and comprehensions, dict(...) of keywords / pairs / zip / another mapping, fromkeys, `|`, copies,
    conditional expressions, and a local dict with every store into it anywhere in the function (item assignment with a
    constant key or a loop variable over a constant collection, update, setdefault, |=)."""
    if e is None or depth > 6:
        return None
    tbl: dict[str, list[ast.AST | None]] = {}

    def put(keys: list[str] | None, val: ast.AST | None) -> bool:
        if keys is None:
            return False
        for k in keys:
            tbl.setdefault(k, []).append(val)
        return True

    def join(other: dict[str, list[ast.AST | None]] | None) -> bool:
        if other is None:
            return False
        for k, vs in other.items():
            tbl.setdefault(k, []).extend(vs)
        return True

    def pairs(x: ast.AST) -> bool:
        """an iterable of (key, value) pairs, or a mapping."""
        if isinstance(x, ast.Call) and dotted(x.func) == "zip" and len(x.args) == 2:
            return put(_str_consts(folder, f, x.args[0], depth + 1), None)
        if isinstance(x, (ast.List, ast.Tuple, ast.Set)):
            for el in x.elts:
                if not (isinstance(el, (ast.Tuple, ast.List)) and len(el.elts) == 2 and put(_str_values(folder, f, el.elts[0], depth + 1), el.elts[1])):
                    return False
            return True
        if isinstance(x, (ast.ListComp, ast.GeneratorExp, ast.SetComp)) and isinstance(x.elt, (ast.Tuple, ast.List)) and len(x.elt.elts) == 2:
            return put(_str_values(folder, f, x.elt.elts[0], depth + 1), x.elt.elts[1])
        if isinstance(x, ast.Call) and isinstance(x.func, ast.Attribute) and x.func.attr == "items" and not x.args:
            return join(_kw_table(folder, f, x.func.value, depth + 1))
        return join(_kw_table(folder, f, x, depth + 1))

    def call_into(c: ast.Call) -> bool:
        """dict(...) / <dict>.update(...): positional mapping or pairs, then keywords."""
        if len(c.args) > 1 or any(isinstance(x, ast.Starred) for x in c.args):
            return False
        if c.args and not pairs(c.args[0]):
            return False
        for kw in c.keywords:
            if kw.arg is None:
                if not join(_kw_table(folder, f, kw.value, depth + 1)):
                    return False
            else:
                put([kw.arg], kw.value)
        return True

    if isinstance(e, ast.NamedExpr):
        return _kw_table(folder, f, e.value, depth + 1)
    if isinstance(e, ast.Dict):
        for k, v in zip(e.keys, e.values):
            if k is None:
                if not join(_kw_table(folder, f, v, depth + 1)):
                    return None
            elif not put(_str_values(folder, f, k, depth + 1), v):
                return None
        return tbl
    if isinstance(e, ast.DictComp):
        return tbl if put(_str_values(folder, f, e.key, depth + 1), e.value) else None
    if isinstance(e, ast.IfExp):
        return tbl if join(_kw_table(folder, f, e.body, depth + 1)) and join(_kw_table(folder, f, e.orelse, depth + 1)) else None
    if isinstance(e, ast.BoolOp):
        return tbl if all(join(_kw_table(folder, f, v, depth + 1)) for v in e.values) else None
    if isinstance(e, ast.BinOp) and isinstance(e.op, ast.BitOr):
        return tbl if join(_kw_table(folder, f, e.left, depth + 1)) and join(_kw_table(folder, f, e.right, depth + 1)) else None
    if isinstance(e, ast.Call):
        d = dotted(e.func)
        if d == "dict":
            return tbl if call_into(e) else None
        if d == "dict.fromkeys" and e.args:
            return tbl if put(_str_consts(folder, f, e.args[0], depth + 1), e.args[1] if len(e.args) > 1 else ast.Constant(None)) else None
        if d is not None and d.rsplit(".", 1)[-1] == "cast" and len(e.args) == 2:
            return _kw_table(folder, f, e.args[1], depth + 1)
        if isinstance(e.func, ast.Attribute) and e.func.attr == "copy" and not e.args:
            return _kw_table(folder, f, e.func.value, depth + 1)
        # a private helper that builds the mapping: self.<method>(...) / a function of the same module
        g = None
        if isinstance(e.func, ast.Attribute) and isinstance(e.func.value, ast.Name) and f.cls is not None and f.params and e.func.value.id == f.params[0]:
            _, w = folder.repo.lookup(f.cls, e.func.attr)
            g = w if isinstance(w, FuncInfo) else None
        elif isinstance(e.func, ast.Name) and e.func.id not in f.params and not astq.assigns_to(f.node, e.func.id):
            fq = folder.repo.resolve(f.module, e.func.id, f.module.local_imports(f.node))
            try:
                g = folder.repo.func(fq.removeprefix("werkzeug.")) if fq and fq.startswith("werkzeug.") else None
            except Exception:
                g = None
        if g is not None and g is not f and not any(isinstance(x, (ast.Yield, ast.YieldFrom)) for x in walk_no_nested(g.node)):
            rets = astq.returns_of(g.node)
            if rets and all(r.value is not None and join(_kw_table(folder, g, r.value, depth + 2)) for r in rets):
                return tbl
        return None
    if isinstance(e, ast.Name):
        name = e.id
        if name in f.params:
            return None
        binds = astq.assigns_to(f.node, name)
        if not binds:
            try:
                v = folder.name(f.module, name)
            except Exception:
                return None
            if isinstance(v, dict) and all(isinstance(k, str) for k in v):
                put(list(v), None)
                return tbl
            return None
        for stmt, v in binds:
            if isinstance(stmt, ast.AugAssign) and isinstance(stmt.op, ast.BitOr):
                if not join(_kw_table(folder, f, stmt.value, depth + 1)):
                    return None
            elif v is None or not join(_kw_table(folder, f, v, depth + 1)):
                return None
        for n in walk_no_nested(f.node):
            if isinstance(n, (ast.Assign, ast.AugAssign, ast.AnnAssign)):
                tgs = n.targets if isinstance(n, ast.Assign) else [n.target]
                for tg in tgs:
                    if isinstance(tg, ast.Subscript) and isinstance(tg.value, ast.Name) and tg.value.id == name:
                        if _iterates(tg.slice, name):
                            for k in tbl:
                                tbl[k].append(n.value if isinstance(n, ast.Assign) else None)  # re-stores under the keys it has
                        elif not put(_str_values(folder, f, tg.slice, depth + 1), n.value if isinstance(n, ast.Assign) else None):
                            return None
                    elif isinstance(tg, (ast.Tuple, ast.List)) and any(isinstance(x, ast.Subscript) and isinstance(x.value, ast.Name) and x.value.id == name for x in ast.walk(tg)):
                        return None
            elif isinstance(n, ast.Call):
                fn = n.func
                if isinstance(fn, ast.Attribute) and isinstance(fn.value, ast.Name) and fn.value.id == name:
                    if fn.attr == "update":
                        if not call_into(n):
                            return None
                    elif fn.attr in ("setdefault", "__setitem__") and len(n.args) == 2:
                        if not put(_str_values(folder, f, n.args[0], depth + 1), n.args[1]):
                            return None
                    elif fn.attr not in _DICT_NO_NEW:
                        return None
                elif any(isinstance(x, ast.Name) and x.id == name for x in n.args) or any(kw.arg is not None and isinstance(kw.value, ast.Name) and kw.value.id == name for kw in n.keywords):
                    if dotted(fn) not in ("dict", "len", "sorted", "list", "tuple", "bool", "repr", "str", "print", "isinstance"):
                        return None  # handed to code that may store into it
        return tbl
    return None


def _is_true(e: ast.AST | None) -> bool:
    return isinstance(e, ast.Constant) and e.value is True


def _silent_argument(repo, folder, mk: FuncInfo, init: FuncInfo) -> tuple[bool, str]:
    """does the construction of the form parser in `mk` (or in a private helper it calls on self) hand anything but the
    constant True to the parser's `silent` parameter?  Keyword, position, or a key of a `**mapping`: the mapping's keys
    are folded; keys that do not fold are ANALYSIS-ERROR (the argument may or may not be there)."""
    a_ = init.node.args  # type: ignore[attr-defined]
    pos = [x.arg for x in a_.posonlyargs + a_.args][1:]
    spos = pos.index("silent") if "silent" in pos else None
    funcs = [mk]
    if mk.cls is not None and mk.params:
        work = [mk]
        while work:
            g = work.pop()
            for c in astq.calls(g.node, nested=False):
                if isinstance(c.func, ast.Attribute) and isinstance(c.func.value, ast.Name) and g.params and c.func.value.id == g.params[0]:
                    _, w = repo.lookup(mk.cls, c.func.attr)
                    if isinstance(w, FuncInfo) and w not in funcs and w.fq.startswith("werkzeug.") and len(funcs) < 8:
                        funcs.append(w)
                        work.append(w)
    passed: list[str] = []
    seen: list[str] = []
    for g in funcs:
        for c in astq.calls(g.node):
            for kw in c.keywords:
                if kw.arg == "silent":
                    seen.append(f"keyword silent={norm(kw.value)[:30]} in {g.name}")
                    if not _is_true(kw.value):
                        passed.append(f"silent={norm(kw.value)[:30]}")
                elif kw.arg is None:
                    tbl = _kw_table(folder, g, kw.value)
                    if tbl is None:
                        raise AnalysisError(f"C07 form parser silent mode: {g.qualname}: the keys of `**{norm(kw.value)[:40]}` in `{norm(c)[:60]}` do not fold to constants: whether `silent` is passed is not known")
                    seen.append(f"**{norm(kw.value)[:30]} in {g.name} has the keys {sorted(tbl)}")
                    for v in tbl.get("silent", []):
                        if not _is_true(v):
                            passed.append(f"**{norm(kw.value)[:30]} may carry silent={norm(v)[:30] if v is not None else '?'}")
            # positional: only for a call of the parser class itself
            if spos is not None and _constructs_parser(repo, g, c, init):
                if any(isinstance(x, ast.Starred) for x in c.args):
                    raise AnalysisError(f"C07 form parser silent mode: {g.qualname}: `{norm(c)[:60]}` passes starred positional arguments to the form parser")
                if len(c.args) > spos:
                    seen.append(f"positional silent={norm(c.args[spos])[:30]} in {g.name}")
                    if not _is_true(c.args[spos]):
                        passed.append(f"positional silent={norm(c.args[spos])[:30]}")
    return bool(passed), "; ".join(passed or seen or ["no call passes it"])


def _constructs_parser(repo, g: FuncInfo, c: ast.Call, init: FuncInfo) -> bool:
    """the callee is the form parser class: <x>.form_data_parser_class, a local bound to that, or a name that resolves
    to the class (or a subclass) whose __init__ this is."""
    fn = c.func

    def is_cls_attr(x: ast.AST | None) -> bool:
        return isinstance(x, ast.Attribute) and x.attr == "form_data_parser_class"

    if is_cls_attr(fn):
        return True
    if isinstance(fn, ast.Name):
        vals = [v for _, v in astq.assigns_to(g.node, fn.id)]
        if vals and all(is_cls_attr(v) for v in vals):
            return True
    d = dotted(fn)
    if d and init.cls is not None:
        fq = repo.resolve(g.module, d, g.module.local_imports(g.node))
        k = repo.try_cls(fq) if fq else None
        if k is not None and any(getattr(b, "fq", None) == init.cls.fq for b in repo.mro(k)):
            return True
    return False



def _means_falsy(test: ast.AST, label: str, attr_txt: str) -> bool:
    """the (test, edge) says that <attr> is false: `not self.silent`, `self.silent is False`, `self.silent == False`,
    `self.silent is not True` ... in any polarity."""
    k, pol = canon(test)
    val = (label == "T") == pol
    if k == attr_txt:
        return not val
    for const, means_false_when in (("False", True), ("True", False)):
        if k in (f"{attr_txt} is {const}", f"{const} is {attr_txt}", " == ".join(sorted([attr_txt, const]))):
            return val == means_false_when
    return False


def _silent_stored(init: FuncInfo) -> bool:
    """every store into <self>.silent in the constructor keeps the parameter's value: the parameter itself, through a
    local copy, bool(silent), or the constant True (then the mode is always silent); plain and tuple assignment.  A
    constant False / `not silent` is a false premise; any other shape is ANALYSIS-ERROR."""
    sn = init.params[0]
    vals: list[ast.AST | None] = []
    for s_ in walk_no_nested(init.node):
        if isinstance(s_, (ast.Assign, ast.AnnAssign)) and getattr(s_, "value", None) is not None:
            for tg in (s_.targets if isinstance(s_, ast.Assign) else [s_.target]):
                if astq.is_self_attr(tg, "silent", sn):
                    vals.append(s_.value)
                elif isinstance(tg, (ast.Tuple, ast.List)) and any(astq.is_self_attr(x, "silent", sn) for x in ast.walk(tg)):
                    i = next((i for i, x in enumerate(tg.elts) if astq.is_self_attr(x, "silent", sn)), None)
                    v = s_.value
                    ok_shape = i is not None and isinstance(v, (ast.Tuple, ast.List)) and len(v.elts) == len(tg.elts) and not any(isinstance(x, ast.Starred) for x in [*v.elts, *tg.elts])
                    vals.append(v.elts[i] if ok_shape else None)  # type: ignore[union-attr,index]
        elif isinstance(s_, ast.AugAssign) and astq.is_self_attr(s_.target, "silent", sn):
            vals.append(None)
        elif isinstance(s_, ast.Call) and dotted(s_.func) == "setattr" and len(s_.args) == 3 and astq.const_str(s_.args[1]) == "silent":
            vals.append(s_.args[2])
    if not vals:
        return False

    def keeps(v: ast.AST | None, depth: int = 0) -> bool | None:
        if v is None or depth > 3:
            return None
        if isinstance(v, ast.Constant):
            return True if v.value is True else False
        if isinstance(v, ast.UnaryOp) and isinstance(v.op, ast.Not):
            return False if keeps(v.operand, depth + 1) is True else None
        if isinstance(v, ast.Call) and dotted(v.func) == "bool" and len(v.args) == 1 and not v.keywords:
            return keeps(v.args[0], depth + 1)
        if isinstance(v, ast.Name):
            binds = astq.assigns_to(init.node, v.id)
            if v.id == "silent" and not binds:
                return True
            if binds and v.id not in init.params and all(b is not None for _, b in binds):
                got = [keeps(b, depth + 1) for _, b in binds]
                return True if all(g is True for g in got) else (False if any(g is False for g in got) else None)
        return None

    got = [keeps(v) for v in vals]
    if any(g is False for g in got):
        return False
    if any(g is None for g in got):
        raise AnalysisError(f"C07 form parser silent mode: {init.qualname} stores `{sn}.silent` in a shape that is not understood ({[norm(v)[:40] if v is not None else '?' for v in vals]})")
    return True


def p_form_parser_silent(ctx, folder):
    """(ok, dead re-raise statements, why): every bare `raise` in the ValueError handler of FormDataParser.parse runs only
    when self.silent is false, and silent is True on the request path."""
    from ..dataflow import ReachingDefs
    from ..guards import Aliases

    f = ctx.repo.func("formparser.FormDataParser.parse")
    cfg = cfg_of(f)
    al = Aliases(cfg, ReachingDefs(cfg, f.params))
    sn = f.params[0]
    attr_txt = f"{sn}.silent"
    dead: list[ast.AST] = []
    ok_h = False
    nh = 0
    for t_ in [n for n in walk_no_nested(f.node) if isinstance(n, ast.Try)]:
        for h in t_.handlers:
            types = [dotted(x) or "" for x in (h.type.elts if isinstance(h.type, ast.Tuple) else [h.type])] if h.type is not None else ["BaseException"]
            if not any(tn.rsplit(".", 1)[-1] in ("ValueError", "Exception", "BaseException") for tn in types):
                continue
            nh += 1
            inner = {id(x) for st_ in h.body for x in [st_, *ast.walk(st_)]}
            rer = [x for st_ in h.body for x in [st_, *walk_no_nested(st_)] if isinstance(x, ast.Raise)]
            good = True
            for x in rer:
                if x.exc is not None:
                    good = False  # raises something explicitly: an ordinary raising site, not a re-raise
                    continue
                node = cfg.node_of(x)
                under = False
                for tn, label in (cfg.guards(node) if node is not None else []):
                    if tn.kind != "test" or id(tn.ast) not in inner:
                        continue
                    forms = [tn.ast]
                    try:
                        forms.append(al.expand(tn.ast, tn))
                    except Exception:
                        pass
                    if any(_means_falsy(e, label, attr_txt) for e in forms):
                        under = True
                if under:
                    dead.append(x)
                else:
                    good = False
            ok_h = good
    if nh != 1:
        ok_h = False
    init = ctx.repo.func("formparser.FormDataParser.__init__")
    a = init.node.args
    names = [x.arg for x in a.args]
    dflt = None
    if "silent" in names:
        i = names.index("silent") - (len(names) - len(a.defaults))
        dflt = norm(a.defaults[i]) if i >= 0 else None
    kwo = [x.arg for x in a.kwonlyargs]
    if "silent" in kwo and a.kw_defaults[kwo.index("silent")] is not None:
        dflt = norm(a.kw_defaults[kwo.index("silent")])
    stored = _silent_stored(init)
    mk = ctx.repo.func("wrappers.request.Request.make_form_data_parser")
    passes, how_built = _silent_argument(ctx.repo, folder, mk, init)
    writes = [fn.fq for fn in ctx.repo.all_functions() if fn.fq != init.fq and any(isinstance(s_, (ast.Assign, ast.AugAssign, ast.AnnAssign)) and any(isinstance(t2, ast.Attribute) and t2.attr == "silent" for t2 in (s_.targets if isinstance(s_, ast.Assign) else [s_.target])) for s_ in ast.walk(fn.node))]
    ok = ok_h and dflt == "True" and stored and not passes and not writes
    return ok, (dead if ok else []), f"handler re-raises only when self.silent is false: {ok_h}; default silent={dflt}; stored: {stored}; Request.make_form_data_parser passes silent: {passes} [{how_built}]; other writers of .silent: {writes}"
