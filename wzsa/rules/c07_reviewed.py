"""C07 reviewed table: raising sites that neither a handler nor a guard idiom discharges, each read once.

An entry names the function, a substring of the normalised expression, the modelled exception, a one-line reason,
and - where the reason depends on other code - a *premise* that is re-checked structurally on every run (a premise
that no longer holds turns the entry into a violation at the raising site).
"""

from __future__ import annotations

import ast
import re

from .. import astq
from ..cfg import cfg_of
from ..fold import RegexConst, classes_in, group_width, width
from ..loader import dotted, norm

REVIEWED: list[dict] = [
    # -- input model: environ text is latin-1 -------------------------------------------------------------------
    {"func": "http.parse_cookie", "expr": "cookie.encode('latin1')", "exc": "UnicodeEncodeError", "reason": "receiver is environ / header text, latin-1 by the WSGI contract (input model)"},
    {"func": "_internal._wsgi_decoding_dance", "expr": ".encode('latin1')", "exc": "UnicodeEncodeError", "reason": "receiver is environ text, latin-1 by the WSGI contract (input model)"},
    {"func": "wrappers.request.Request.__init__", "expr": ".encode('latin1')", "exc": "UnicodeEncodeError", "reason": "QUERY_STRING is environ text, latin-1 by the WSGI contract (input model)"},
    {"func": "wsgi.get_current_url", "expr": ".encode('latin1')", "exc": "UnicodeEncodeError", "reason": "environ text, latin-1 by the WSGI contract (input model)"},
    {"func": "wsgi.get_path_info", "expr": ".encode('latin1')", "exc": "UnicodeEncodeError", "reason": "environ text, latin-1 by the WSGI contract (input model)"},
    # -- server / application controlled -------------------------------------------------------------------------
    {"func": "sansio.utils.get_host", "expr": "server[0]", "exc": "IndexError", "reason": "`server` is the (SERVER_NAME, SERVER_PORT) pair built by the wrapper, server-controlled (input model)"},
    {"func": "sansio.utils.get_host", "expr": "server[1]", "exc": "IndexError", "reason": "`server` is the (SERVER_NAME, SERVER_PORT) pair built by the wrapper, server-controlled (input model)"},
    {"func": "sansio.utils.get_host", "expr": "host[0]", "exc": "IndexError", "reason": "evaluated only after `':' in host`, so host is non-empty", "premise": "get_host_colon_guard"},
    {"func": "wrappers.request.Request.stream", "expr": "raise RuntimeError", "exc": "RuntimeError", "reason": "raised only for a request the application created with shallow=True (application configuration, not client input)", "premise": "stream_shallow_guard"},
    {"func": "datastructures.accept.MIMEAccept._value_matches", "expr": "raise ValueError(f'invalid mimetype", "exc": "ValueError", "reason": "`value` is the application's own offer / query, never client text: the client item without '/' returns False first", "premise": "mime_item_checked_first"},
    {"func": "_internal._DictAccessorProperty.lookup", "expr": "raise NotImplementedError", "exc": "NotImplementedError", "reason": "abstract: header_property and environ_property both override lookup", "premise": "lookup_overridden"},
    # -- shape invariants of lists built by the parsers ------------------------------------------------------------
    {"func": "datastructures.accept.Accept.best", "expr": "self[0][0]", "exc": "IndexError", "reason": "elements of an Accept list are (value, quality) pairs by construction (parse_accept_header appends 2-tuples; Accept.__init__ sorts pairs)"},
    {"func": "datastructures.accept.LanguageAccept.best_match", "expr": "item[0]", "exc": "IndexError", "reason": "iterating self: (value, quality) pairs by construction"},
    {"func": "datastructures.accept.LanguageAccept.best_match", "expr": "item[1]", "exc": "IndexError", "reason": "iterating self: (value, quality) pairs by construction"},
    {"func": "datastructures.accept.LanguageAccept.best_match", "expr": "next(", "exc": "StopIteration", "reason": "`result` is the primary tag split off one of `matches` by the same split, so at least one offer has that primary tag", "premise": "language_fallback_same_split"},
    # -- regex-width / regex-language arguments ---------------------------------------------------------------------
    {"func": "http.parse_options_header", "expr": "pk[-1]", "exc": "IndexError", "reason": "pk is group 1 of the key regex, which needs at least one character", "premise": "param_key_min1"},
    {"func": "http.parse_options_header", "expr": "pv[0]", "exc": "IndexError", "reason": "pv is a token (class+), a quoted string of >= 2 characters, or the non-empty group 2 of the charset regex (unquote of a non-empty string is non-empty)", "premise": "param_value_min1"},
    {"func": "http.parse_options_header", "expr": "pv[-1]", "exc": "IndexError", "reason": "same as pv[0]", "premise": "param_value_min1"},
    {"func": "http.dump_options_header", "expr": "key[-1]", "exc": "IndexError", "reason": "on the request path the options come from parse_options_header, which never stores an empty key", "premise": "options_key_nonempty"},
    {"func": "http.dump_header", "expr": "key[-1]", "exc": "IndexError", "reason": "keys come from parse_dict_header / parse_options_header, which skip empty keys", "premise": "options_key_nonempty"},
    {"func": "http.parse_accept_header", "expr": "float(q_str)", "exc": "ValueError", "reason": "dominated by a full match of the q regex, whose language is ASCII decimals", "premise": "q_regex_decimal"},
    {"func": "http.parse_csp_header", "expr": "directive, value = policy.strip().split(' ', 1)", "exc": "ValueError", "reason": "dominated by `' ' in policy` on the already stripped policy (strip is idempotent, an inner space survives)", "premise": "csp_space_guard"},
    {"func": "sansio.http._cookie_unslash_replace", "expr": "to_bytes(1", "exc": "OverflowError", "reason": "a multi-character group 1 of the unslash regex is three octal digits starting with 0-3, i.e. < 256", "premise": "unslash_octal_below_256"},
    {"func": "sansio.http._cookie_unslash_replace", "expr": "int(v, 8)", "exc": "ValueError", "reason": "group 1 is either one character (returned before) or three octal digits", "premise": "unslash_octal_below_256"},
    # -- constructor validation already done by the parser ---------------------------------------------------------
    {"func": "datastructures.range.Range.__init__", "expr": "raise ValueError", "exc": "ValueError", "reason": "parse_range_header only appends (begin, end) with 0 <= begin < end, or (negative, None)", "premise": "range_parser_validates"},
    {"func": "datastructures.range.ContentRange.set", "expr": "assert http.is_byte_range_valid", "exc": "AssertionError", "reason": "parse_content_range_header constructs only under the same predicate", "premise": "content_range_parser_validates"},
    {"func": "urls._decode_idna", "expr": "part.decode('ascii')", "exc": "UnicodeDecodeError", "reason": "`data` is the result of domain.encode('ascii'), so every part is ASCII", "premise": "idna_data_is_ascii"},
    {"func": "formparser.MultiPartParser.parse", "expr": "not isinstance(event, (Epilogue, NeedData))", "exc": "non-termination", "reason": "every event other than NEED_DATA is produced together with a buffer deletion or a state change, so a bounded buffer yields finitely many events before NEED_DATA", "premise": "next_event_progress"},
    {"func": "formparser._chunk_iter", "expr": "True", "exc": "non-termination", "reason": "each iteration reads from the request stream, which is finite (C09 bounds it); an empty read breaks", "premise": "chunk_iter_breaks_on_empty"},
    # -- loops ------------------------------------------------------------------------------------------------------
    {"func": "http.parse_etags", "expr": "pos < end", "exc": "non-termination", "reason": "an empty match of the ETag regex needs `$` at pos, i.e. pos == end (no newline in the input model), which ends the loop", "premise": "etag_regex_tail"},
]


# ---------------------------------------------------------------------
# premises: structural facts about other code, re-checked on every run


def _rx(ctx, folder, module: str, name: str) -> RegexConst:
    v = folder.name(ctx.repo.module(module), name)
    if not isinstance(v, RegexConst):
        raise ValueError(f"{name} is not a regex")
    return v


def _regex_used(ctx, folder, fq: str, method: str = "match"):
    """regex constants whose .<method> is called in function fq"""
    f = ctx.repo.func(fq)
    out = []
    for c in astq.method_calls(f.node, method):
        d = dotted(c.func.value)
        if d:
            try:
                v = folder.name(f.module, d)
            except Exception:
                continue
            if isinstance(v, RegexConst):
                out.append((d, v, c))
    return f, out


def p_param_key_min1(ctx, folder):
    f, used = _regex_used(ctx, folder, "http.parse_options_header")
    keys = [(d, v) for d, v, c in used if v.pattern.endswith("=") or v.pattern.endswith("=)")]
    if not keys:
        return False, "key regex not found"
    d, v = keys[0]
    w = group_width(v, 1)
    return w[0] >= 1, f"{d} group 1 min width {w[0]}"


def p_param_value_min1(ctx, folder):
    f, used = _regex_used(ctx, folder, "http.parse_options_header")
    facts = []
    ok = True
    for d, v, c in used:
        if v.pattern.endswith("="):
            continue
        if "'" in v.pattern and v.parsed().state.groups - 1 == 2:
            w = group_width(v, 2)
            facts.append(f"{d} group 2 min width {w[0]}")
            ok = ok and w[0] >= 1
        else:
            w = width(v)
            facts.append(f"{d} min width {w[0]}")
            ok = ok and w[0] >= 1
    # the quoted alternative appends rest[:pos + 1] with pos >= 1
    q = any(norm(n) == "rest[:pos + 1]" for n in ast.walk(f.node)) and any(isinstance(s, ast.Assign) and norm(s) == "pos = 1" for s in ast.walk(f.node))
    return ok and q and len(facts) >= 2, "; ".join(facts) + f"; quoted slice starts at pos = 1: {q}"


def p_options_key_nonempty(ctx, folder):
    f = ctx.repo.func("http.parse_options_header")
    cfg = cfg_of(f)
    stores = [n for n in cfg.nodes if isinstance(n.ast, ast.Assign) and isinstance(n.ast.targets[0], ast.Subscript) and norm(n.ast.targets[0].value) == "options"]
    tests = [t for t in cfg.tests() if t.kind == "test" and norm(t.ast) == "pk"]
    ok = bool(stores) and len(tests) >= 1 and all(any(cfg.edge_dominates(t, "T", s) for t in tests) for s in stores)
    # parse_dict_header skips an empty key as well
    g = ctx.repo.func("http.parse_dict_header")
    ok2 = any(isinstance(n, ast.If) and norm(n.test) == "not key" and any(isinstance(s, ast.Continue) for s in n.body) for n in ast.walk(g.node))
    return ok and ok2, f"{len(stores)} option store(s) dominated by a non-empty key test: {ok}; parse_dict_header skips empty keys: {ok2}"


def p_q_regex_decimal(ctx, folder):
    f, used = _regex_used(ctx, folder, "http.parse_accept_header", "fullmatch")
    if not used:
        return False, "no fullmatch of a folded regex in parse_accept_header"
    d, v, c = used[0]
    chars = set()
    for cls in classes_in(v, 0x3000):
        chars |= cls
    lits = {ord(ch) for ch in v.pattern if ch in "-."}
    ok_cls = all(48 <= x <= 57 for x in chars) and bool(v.flags & re.A)
    # no exponent / inf / nan letters anywhere in the pattern
    ok_lit = not re.search(r"[A-Za-z_]", re.sub(r"\\[dDwWsS]", "", v.pattern))
    cfg = cfg_of(f)
    fl = [x for x in astq.calls(f.node) if dotted(x.func) == "float"]
    t_ = [t for t in cfg.tests() if t.ast is c or any(y is c for y in ast.walk(t.ast))]
    dom = bool(fl) and bool(t_) and all(any(cfg.edge_dominates(t, "T", cfg.node_of(x)) or cfg.edge_dominates(t, "F", cfg.node_of(x)) for t in t_) for x in fl)
    same = bool(fl) and all(norm(x.args[0]) == norm(c.args[0]) for x in fl)
    return ok_cls and ok_lit and dom and same, f"{d} = {v.pattern!r}: digit classes only (ASCII): {ok_cls}; no letters: {ok_lit}; float() dominated by the match test: {dom}; on the matched text: {same}"


def p_csp_space_guard(ctx, folder):
    f = ctx.repo.func("http.parse_csp_header")
    cfg = cfg_of(f)
    sp = [n for n in cfg.nodes if isinstance(n.ast, ast.Assign) and isinstance(n.ast.targets[0], ast.Tuple) and ".split(' ', 1)" in norm(n.ast.value)]
    tests = [t for t in cfg.tests() if norm(t.ast) == "' ' in policy"]
    stripped = any(isinstance(s, ast.Assign) and norm(s) == "policy = policy.strip()" for s in ast.walk(f.node))
    ok = len(sp) == 1 and len(tests) == 1 and cfg.edge_dominates(tests[0], "T", sp[0]) and stripped and norm(sp[0].ast.value).startswith("policy")
    return ok, f"split dominated by `' ' in policy`: {ok}; policy stripped before the test: {stripped}"


def p_unslash_octal(ctx, folder):
    v = _rx(ctx, folder, "sansio.http", "_cookie_unslash_re")
    pat = v.pattern if isinstance(v.pattern, str) else v.pattern.decode("latin1")
    cls = classes_in(v, 256)
    # expected shape: \\( [0-3][0-7]{2} | . )
    ok = len(cls) >= 2 and cls[0] <= set(b"0123") and cls[1] <= set(b"01234567")
    w = group_width(v, 1)
    f = ctx.repo.func("sansio.http._cookie_unslash_replace")
    one = any(isinstance(n, ast.If) and norm(n.test) == "len(v) == 1" and any(isinstance(s, ast.Return) for s in n.body) for n in ast.walk(f.node))
    return ok and w[1] <= 3 and one, f"pattern {pat!r}: first digit class {sorted(chr(c) for c in cls[0]) if cls else None}, group 1 width {w}; single character returned first: {one}"


def p_range_parser_validates(ctx, folder):
    f = ctx.repo.func("http.parse_range_header")
    cfg = cfg_of(f)
    app = [n for n in cfg.nodes if isinstance(n.ast, ast.Expr) and norm(n.ast.value) == "ranges.append((begin, end))"]
    if len(app) != 1:
        return False, f"{len(app)} `ranges.append((begin, end))`"
    t_ge = [t for t in cfg.tests() if norm(t.ast) in ("begin >= end", "end <= begin")]
    ok_ge = len(t_ge) == 1 and all(isinstance(s.ast, ast.Return) and norm(s.ast.value) == "None" for s in cfg.succ(t_ge[0], "T"))
    # every `end = <int> + 1` assignment is followed by that test before the append
    ends = [n for n in cfg.nodes if isinstance(n.ast, ast.Assign) and norm(n.ast.targets[0]) == "end" and not astq.is_none(n.ast.value)]
    passes = all(cfg.all_paths_pass(n, app, t_ge) for n in ends) if t_ge else False
    # begin in the first-last form comes from _plain_int of a text that does not start with '-' (the '-' form is the other branch) and is compared with last_end >= 0
    t_last = [t for t in cfg.tests() if "begin < last_end" in norm(t.ast)]
    begins = [n for n in cfg.nodes if isinstance(n.ast, ast.Assign) and norm(n.ast.targets[0]) == "begin"]
    ok_b = all("_plain_int(" in norm(n.ast.value) for n in begins) and len(begins) == 2
    return ok_ge and passes and bool(t_last) and ok_b, f"`begin >= end` -> return None: {ok_ge}; every explicit end passes it before the append: {passes}; begin checked against last_end: {bool(t_last)}; begin from _plain_int: {ok_b}"


def p_content_range_parser_validates(ctx, folder):
    f = ctx.repo.func("http.parse_content_range_header")
    cfg = cfg_of(f)
    cons = [c for c in astq.calls(f.node) if (dotted(c.func) or "").endswith("ContentRange")]
    ok = bool(cons)
    facts = []
    for c in cons:
        n = cfg.node_of(c)
        g = {f"{norm(t.ast)}:{l}" for t, l in cfg.guards(n)}
        args = [norm(a) for a in c.args[1:4]]
        want_t = f"is_byte_range_valid({', '.join(args)}):T"
        want_f = f"not is_byte_range_valid({', '.join(args)})"
        hit = want_t in g or any(x.startswith(f"is_byte_range_valid({', '.join(args)})") and x.endswith(":T") for x in g)
        facts.append(f"ContentRange({', '.join(args)}) guarded: {hit}")
        ok = ok and hit
    return ok, "; ".join(facts)


def p_idna_data_is_ascii(ctx, folder):
    f = ctx.repo.func("urls._decode_idna")
    ds = [norm(v) for _, v in astq.assigns_to(f.node, "data", nested=True) if v is not None]
    loop = any(isinstance(n, ast.For) and norm(n.iter) == "data.split(b'.')" and norm(n.target) == "part" for n in ast.walk(f.node))
    return ds == ["domain.encode('ascii')"] and loop, f"data = {ds}; parts come from data.split(b'.'): {loop}"


def p_get_host_colon_guard(ctx, folder):
    f = ctx.repo.func("sansio.utils.get_host")
    cfg = cfg_of(f)
    subs = [n for n in ast.walk(f.node) if isinstance(n, ast.Subscript) and norm(n) == "host[0]"]
    tests = [t for t in cfg.tests() if norm(t.ast) == "':' in host"]
    ok = bool(subs) and len(tests) == 1 and all(cfg.edge_dominates(tests[0], "T", cfg.node_of(s)) or any(norm(t.ast) == "':' in host" for t, l in cfg.guards(cfg.node_of(s))) or _same_boolop(s, tests[0].ast) for s in subs)
    return ok, f"host[0] evaluated after `':' in host`: {ok}"


def _same_boolop(sub, test_ast) -> bool:
    # `':' in host and host[0] != '['`: the subscript is a later operand of the same `and`
    p = astq.parent(sub)
    while p is not None and not isinstance(p, ast.BoolOp):
        p = astq.parent(p)
    if isinstance(p, ast.BoolOp) and isinstance(p.op, ast.And):
        idx_t = [i for i, v in enumerate(p.values) if v is test_ast]
        idx_s = [i for i, v in enumerate(p.values) if any(x is sub for x in ast.walk(v))]
        return bool(idx_t) and bool(idx_s) and idx_t[0] < idx_s[0]
    return False


def p_stream_shallow_guard(ctx, folder):
    f = ctx.repo.func("wrappers.request.Request.stream")
    cfg = cfg_of(f)
    rs = [n for n in cfg.nodes if isinstance(n.ast, ast.Raise)]
    ok = len(rs) == 1 and {f"{norm(t.ast)}:{l}" for t, l in cfg.guards(rs[0])} == {"self.shallow:T"}
    return ok, f"raise guarded exactly by self.shallow: {ok}"


def p_mime_item_checked_first(ctx, folder):
    f = ctx.repo.func("datastructures.accept.MIMEAccept._value_matches")
    cfg = cfg_of(f)
    rs = [n for n in cfg.nodes if isinstance(n.ast, ast.Raise)]
    params = f.params
    ok = bool(rs)
    for r in rs:
        g = {norm(t.ast) for t, l in cfg.guards(r)}
        # guards of each raise mention only `value` (the first parameter after self), never `item`
        ok = ok and all(("item" not in x) or ("'/' not in item" in x) for x in g) and any("value" in x for x in g)
    return ok, f"{len(rs)} raise(s), each guarded by tests on `{params[1]}` only: {ok}"


def p_lookup_overridden(ctx, folder):
    ok = True
    facts = []
    for fq in ("utils.header_property", "utils.environ_property"):
        c = ctx.repo.try_cls(fq)
        has = c is not None and "lookup" in c.methods
        facts.append(f"{fq}.lookup defined: {has}")
        ok = ok and has
    base = ctx.repo.cls("_internal._DictAccessorProperty")
    subs = ctx.repo.subclasses(base.fq)
    ok = ok and all("lookup" in s.methods for s in subs)
    return ok, "; ".join(facts) + f"; all {len(subs)} subclasses override it: {ok}"


def p_language_fallback_same_split(ctx, folder):
    f = ctx.repo.func("datastructures.accept.LanguageAccept.best_match")
    fm = [norm(v) for _, v in astq.assigns_to(f.node, "fallback_matches") if v is not None]
    nx = [c for c in astq.calls(f.node) if dotted(c.func) == "next"]
    ok = len(fm) == 1 and "_locale_delim_re.split(item, 1)[0] for item in matches" in fm[0] and len(nx) == 1 and "_locale_delim_re.split(item, 1)[0] == result" in norm(nx[0]) and "for item in matches" in norm(nx[0])
    src = [norm(v) for _, v in astq.assigns_to(f.node, "result") if v is not None]
    ok = ok and any("best_match(fallback_matches)" in s for s in src)
    return ok, f"fallback list {fm}; result negotiated over it: {ok}"


def p_etag_regex_tail(ctx, folder):
    v = _rx(ctx, folder, "http", "_etag_re")
    ok = v.pattern.endswith("(?:\\s*,\\s*|$)") and not (v.flags & re.M)
    f = ctx.repo.func("http.parse_etags")
    adv = any(isinstance(s, ast.Assign) and norm(s) == "pos = match.end()" for s in ast.walk(f.node))
    brk = any(isinstance(n, ast.If) and norm(n.test) == "match is None" and any(isinstance(s, ast.Break) for s in n.body) for n in ast.walk(f.node))
    return ok and adv and brk, f"pattern ends with a separator-or-$ alternative without re.M: {ok}; pos = match.end(): {adv}; no match -> break: {brk}"


def p_form_parser_silent(ctx, folder):
    f = ctx.repo.func("formparser.FormDataParser.parse")
    tr = [n for n in ast.walk(f.node) if isinstance(n, ast.Try)]
    ok_h = False
    for t_ in tr:
        for h in t_.handlers:
            if (dotted(h.type) or "") == "ValueError":
                rer = [x for x in ast.walk(h) if isinstance(x, ast.Raise)]
                ok_h = all(x.exc is None and isinstance(astq.parent(x), ast.If) and norm(astq.parent(x).test) == "not self.silent" for x in rer) and len(rer) >= 1
    init = ctx.repo.func("formparser.FormDataParser.__init__")
    a = init.node.args
    names = [x.arg for x in a.args]
    dflt = None
    if "silent" in names:
        i = names.index("silent") - (len(names) - len(a.defaults))
        dflt = norm(a.defaults[i]) if i >= 0 else None
    stored = any(isinstance(s_, ast.Assign) and norm(s_) == "self.silent = silent" for s_ in ast.walk(init.node))
    mk = ctx.repo.func("wrappers.request.Request.make_form_data_parser")
    passes = any(kw.arg == "silent" or kw.arg is None for c in astq.calls(mk.node) for kw in c.keywords)
    writes = [fn.fq for fn in ctx.repo.all_functions() if fn.fq != init.fq and any(isinstance(s_, (ast.Assign, ast.AugAssign)) and any(isinstance(t2, ast.Attribute) and t2.attr == "silent" for t2 in (s_.targets if isinstance(s_, ast.Assign) else [s_.target])) for s_ in ast.walk(fn.node))]
    ok = ok_h and dflt == "True" and stored and not passes and not writes
    return ok, f"handler re-raises only under `not self.silent`: {ok_h}; default silent={dflt}; stored: {stored}; Request.make_form_data_parser passes silent: {passes}; other writers of .silent: {writes}"


def p_next_event_progress(ctx, folder):
    f = ctx.repo.func("sansio.multipart.MultipartDecoder.next_event")
    cfg = cfg_of(f)
    evs = [n for n in cfg.nodes if isinstance(n.ast, ast.Assign) and norm(n.ast.targets[0]) == "event" and isinstance(n.ast.value, ast.Call)]
    ok = bool(evs)
    facts = []
    for n in evs:
        body = _stmt_list(n.ast)
        prog = any(isinstance(s_, ast.Delete) and "self.buffer" in norm(s_) for s_ in (body or [])) or any(isinstance(s_, ast.Assign) and norm(s_.targets[0]) == "self.state" for s_ in (body or []))
        # nested (if filename is not None: event = File(...)): look one level up as well
        if not prog:
            up = astq.parent(astq.parent(n.ast)) if astq.parent(n.ast) is not None else None
            body2 = _stmt_list(astq.parent(n.ast)) if astq.parent(n.ast) is not None else None
            prog = any(isinstance(s_, ast.Delete) and "self.buffer" in norm(s_) for s_ in (body2 or [])) or any(isinstance(s_, ast.Assign) and norm(s_.targets[0]) == "self.state" for s_ in (body2 or []))
        facts.append(f"L{n.lineno} {norm(n.ast.value.func)}: {prog}")
        ok = ok and prog
    return ok, "event construction accompanied by a buffer deletion / state change: " + ", ".join(facts)


def _stmt_list(node):
    p = astq.parent(node)
    if p is None:
        return None
    for fld in ("body", "orelse", "finalbody"):
        lst = getattr(p, fld, None)
        if isinstance(lst, list) and any(x is node for x in lst):
            return lst
    return None


def p_chunk_iter_breaks(ctx, folder):
    f = ctx.repo.func("formparser._chunk_iter")
    w = [n for n in ast.walk(f.node) if isinstance(n, ast.While)]
    ok = len(w) == 1 and any(isinstance(n, ast.If) and norm(n.test) == "not data" and any(isinstance(s_, ast.Break) for s_ in n.body) for n in ast.walk(w[0])) and any(isinstance(s_, ast.Assign) and norm(s_) == "data = read(size)" for s_ in ast.walk(w[0]))
    return ok, f"loop reads `data = read(size)` and breaks on an empty read: {ok}"


PREMISES = {
    "form_parser_silent": p_form_parser_silent,
    "next_event_progress": p_next_event_progress,
    "chunk_iter_breaks_on_empty": p_chunk_iter_breaks,
    "param_key_min1": p_param_key_min1,
    "param_value_min1": p_param_value_min1,
    "options_key_nonempty": p_options_key_nonempty,
    "q_regex_decimal": p_q_regex_decimal,
    "csp_space_guard": p_csp_space_guard,
    "unslash_octal_below_256": p_unslash_octal,
    "range_parser_validates": p_range_parser_validates,
    "content_range_parser_validates": p_content_range_parser_validates,
    "idna_data_is_ascii": p_idna_data_is_ascii,
    "get_host_colon_guard": p_get_host_colon_guard,
    "stream_shallow_guard": p_stream_shallow_guard,
    "mime_item_checked_first": p_mime_item_checked_first,
    "lookup_overridden": p_lookup_overridden,
    "language_fallback_same_split": p_language_fallback_same_split,
    "etag_regex_tail": p_etag_regex_tail,
}


def check_premise(ctx, folder, name: str):
    fn = PREMISES.get(name)
    if fn is None:
        return False, f"unknown premise {name}"
    try:
        return fn(ctx, folder)
    except Exception as e:  # a premise that cannot be evaluated does not hold
        return False, f"premise could not be evaluated: {type(e).__name__}: {e}"
