"""C18 helpers.

* ``Flow``: ownership tags over reaching definitions for every function scope of one module (methods, module
  functions, nested functions), with one level of summaries (return tags of helpers, parameter tags joined over the
  call sites inside the module).  Tags: ``FRESH`` (an object created by this expression: literal, ``.copy()``, slice,
  ``list()``/``dict()``, ``a + b``), ``("SHARED", origin)`` (may be the object currently held in a ContextVar, read by
  the ``.get`` call ``origin``), ``OTHER`` (anything else).  The analysis is a *may* analysis: an expression gets
  every tag that some path can give it.
* ``EmptyRun``: abstract execution of one function under the assumption that the ContextVar payload is empty.
"""

from __future__ import annotations

import ast
import typing as t

from ..cfg import CFG, Node
from ..dataflow import Def, ReachingDefs, bound_in_enclosing_comp
from ..loader import FuncInfo, Module, Repo, const_str, dotted, norm, walk_no_nested

FRESH = "FRESH"
OTHER = "OTHER"
Tag = t.Union[str, t.Tuple[str, int]]
Tags = t.FrozenSet[Tag]

FRESH_MAKERS = {
    "builtins.list", "builtins.dict", "builtins.set", "builtins.tuple", "builtins.sorted", "builtins.frozenset",
    "builtins.bytearray", "builtins.dict.fromkeys", "builtins.list.copy", "builtins.dict.copy",
    "copy.copy", "copy.deepcopy", "collections.OrderedDict", "collections.deque",
}
IDENTITY_2ND = {"typing.cast"}
INPLACE_OPERATOR = {"setitem", "delitem", "iadd", "iconcat", "ior", "imul", "iand", "ixor", "isub"}

EXC_PARENT = {
    "IndexError": "LookupError", "KeyError": "LookupError", "LookupError": "Exception", "AttributeError": "Exception",
    "RuntimeError": "Exception", "TypeError": "Exception", "ValueError": "Exception", "Exception": "BaseException",
}


def mangle(cls_name: str | None, attr: str) -> str:
    if cls_name and attr.startswith("__") and not attr.endswith("__"):
        return "_" + cls_name.lstrip("_") + attr
    return attr


def shared(tags: t.Iterable[Tag]) -> set[Tag]:
    return {x for x in tags if isinstance(x, tuple)}


def is_empty_literal(e: ast.AST | None) -> str | None:
    """"dict" / "list" / "set" / "tuple" when e builds an empty container, else None."""
    if isinstance(e, ast.Dict) and not e.keys:
        return "dict"
    if isinstance(e, ast.List) and not e.elts:
        return "list"
    if isinstance(e, ast.Tuple) and not e.elts:
        return "tuple"
    if isinstance(e, ast.Call) and not e.args and not e.keywords and isinstance(e.func, ast.Name) and e.func.id in ("dict", "list", "set", "tuple"):
        return e.func.id
    return None


def handler_catches(h: ast.ExceptHandler, exc: str | None) -> bool:
    """does ``except <h.type>`` catch an exception class named exc (None = unknown exception: only catch-alls)."""
    if h.type is None:
        return True
    types = h.type.elts if isinstance(h.type, ast.Tuple) else [h.type]
    names = {(dotted(x) or "?").rsplit(".", 1)[-1] for x in types}
    if names & {"Exception", "BaseException"}:
        return True
    cur = exc
    while cur is not None:
        if cur in names:
            return True
        cur = EXC_PARENT.get(cur)
    return False


# consumers of an iterator: which of them run it to its end
EXHAUSTING = {"list", "tuple", "set", "frozenset", "sorted", "sum", "max", "min", "dict", "deque", "collections.deque"}
STOPPING_EARLY = {"any", "all", "next"}


def why_conditional(e: ast.AST, root: ast.AST | None, stop: ast.AST | None = None) -> str | None:
    """Evaluating ``root`` (one CFG node: a simple statement or one atom of a branch condition) - does that always
    evaluate its sub-expression ``e`` (exceptions aside)?  None when it does, otherwise the reason it may not:
    a later operand of `and`/`or`, a branch of a conditional expression, a later operand of a chained comparison, the
    element / filter of a comprehension (zero or some times), the body of a lambda or nested function (not now), or
    anything inside an `assert` (removed under -O).  The CFG splits only the conditions of if/while into atoms, so this
    is the same question asked inside one node.  ``stop``: an ancestor at which the climb ends (the caller reasons about
    that construct itself, e.g. the comprehension that plays the loop)."""
    if root is None:
        return "not part of a statement of this function"
    cur = e
    while cur is not root and cur is not stop:
        par = getattr(cur, "_parent", None)
        if par is None:
            return "not part of that statement"
        if par is stop:
            return None
        if isinstance(par, ast.BoolOp) and cur is not par.values[0]:
            i = next(i for i, v in enumerate(par.values) if v is cur)
            word = "or" if isinstance(par.op, ast.Or) else "and"
            return f"it is a later operand of `{word}`: not evaluated once `{norm(par.values[i - 1])}` (or an earlier operand) has decided the result"
        if isinstance(par, ast.IfExp) and cur is not par.test:
            return f"it is a branch of the conditional expression on `{norm(par.test)}`"
        if isinstance(par, ast.Compare) and any(cur is c for c in par.comparators[1:]):
            return "it is a later operand of a chained comparison"
        if isinstance(par, ast.Lambda):
            return "it is the body of a lambda: evaluated when (if ever) the lambda is called"
        if isinstance(par, (ast.FunctionDef, ast.AsyncFunctionDef)) and any(cur is s for s in par.body):
            return "it is inside a nested function: evaluated when (if ever) that is called"
        if isinstance(par, ast.comprehension):
            comp = getattr(par, "_parent", None)
            first = comp is not None and comp.generators[0] is par and cur is par.iter
            if not first:
                return "it is evaluated per element of a comprehension (a filter or an inner iterable: zero or more times)"
            cur = comp  # the outermost iterable is evaluated where the comprehension is
            continue
        if isinstance(par, (ast.ListComp, ast.SetComp, ast.DictComp, ast.GeneratorExp)):
            lazy = " lazily, as far as its consumer pulls" if isinstance(par, ast.GeneratorExp) else ""
            return f"it is the element of a comprehension: evaluated once per element{lazy}"
        if isinstance(par, ast.Assert):
            return "it is inside an `assert`, which is removed under -O"
        cur = par
    return None


class Unit:
    """one function scope."""

    def __init__(self, fi: FuncInfo, outer: "Unit | None"):
        self.fi = fi
        self.outer = outer
        self.cls = fi.cls
        self.cfg = CFG(fi.node)
        self.rd = ReachingDefs(self.cfg, fi.params)

    @property
    def clsname(self) -> str | None:
        return self.cls.name if self.cls is not None else None

    @property
    def top(self) -> "Unit":
        u = self
        while u.outer is not None:
            u = u.outer
        return u

    def walk(self) -> t.Iterator[ast.AST]:
        return walk_no_nested(self.fi.node)

    def self_name(self) -> str | None:
        """name under which the instance is visible in this scope (first parameter of the enclosing method)."""
        u = self.top
        if u.cls is None or any(d in ("staticmethod", "classmethod") for d in u.fi.decorators):
            return None
        a = u.fi.node.args
        pos = a.posonlyargs + a.args
        return pos[0].arg if pos else None

    def __repr__(self) -> str:
        return f"<Unit {self.fi.qualname}>"


def _exception_class_name(flow: "Flow | None", u: Unit, name: str) -> str:
    """a dotted name used as an exception class: its last part when it is a builtin exception or a class of the package,
    "?<name>" otherwise (a function, a variable of an enclosing scope ...)."""
    import builtins

    last = name.rsplit(".", 1)[-1]
    b = getattr(builtins, name, None)
    if isinstance(b, type) and issubclass(b, BaseException):
        return last
    if flow is not None:
        fq = flow.repo.resolve(flow.module, name) or ""
        if fq.startswith("builtins."):
            return "?" + name
        head = name.split(".", 1)[0]
        if head in flow.module.functions or (head in flow.module.assigns and head not in flow.module.classes):
            return "?" + name
        o = u.outer
        while o is not None:
            if Flow._binds(o, head):
                return "?" + name
            o = o.outer
    return last


def raised_class(u: Unit, a: ast.Raise, flow: "Flow | None" = None) -> str | None:
    """name of the exception class an explicit `raise` raises - also when the instance (or class) was first put into a
    local name, or is built by a helper of the module (`raise _unbound_error()`); None for a bare re-raise; "?<text>" when
    it cannot be told (a parameter, a computed value)."""

    def of(e: ast.AST, unit: Unit, depth: int) -> str:
        if isinstance(e, ast.Call):
            if flow is not None and depth < 3:
                callees = flow.callees(e, unit)
                if callees:
                    names: set[str] = set()
                    for cu, _ in callees:
                        rets = [n for n in cu.walk() if isinstance(n, ast.Return) and n.value is not None]
                        if not rets:
                            return "?" + norm(e.func)
                        names |= {of(r.value, cu, depth + 1) for r in rets}  # type: ignore[arg-type]
                    return names.pop() if len(names) == 1 else "?" + norm(e.func)
            e = e.func
        if isinstance(e, ast.Name):
            node = unit.cfg.node_of(e)
            defs = unit.rd.reaching(node, e.id) if node is not None else frozenset()
            if defs:
                if depth < 3 and all(d.kind in ("assign", "walrus") and d.index is None and d.value is not None for d in defs):
                    names = {of(d.value, unit, depth + 1) for d in defs}  # type: ignore[arg-type]
                    if len(names) == 1:
                        return names.pop()
                return "?" + e.id
            return _exception_class_name(flow, unit, e.id)
        d = dotted(e)
        return _exception_class_name(flow, unit, d) if d else "?"

    return None if a.exc is None else of(a.exc, u, 0)


class Flow:
    def __init__(self, repo: Repo, module: Module, slots: set[str]):
        self.repo = repo
        self.module = module
        self.slots = slots
        self.units: list[Unit] = []
        self.by_node: dict[int, Unit] = {}
        self.origins: dict[int, tuple[Unit, ast.Call]] = {}
        self.memo: dict[t.Any, Tags] = {}
        self.active: set[t.Any] = set()
        self.cuts = 0
        for fi in module.functions.values():
            self._add(fi, None)
        for c in module.classes.values():
            for fi in c.methods.values():
                self._add(fi, None)
        self._sites: dict[int, list[tuple[Unit, ast.Call, int]]] | None = None

    def _add(self, fi: FuncInfo, outer: Unit | None) -> None:
        if id(fi.node) in self.by_node:
            return
        u = Unit(fi, outer)
        self.units.append(u)
        self.by_node[id(fi.node)] = u
        for n in walk_no_nested(fi.node):
            if isinstance(n, (ast.FunctionDef, ast.AsyncFunctionDef)):
                self._add(FuncInfo(fi.module, n, f"{fi.qualname}.{n.name}", fi.cls), u)

    def unit_of(self, fi_or_node: FuncInfo | ast.AST) -> Unit:
        node = fi_or_node.node if isinstance(fi_or_node, FuncInfo) else fi_or_node
        return self.by_node[id(node)]

    # -- storage expressions -------------------------------------------
    def is_storage(self, e: ast.AST, unit: Unit, depth: int = 0) -> bool:
        """does e evaluate to the ContextVar held in a storage slot."""
        if isinstance(e, ast.Attribute):
            return mangle(unit.clsname, e.attr) in self.slots
        if isinstance(e, ast.NamedExpr):
            return self.is_storage(e.value, unit, depth)
        if isinstance(e, ast.Call):
            d = dotted(e.func)
            if d in ("getattr", "object.__getattribute__") and len(e.args) >= 2:
                s = const_str(e.args[1])
                return s is not None and s in self.slots
            return False
        if isinstance(e, ast.Name) and depth < 4:
            node = unit.cfg.node_of(e)
            if node is None:
                return False
            for d in unit.rd.reaching(node, e.id):
                if d.kind in ("assign", "walrus") and d.index is None and d.value is not None and self.is_storage(d.value, unit, depth + 1):
                    return True
                if d.kind == "param" and self.param_is_storage(unit, d.name, depth + 1):
                    return True
        return False

    def param_is_storage(self, unit: Unit, pname: str, depth: int = 0) -> bool:
        """helper extraction: does some call site inside the module hand a storage ContextVar in for this parameter?"""
        key = ("ps", id(unit), pname)
        if key in self.memo:
            return bool(self.memo[key])
        if key in self.active or depth > 4:
            return False
        self.active.add(key)
        try:
            r = False
            for cu, call, off in self.call_sites(unit):
                how, arg = self.site_arg(unit, pname, call, off)
                if how == "arg" and arg is not None and self.is_storage(arg, cu, depth + 1):
                    r = True
                    break
        finally:
            self.active.discard(key)
        self.memo[key] = frozenset([OTHER]) if r else frozenset()
        return r

    def site_arg(self, unit: Unit, pname: str, call: ast.Call, off: int) -> tuple[str, ast.AST | None]:
        """what a call site passes for parameter ``pname`` of ``unit``:
        ("arg", expr) | ("self", None) the implicit instance | ("default", expr or None) | ("unknown", None)."""
        a = unit.fi.node.args
        pos = [x.arg for x in a.posonlyargs + a.args]
        kwonly = [x.arg for x in a.kwonlyargs]
        if pname not in pos and pname not in kwonly:
            return "unknown", None
        for k in call.keywords:
            if k.arg == pname:
                return "arg", k.value
        if pname in pos:
            i = pos.index(pname) - off
            if i < 0:
                return "self", None
            if i < len(call.args):
                if any(isinstance(x, ast.Starred) for x in call.args[: i + 1]):
                    return "unknown", None
                return "arg", call.args[i]
        if any(isinstance(x, ast.Starred) for x in call.args) or any(k.arg is None for k in call.keywords):
            return "unknown", None
        if pname in pos:
            j = pos.index(pname) - (len(pos) - len(a.defaults))
            return "default", (a.defaults[j] if 0 <= j < len(a.defaults) else None)
        return "default", a.kw_defaults[kwonly.index(pname)]

    def default_kind(self, e: ast.AST | None, unit: Unit, owner: t.Any = None, depth: int = 0) -> str | None:
        """kind of the empty container ``e`` evaluates to; a local name is followed to its definitions and a helper's
        parameter to what the call sites (of class ``owner`` when given) pass."""
        k = is_empty_literal(e)
        if k is not None or e is None:
            return k
        if isinstance(e, ast.NamedExpr):
            return self.default_kind(e.value, unit, owner, depth)
        if depth > 3:
            return None
        if isinstance(e, ast.IfExp):
            a, b = self.default_kind(e.body, unit, owner, depth + 1), self.default_kind(e.orelse, unit, owner, depth + 1)
            return a if a == b else None
        if isinstance(e, ast.Call):
            # a factory helper of the module (function, method, static method) every exit of which returns an empty
            # container of one kind: `self._storage.set(self._empty())`
            rets = self._helper_returns(e, unit)
            if not rets:
                return None
            hu, values = rets
            ks = {self.default_kind(v, hu, owner, depth + 1) for v in values}
            return ks.pop() if len(ks) == 1 else None
        if not isinstance(e, ast.Name):
            return None
        node = unit.cfg.node_of(e)
        defs = unit.rd.reaching(node, e.id) if node is not None else frozenset()
        kinds: set[str | None] = set()
        for d in defs:
            if d.kind in ("assign", "walrus") and d.index is None and d.value is not None:
                kinds.add(self.default_kind(d.value, unit, owner, depth + 1))
            elif d.kind == "param":
                sites = [s for s in self.call_sites(unit) if owner is None or s[0].cls is owner] or self.call_sites(unit)
                if not sites:
                    return None
                for cu, call, off in sites:
                    how, arg = self.site_arg(unit, d.name, call, off)
                    if how == "arg":
                        kinds.add(self.default_kind(arg, cu, owner, depth + 1))
                    elif how == "default":
                        kinds.add(is_empty_literal(arg))
                    else:
                        kinds.add(None)
            else:
                return None
        if len(kinds) == 1:
            return kinds.pop()
        return None

    def _helper_returns(self, call: ast.Call, unit: Unit) -> tuple[Unit, list[ast.AST]] | None:
        """(unit of the one helper of the module the call resolves to, the values of its return statements) when every
        way out of the helper is a `return <value>` (no generator, no falling off the end); None otherwise."""
        callees = self.callees(call, unit)
        if len(callees) != 1:
            return None
        hu = callees[0][0]
        if hu is unit or isinstance(hu.fi.node, ast.AsyncFunctionDef) or any(isinstance(n, (ast.Yield, ast.YieldFrom)) for n in hu.walk()):
            return None
        rets = [n for n in hu.walk() if isinstance(n, ast.Return)]
        if not rets or any(r.value is None for r in rets):
            return None
        if any(not isinstance(p.ast, ast.Return) for p, l in hu.cfg.exit.preds if l != "exc"):
            return None  # some path falls off the end (returns None)
        return hu, [r.value for r in rets]  # type: ignore[misc]

    def default_wrong(self, e: ast.AST | None, unit: Unit, owner: t.Any = None, depth: int = 0) -> bool:
        """e certainly does not evaluate to an empty container: a constant (None ...), a non-empty display, or a local
        name / helper parameter that some definition / call site feeds with one.  (``default_kind`` None and this False:
        the expression is not understood.)"""
        if isinstance(e, ast.Constant):
            return True
        if isinstance(e, (ast.List, ast.Tuple, ast.Set)):
            return bool(e.elts)
        if isinstance(e, ast.Dict):
            return bool(e.keys)
        if isinstance(e, (ast.JoinedStr, ast.Lambda, ast.GeneratorExp)):
            return True
        if isinstance(e, ast.NamedExpr):
            return self.default_wrong(e.value, unit, owner, depth)
        if depth > 3:
            return False
        if isinstance(e, ast.IfExp):
            return self.default_wrong(e.body, unit, owner, depth + 1) or self.default_wrong(e.orelse, unit, owner, depth + 1)
        if isinstance(e, ast.Call):
            rets = self._helper_returns(e, unit)
            return rets is not None and any(self.default_wrong(v, rets[0], owner, depth + 1) for v in rets[1])
        if not isinstance(e, ast.Name):
            return False
        node = unit.cfg.node_of(e)
        for d in (unit.rd.reaching(node, e.id) if node is not None else ()):
            if d.kind in ("assign", "walrus") and d.index is None and d.value is not None:
                if self.default_wrong(d.value, unit, owner, depth + 1):
                    return True
            elif d.kind == "param":
                sites = [s for s in self.call_sites(unit) if owner is None or s[0].cls is owner] or self.call_sites(unit)
                for cu, call, off in sites:
                    how, arg = self.site_arg(unit, d.name, call, off)
                    if how == "arg" and self.default_wrong(arg, cu, owner, depth + 1):
                        return True
                    if how == "default" and (arg is None or self.default_wrong(arg, unit, owner, depth + 1)):
                        return True
        return False

    def storage_method(self, c: ast.Call, unit: Unit) -> str | None:
        """name of the ContextVar method a call invokes on a storage slot (directly or through a bound-method alias)."""
        f = c.func
        if isinstance(f, ast.Attribute):
            return f.attr if self.is_storage(f.value, unit) else None
        if isinstance(f, ast.Name):
            node = unit.cfg.node_of(c)
            defs = unit.rd.reaching(node, f.id) if node is not None else frozenset()
            attrs: set[str] = set()
            for d in defs:
                if d.kind in ("assign", "walrus") and d.index is None and isinstance(d.value, ast.Attribute) and self.is_storage(d.value.value, unit):
                    attrs.add(d.value.attr)
                else:
                    return None
            if len(attrs) == 1:
                return attrs.pop()
        return None

    def storage_calls(self, unit: Unit, attr: str) -> list[ast.Call]:
        out = []
        for n in unit.walk():
            if isinstance(n, ast.Call) and self.storage_method(n, unit) == attr:
                out.append(n)
        out.sort(key=lambda c: (c.lineno, c.col_offset))
        return out

    def run_node(self, e: ast.AST, unit: Unit) -> Node | None:
        """the CFG node that evaluates e - when passing that node always evaluates e (not a short-circuited operand,
        a conditional-expression branch, a comprehension element ...); else None."""
        n = unit.cfg.node_of(e)
        if n is None or why_conditional(e, n.ast) is not None:
            return None
        return n

    def why_not_run(self, e: ast.AST, unit: Unit) -> str | None:
        n = unit.cfg.node_of(e)
        return why_conditional(e, n.ast if n is not None else None)

    def bindings(self, unit: Unit) -> list[tuple[ast.Call, ast.AST | None]]:
        """(call in unit, bound value as written in unit) for every rebinding of a storage ContextVar the unit performs:
        `<storage>.set(v)` itself, or - one level of helper extraction - a call of a helper of this module that on
        every normal path does `<storage>.set(<its parameter>)` (value = what this call passes for that parameter)."""
        out: list[tuple[ast.Call, ast.AST | None]] = []
        for n in unit.walk():
            if not isinstance(n, ast.Call):
                continue
            if self.storage_method(n, unit) == "set":
                out.append((n, n.args[0] if n.args else next((k.value for k in n.keywords), None)))
                continue
            for cu, off in self.callees(n, unit):
                if cu is unit:
                    continue
                for s in self.storage_calls(cu, "set"):
                    v = s.args[0] if s.args else None
                    sn = cu.cfg.node_of(s)
                    if not isinstance(v, ast.Name) or sn is None:
                        continue
                    defs = cu.rd.reaching(sn, v.id)
                    if len(defs) != 1 or next(iter(defs)).kind != "param":
                        continue
                    if why_conditional(s, sn.ast) is not None or not cu.cfg.all_paths_pass(cu.cfg.entry, [cu.cfg.exit], [sn]):
                        continue
                    recv = s.func.value if isinstance(s.func, ast.Attribute) else None
                    if isinstance(recv, ast.Name) and any(d.kind == "param" for d in cu.rd.reaching(sn, recv.id)):  # the ContextVar is a parameter too: this site must hand a storage in
                        how0, a0 = self.site_arg(cu, recv.id, n, off)
                        if how0 != "arg" or a0 is None or not self.is_storage(a0, unit):
                            continue
                    how, arg = self.site_arg(cu, v.id, n, off)
                    if how == "arg":
                        out.append((n, arg))
                    elif how == "default":
                        out.append((n, arg))
        out.sort(key=lambda p: (p[0].lineno, p[0].col_offset))
        return out

    # -- tag evaluation -----------------------------------------------------
    def _guarded(self, key: t.Any, compute: t.Callable[[], t.Iterable[Tag]]) -> Tags:
        if key in self.memo:
            return self.memo[key]
        if key in self.active:
            self.cuts += 1
            return frozenset()
        self.active.add(key)
        before = self.cuts
        try:
            r = frozenset(compute())
        finally:
            self.active.discard(key)
        if self.cuts == before:
            self.memo[key] = r
        return r

    def tags(self, e: ast.AST | None, unit: Unit) -> Tags:
        if e is None:
            return frozenset([OTHER])
        return self._guarded(("e", id(e)), lambda: self._tags(e, unit))

    def _tags(self, e: ast.AST, unit: Unit) -> t.Iterable[Tag]:
        if isinstance(e, ast.NamedExpr):
            return self.tags(e.value, unit)
        if isinstance(e, (ast.List, ast.Dict, ast.Set, ast.Tuple, ast.ListComp, ast.DictComp, ast.SetComp)):
            return [FRESH]
        if isinstance(e, ast.IfExp):
            return self.tags(e.body, unit) | self.tags(e.orelse, unit)
        if isinstance(e, ast.BoolOp):
            out: set[Tag] = set()
            for v in e.values:
                out |= self.tags(v, unit)
            return out
        if isinstance(e, ast.BinOp):
            return [FRESH] if isinstance(e.op, (ast.Add, ast.BitOr, ast.Mult)) else [OTHER]
        if isinstance(e, ast.Subscript):
            return [FRESH] if isinstance(e.slice, ast.Slice) else [OTHER]
        if isinstance(e, ast.Starred):
            return self.tags(e.value, unit)
        if isinstance(e, ast.Name):
            return self.name_tags(e, unit)
        if isinstance(e, ast.Attribute):
            # a property of the same class: its return summary
            if self.self_ref(e.value, unit):
                _, what = self.repo.lookup(unit.cls, e.attr)  # type: ignore[arg-type]
                if isinstance(what, FuncInfo) and id(what.node) in self.by_node and any(d.endswith("property") for d in what.decorators):
                    return self.ret_tags(self.by_node[id(what.node)])
            return [OTHER]
        if isinstance(e, ast.Call):
            return self._call_tags(e, unit)
        return [OTHER]

    def _locally_bound(self, name: str, at: ast.AST, unit: Unit) -> bool:
        node = unit.cfg.node_of(at)
        return node is not None and bool(unit.rd.reaching(node, name))

    def resolve_callee_name(self, call: ast.Call, unit: Unit) -> str | None:
        """fully qualified name of a called dotted name that is not a local variable."""
        d = dotted(call.func)
        if d is None:
            return None
        head = d.split(".", 1)[0]
        if self._locally_bound(head, call, unit):
            return None
        u = unit.outer
        while u is not None:
            if self._binds(u, head):
                return None
            u = u.outer
        return self.repo.resolve(self.module, d)

    def _args_shared(self, call: ast.Call, unit: Unit) -> set[Tag]:
        out: set[Tag] = set()
        for a in call.args:
            out |= shared(self.tags(a, unit))
        for k in call.keywords:
            out |= shared(self.tags(k.value, unit))
        return out

    def _call_tags(self, c: ast.Call, unit: Unit) -> t.Iterable[Tag]:
        f = c.func
        if self.storage_method(c, unit) == "get":
            self.origins[id(c)] = (unit, c)
            return [("SHARED", id(c))]
        if isinstance(f, ast.Attribute):
            if f.attr in ("copy", "__copy__") and not c.args and not c.keywords:
                return [FRESH]
        fq = self.resolve_callee_name(c, unit)
        if fq in FRESH_MAKERS:
            return [FRESH]
        if fq in IDENTITY_2ND and len(c.args) == 2:
            return self.tags(c.args[1], unit)
        callees = self.callees(c, unit)
        if callees:
            out: set[Tag] = set()
            for cu, _ in callees:
                out |= self.ret_tags(cu)
            return out
        return {OTHER} | self._args_shared(c, unit)

    def defs_tags(self, defs: t.Iterable[Def], unit: Unit) -> Tags:
        out: set[Tag] = set()
        for d in defs:
            out |= self.def_tags(d, unit)
        return frozenset(out)

    def name_tags(self, e: ast.Name, unit: Unit) -> Tags:
        if bound_in_enclosing_comp(e, unit.fi.node) is not None:
            return frozenset([OTHER])
        node = unit.cfg.node_of(e)
        if node is None:
            return frozenset([OTHER])
        defs = unit.rd.reaching(node, e.id)
        if defs:
            return self.defs_tags(defs, unit)
        return self.free_tags(e.id, unit.outer)

    def name_tags_at(self, name: str, at: ast.AST, unit: Unit) -> Tags:
        """tags of local ``name`` as seen by expressions evaluated in the statement ``at``."""
        node = unit.cfg.node_of(at)
        if node is None:
            return frozenset([OTHER])
        defs = unit.rd.reaching(node, name)
        if defs:
            return self.defs_tags(defs, unit)
        return self.free_tags(name, unit.outer)

    def free_tags(self, name: str, outer: Unit | None) -> Tags:
        """free variable of a nested function: every binding in the enclosing scopes (flow-insensitive)."""
        while outer is not None:
            defs = [d for ds in outer.rd.gen.values() for d in ds if d.name == name] + [d for d in outer.rd.param_defs if d.name == name]
            if defs:
                return self.defs_tags(defs, outer)
            outer = outer.outer
        return frozenset([OTHER])

    def def_tags(self, d: Def, unit: Unit) -> Tags:
        return self._guarded(("d", id(d)), lambda: self._def_tags(d, unit))

    def _def_tags(self, d: Def, unit: Unit) -> t.Iterable[Tag]:
        if d.kind in ("assign", "walrus"):
            if d.index is None and d.value is not None:
                return self.tags(d.value, unit)
            return [OTHER]
        if d.kind == "unpack":
            v = d.value
            if isinstance(getattr(d.target, "_parent", None), ast.Starred):
                return [FRESH]  # `*rest, last = xs` collects into a new list
            if isinstance(v, (ast.Tuple, ast.List)) and d.index is not None and d.index < len(v.elts) and not any(isinstance(x, ast.Starred) for x in v.elts):
                tg = getattr(d.target, "_parent", None)
                if isinstance(tg, (ast.Tuple, ast.List)) and len(tg.elts) == len(v.elts) and not any(isinstance(x, ast.Starred) for x in tg.elts):
                    return self.tags(v.elts[d.index], unit)
            # `a, b = helper(...)`: a helper of the module whose every return is a tuple display of that arity
            tg = getattr(d.target, "_parent", None)
            if isinstance(v, ast.Call) and d.index is not None and isinstance(tg, (ast.Tuple, ast.List)) and not any(isinstance(x, ast.Starred) for x in tg.elts):
                callees = self.callees(v, unit)
                parts: list[tuple[Unit, ast.AST]] = []
                for cu, _ in callees:
                    rets = [n for n in cu.walk() if isinstance(n, ast.Return)]
                    gen = any(isinstance(n, (ast.Yield, ast.YieldFrom)) for n in cu.walk()) or isinstance(cu.fi.node, ast.AsyncFunctionDef)
                    if gen or not rets or not all(isinstance(r.value, ast.Tuple) and len(r.value.elts) == len(tg.elts) and not any(isinstance(x, ast.Starred) for x in r.value.elts) for r in rets):
                        parts = []
                        break
                    parts += [(cu, r.value.elts[d.index]) for r in rets]  # type: ignore[union-attr]
                if callees and parts:
                    out: set[Tag] = set()
                    for cu, e_ in parts:
                        out |= self.tags(e_, cu)
                    return out
            return {OTHER} | (shared(self.tags(v, unit)) if v is not None else set())
        if d.kind == "aug":
            prev = unit.rd.reaching(d.node, d.name) if d.node is not None else frozenset()
            return self.defs_tags(prev, unit) if prev else [OTHER]
        if d.kind == "param":
            return self.param_tags(unit, d.name)
        return [OTHER]

    # -- summaries ------------------------------------------------------
    def callees(self, call: ast.Call, unit: Unit) -> list[tuple[Unit, int]]:
        """functions of this module a call resolves to: (unit, 1 if the instance is passed implicitly)."""
        f = call.func
        if isinstance(f, ast.Attribute):
            if self.self_ref(f.value, unit):
                _, what = self.repo.lookup(unit.cls, f.attr)  # type: ignore[arg-type]
                if isinstance(what, FuncInfo) and id(what.node) in self.by_node:
                    return [(self.by_node[id(what.node)], 0 if "staticmethod" in what.decorators else 1)]
            return []
        if isinstance(f, ast.Name):
            node = unit.cfg.node_of(call)
            defs = unit.rd.reaching(node, f.id) if node is not None else frozenset()
            if defs:
                if all(d.kind == "def" and isinstance(d.stmt, (ast.FunctionDef, ast.AsyncFunctionDef)) and id(d.stmt) in self.by_node for d in defs):
                    return [(self.by_node[id(d.stmt)], 0) for d in defs]
                return []
            u = unit.outer
            while u is not None:
                if self._binds(u, f.id):
                    # a free name that the enclosing function binds only by `def`: those nested functions
                    ds = [d for dl in u.rd.gen.values() for d in dl if d.name == f.id]
                    if f.id not in u.fi.params and ds and all(d.kind == "def" and isinstance(d.stmt, (ast.FunctionDef, ast.AsyncFunctionDef)) and id(d.stmt) in self.by_node for d in ds):
                        out: list[tuple[Unit, int]] = []
                        for d in ds:
                            cu = self.by_node[id(d.stmt)]
                            if not any(cu is x for x, _ in out):
                                out.append((cu, 0))
                        return out
                    return []
                u = u.outer
            fi = self.module.functions.get(f.id)
            if fi is not None and id(fi.node) in self.by_node:
                return [(self.by_node[id(fi.node)], 0)]
        return []

    @staticmethod
    def _binds(u: Unit, name: str) -> bool:
        return name in u.fi.params or any(d.name == name for ds in u.rd.gen.values() for d in ds)

    def self_ref(self, e: ast.AST, unit: Unit) -> bool:
        """is e the instance (the enclosing method's first parameter, not rebound on the way in)?"""
        sn = unit.self_name()
        if not sn or not isinstance(e, ast.Name) or e.id != sn or unit.cls is None:
            return False
        u: Unit | None = unit
        while u is not None and u.outer is not None:
            if self._binds(u, sn):
                return False
            u = u.outer
        return u is not None and not any(d.name == sn for ds in u.rd.gen.values() for d in ds)

    def ret_tags(self, unit: Unit) -> Tags:
        def compute() -> t.Iterable[Tag]:
            out: set[Tag] = set()
            rets = [n for n in unit.walk() if isinstance(n, ast.Return)]
            gen = any(isinstance(n, (ast.Yield, ast.YieldFrom)) for n in unit.walk())
            if gen or not rets:
                out.add(OTHER)
            for r in rets:
                out |= self.tags(r.value, unit) if r.value is not None else {OTHER}
            return out

        return self._guarded(("r", id(unit)), compute)

    def call_sites(self, unit: Unit) -> list[tuple[Unit, ast.Call, int]]:
        if self._sites is None:
            self._sites = {}
            for cu in self.units:
                for n in cu.walk():
                    if isinstance(n, ast.Call):
                        for tu, off in self.callees(n, cu):
                            self._sites.setdefault(id(tu), []).append((cu, n, off))
        return self._sites.get(id(unit), [])

    def param_tags(self, unit: Unit, pname: str) -> Tags:
        def compute() -> t.Iterable[Tag]:
            fi = unit.fi
            a = fi.node.args
            pos = [x.arg for x in a.posonlyargs + a.args]
            kwonly = [x.arg for x in a.kwonlyargs]
            if pname not in pos and pname not in kwonly:
                return [OTHER]  # *args / **kwargs
            name = fi.name
            private = name.startswith("_") and not (name.startswith("__") and name.endswith("__"))
            sites = self.call_sites(unit)
            out: set[Tag] = set()
            if unit.outer is None and (not private or not sites):
                out.add(OTHER)  # callable from outside the module with anything
            if unit.outer is not None and not sites:
                out.add(OTHER)
            for cu, call, off in sites:
                how, arg = self.site_arg(unit, pname, call, off)
                if how == "arg" and arg is not None:
                    out |= self.tags(arg, cu)
                else:
                    out.add(OTHER)  # the instance itself / default value / not mappable
            return out

        return self._guarded(("p", id(unit), pname), compute)

    # -- presentation ---------------------------------------------------
    def describe(self, tags: t.Iterable[Tag]) -> str:
        parts = []
        for x in sorted(tags, key=str):
            if isinstance(x, tuple):
                u, c = self.origins[x[1]]
                parts.append(f"SHARED (`{norm(c)}` in {u.fi.qualname})")
            else:
                parts.append(x)
        return " | ".join(parts) if parts else "nothing"


# ---------------------------------------------------------------------------
# abstract execution with an empty payload


class Outcome(t.NamedTuple):
    kind: str  # return | raise | uncaught
    node: Node
    detail: str | None  # returned expression text ("None" for none) / exception name
    uncertain: bool = False  # reached only beyond a payload-dependent condition that could not be evaluated (or: a value that could not)


class Sym:
    """a value that is not known but has an identity: a module-level name (a sentinel object) - equal to itself."""

    def __init__(self, name: str):
        self.name = name

    def __eq__(self, other: object) -> bool:
        return isinstance(other, Sym) and other.name == self.name

    def __hash__(self) -> int:
        return hash(self.name)

    def __repr__(self) -> str:
        return f"<{self.name}>"


ITER_WRAPPERS = {"reversed", "iter", "sorted", "enumerate", "list", "tuple", "set", "frozenset"}


class EmptyRun:
    """Which exits can ``unit`` reach when every read of the ContextVar yields the empty container?

    Facts used: an empty container is falsy, has ``len`` 0, contains nothing, iterates zero times; indexing it with a
    non-slice subscript (or ``pop``/``popitem``/``remove``/``index`` on it) raises IndexError (list) / KeyError (dict).
    Conditions that do not depend on the payload follow both edges.
    """

    UNKNOWN = object()

    def __init__(self, flow: Flow, unit: Unit, kind: str, stack: tuple[int, ...] = (), owner: t.Any = None):
        self.flow = flow
        self.unit = unit
        self.kind = kind
        self.owner = owner if owner is not None else unit.cls  # the storage class whose payload is assumed empty
        self.exc = "KeyError" if kind == "dict" else "IndexError"
        self.decided = 0
        self.outcomes: list[Outcome] = []
        self.stack = stack + (id(unit),)
        self._subs: dict[int, "EmptyRun | None"] = {}
        self._ev_active: set[int] = set()
        self._dep_active: set[t.Any] = set()
        # nodes the run can reach at all.  A definition made on a branch that the empty payload rules out does not reach
        # the uses after the branch (`rv = None; if stack: rv = stack[-1]; return rv`): run, restrict the reaching
        # definitions to the nodes visited, run again - the visited set only shrinks, so this ends.
        self.feasible: set[int] | None = None
        for _ in range(6):
            self.decided = 0
            self.outcomes = []
            self._subs = {}
            visited = self._run()
            if self.feasible is not None and visited >= self.feasible:
                break
            self.feasible = visited if self.feasible is None else (visited & self.feasible)

    def _live(self, defs: t.Iterable[Def], u: Unit) -> list[Def]:
        if u is not self.unit or self.feasible is None:
            return list(defs)
        return [d for d in defs if d.node is None or d.node.id in self.feasible]

    # -- one level (at most two) of helper extraction ------------------------
    def sub(self, call: ast.Call) -> "EmptyRun | None":
        """the abstract run of the helper of this module that ``call`` invokes (same context: its reads of the ContextVar
        are empty too, its parameters are empty where every call site passes something empty)."""
        if id(call) in self._subs:
            return self._subs[id(call)]
        r: EmptyRun | None = None
        callees = self.flow.callees(call, self.unit)
        if len(callees) == 1 and len(self.stack) < 3:
            cu = callees[0][0]
            gen = any(isinstance(n, (ast.Yield, ast.YieldFrom)) for n in cu.walk())
            if id(cu) not in self.stack and not gen and not isinstance(cu.fi.node, ast.AsyncFunctionDef):
                r = EmptyRun(self.flow, cu, self.kind, self.stack, self.owner)
        self._subs[id(call)] = r
        return r

    def helper_calls(self, root: ast.AST | None) -> list[tuple[ast.Call, "EmptyRun"]]:
        out = []
        if root is None:
            return out
        for c in [root, *walk_no_nested(root)]:
            if isinstance(c, ast.Call):
                s = self.sub(c)
                if s is not None:
                    out.append((c, s))
        return out

    # -- emptiness ------------------------------------------------------
    def is_empty(self, e: ast.AST | None, depth: int = 0, unit: Unit | None = None) -> bool:
        u = unit or self.unit
        if e is None or depth > 6:
            return False
        if isinstance(e, ast.Call):
            f = e.func
            if self.flow.storage_method(e, u) == "get":
                return bool(e.args) and self.flow.default_kind(e.args[0], u, self.owner) is not None
            if isinstance(f, ast.Attribute) and f.attr == "copy" and not e.args:
                return self.is_empty(f.value, depth + 1, u)
            if isinstance(f, ast.Name) and f.id in ("list", "dict", "tuple") and len(e.args) == 1 and not e.keywords:
                return self.is_empty(e.args[0], depth + 1, u)
            if is_empty_literal(e) is not None:
                return True
            callees = self.flow.callees(e, u)
            if callees:
                for cu, _ in callees:
                    rets = [n for n in cu.walk() if isinstance(n, ast.Return)]
                    if not rets or not all(self.is_empty(r.value, depth + 1, cu) for r in rets):
                        return False
                return True
            return False
        if is_empty_literal(e) is not None:
            return True
        if isinstance(e, ast.Subscript) and isinstance(e.slice, ast.Slice):
            return self.is_empty(e.value, depth + 1, u)
        if isinstance(e, ast.NamedExpr):
            return self.is_empty(e.value, depth + 1, u)
        if isinstance(e, ast.Attribute) and self.flow.self_ref(e.value, u):
            _, what = self.flow.repo.lookup(u.cls, e.attr)  # type: ignore[arg-type]
            if isinstance(what, FuncInfo) and id(what.node) in self.flow.by_node and any(d.endswith("property") for d in what.decorators):
                cu = self.flow.by_node[id(what.node)]
                rets = [n for n in cu.walk() if isinstance(n, ast.Return)]
                return bool(rets) and all(self.is_empty(r.value, depth + 1, cu) for r in rets)
            return False
        if isinstance(e, ast.Name):
            node = u.cfg.node_of(e)
            if node is None:
                return False
            defs = self._live(u.rd.reaching(node, e.id), u)
            return bool(defs) and all(self._def_empty(d, depth, u) for d in defs)
        return False

    def _def_empty(self, d: Def, depth: int, u: Unit) -> bool:
        if d.kind in ("assign", "walrus") and d.index is None and d.value is not None:
            return self.is_empty(d.value, depth + 1, u)
        if d.kind == "param":
            name = u.fi.name
            private = u.outer is not None or (name.startswith("_") and not (name.startswith("__") and name.endswith("__")))
            sites = self.flow.call_sites(u)
            if not private or not sites:
                return False
            for cu, call, off in sites:
                how, arg = self.flow.site_arg(u, d.name, call, off)
                if how not in ("arg", "default") or arg is None or not self.is_empty(arg, depth + 1, cu if how == "arg" else u):
                    return False
            return True
        return False

    def iter_empty(self, e: ast.AST | None, depth: int = 0) -> bool:
        """iterating e yields nothing: the empty payload itself, a view / copy / re-ordering of it, a lazy wrapper around it."""
        if e is None or depth > 6:
            return False
        if self.is_empty(e):
            return True
        if isinstance(e, ast.NamedExpr):
            return self.iter_empty(e.value, depth + 1)
        if isinstance(e, ast.Call):
            f = e.func
            if isinstance(f, ast.Attribute) and f.attr in ("items", "keys", "values") and not e.args:
                return self.iter_empty(f.value, depth + 1)
            if isinstance(f, ast.Name) and f.id in ITER_WRAPPERS and len(e.args) >= 1 and not self.flow._locally_bound(f.id, e, self.unit):
                return self.iter_empty(e.args[0], depth + 1)
            return False
        if isinstance(e, ast.Subscript) and isinstance(e.slice, ast.Slice):
            return self.iter_empty(e.value, depth + 1)
        if isinstance(e, (ast.GeneratorExp, ast.ListComp, ast.SetComp, ast.DictComp)):
            return self.iter_empty(e.generators[0].iter, depth + 1)  # a comprehension over nothing yields nothing
        if isinstance(e, ast.Name):
            node = self.unit.cfg.node_of(e)
            defs = self.unit.rd.reaching(node, e.id) if node is not None else frozenset()
            return bool(defs) and all(d.kind in ("assign", "walrus") and d.index is None and d.value is not None and self.iter_empty(d.value, depth + 1) for d in defs)
        return False

    def depends(self, e: ast.AST | None, unit: Unit | None = None, depth: int = 0) -> bool:
        """may the value of e depend on the ContextVar payload?  (a read of the storage, a local name fed by one, a helper
        of this module that reads it, a parameter that a call site feeds from it)"""
        u = unit or self.unit
        if e is None or depth > 6:
            return e is not None
        for n in [e, *walk_no_nested(e)]:
            if isinstance(n, ast.Call):
                if self.flow.storage_method(n, u) is not None:
                    return True
                for cu, _ in self.flow.callees(n, u):
                    key = ("dep-unit", id(cu))
                    if key in self._dep_active:
                        continue
                    self._dep_active.add(key)
                    try:
                        if any(isinstance(c, ast.Call) and self.flow.storage_method(c, cu) is not None for c in cu.walk()):
                            return True
                    finally:
                        self._dep_active.discard(key)
            elif isinstance(n, ast.Attribute) and self.flow.self_ref(n.value, u) and u.cls is not None:
                _, what = self.flow.repo.lookup(u.cls, n.attr)
                if isinstance(what, FuncInfo) and id(what.node) in self.flow.by_node:
                    cu = self.flow.by_node[id(what.node)]
                    if any(isinstance(c, ast.Call) and self.flow.storage_method(c, cu) is not None for c in cu.walk()):
                        return True
            elif isinstance(n, ast.Name) and isinstance(n.ctx, ast.Load):
                node = u.cfg.node_of(n)
                for d in (u.rd.reaching(node, n.id) if node is not None else ()):
                    key = ("dep-def", id(d))
                    if key in self._dep_active:
                        continue
                    self._dep_active.add(key)
                    try:
                        if d.kind == "param":
                            for cu, call, off in self.flow.call_sites(u):
                                how, arg = self.flow.site_arg(u, d.name, call, off)
                                if how == "arg" and arg is not None and self.depends(arg, cu, depth + 1):
                                    return True
                        elif d.value is not None and self.depends(d.value, u, depth + 1):
                            return True
                    finally:
                        self._dep_active.discard(key)
        return False

    def _name_value(self, e: ast.Name) -> t.Any:
        U = self.UNKNOWN
        u = self.unit
        node = u.cfg.node_of(e)
        if node is None or bound_in_enclosing_comp(e, u.fi.node) is not None:
            return U
        defs = u.rd.reaching(node, e.id)
        if defs:
            defs = frozenset(self._live(defs, u))
            if not defs:
                return U
        if not defs:
            # a free name that no enclosing function binds: a module-level object with an identity of its own (a sentinel)
            o = u.outer
            while o is not None:
                if Flow._binds(o, e.id):
                    return U
                o = o.outer
            if e.id in self.flow.module.assigns or e.id in self.flow.module.functions or e.id in self.flow.module.classes:
                return Sym(e.id)
            return U
        vals: list[t.Any] = []
        for d in defs:
            if id(d) in self._ev_active:
                return U
            self._ev_active.add(id(d))
            try:
                if d.kind in ("assign", "walrus") and d.index is None and d.value is not None:
                    v = self.ev(d.value)
                elif d.kind == "unpack" and isinstance(d.value, (ast.Tuple, ast.List)) and d.index is not None and d.index < len(d.value.elts) and not any(isinstance(x, ast.Starred) for x in d.value.elts) \
                        and isinstance(getattr(d.target, "_parent", None), (ast.Tuple, ast.List)) and len(getattr(d.target, "_parent").elts) == len(d.value.elts) \
                        and not any(isinstance(x, ast.Starred) for x in getattr(d.target, "_parent").elts):
                    v = self.ev(d.value.elts[d.index])
                else:
                    v = U
            finally:
                self._ev_active.discard(id(d))
            if v is U:
                return U
            vals.append(v)
        v0 = vals[0]
        for w in vals[1:]:
            if type(w) is not type(v0) or w != v0:
                return U
        return v0

    def ev(self, e: ast.AST) -> t.Any:
        """value of e when the payload is empty, or UNKNOWN.  Small pure expressions only: constants, the empty container,
        len / bool / not / comparisons / integer arithmetic over known values, conditional expressions, local names whose
        every reaching definition has the same known value, `next(iter(<empty>), d)`, `<empty dict>.get(k, d)`, any/all over
        nothing, helpers of this module whose abstract run returns one known value."""
        U = self.UNKNOWN
        if isinstance(e, ast.Constant):
            return e.value
        if isinstance(e, ast.NamedExpr):
            return self.ev(e.value)
        if self.is_empty(e):
            return [] if self.kind != "dict" else {}
        if isinstance(e, ast.Name):
            return self._name_value(e)
        if isinstance(e, ast.IfExp):
            v = self.ev(e.test)
            if v is U:
                a, b = self.ev(e.body), self.ev(e.orelse)
                return a if (a is not U and b is not U and type(a) is type(b) and a == b) else U
            return self.ev(e.body if v else e.orelse)
        if isinstance(e, ast.Call) and isinstance(e.func, ast.Name) and not e.keywords and not self.flow._locally_bound(e.func.id, e, self.unit):
            fn = e.func.id
            if fn == "len" and len(e.args) == 1:
                if self.iter_empty(e.args[0]):
                    return 0
                v = self.ev(e.args[0])
                return len(v) if isinstance(v, (list, dict, str, bytes, tuple)) else U
            if fn == "bool" and len(e.args) == 1:
                v = self.ev(e.args[0])
                return U if v is U or isinstance(v, Sym) else bool(v)
            if fn == "next" and len(e.args) == 2 and self.iter_empty(e.args[0]):
                return self.ev(e.args[1])
            if fn in ("any", "all") and len(e.args) == 1:
                a0 = e.args[0]
                if self.iter_empty(a0) or (isinstance(a0, (ast.GeneratorExp, ast.ListComp, ast.SetComp)) and self.iter_empty(a0.generators[0].iter)):
                    return fn == "all"
                return U
        if isinstance(e, ast.Call) and isinstance(e.func, ast.Attribute) and e.func.attr in ("get", "pop") and self.kind == "dict" and not e.keywords \
                and self.flow.storage_method(e, self.unit) is None and self.is_empty(e.func.value):
            if len(e.args) == 2:
                return self.ev(e.args[1])
            if len(e.args) == 1 and e.func.attr == "get":
                return None
            return U
        if isinstance(e, ast.UnaryOp) and isinstance(e.op, ast.Not):
            v = self.ev(e.operand)
            return U if v is U or isinstance(v, Sym) else (not v)
        if isinstance(e, ast.UnaryOp) and isinstance(e.op, (ast.USub, ast.UAdd)):
            v = self.ev(e.operand)
            return (-v if isinstance(e.op, ast.USub) else v) if type(v) is int else U
        if isinstance(e, ast.BinOp) and isinstance(e.op, (ast.Add, ast.Sub, ast.Mult, ast.FloorDiv, ast.Mod)):
            a, b = self.ev(e.left), self.ev(e.right)
            if type(a) is int and type(b) is int:
                try:
                    return {ast.Add: a.__add__, ast.Sub: a.__sub__, ast.Mult: a.__mul__, ast.FloorDiv: a.__floordiv__, ast.Mod: a.__mod__}[type(e.op)](b)
                except ZeroDivisionError:
                    return U
            return U
        if isinstance(e, ast.Call):
            s = self.sub(e)
            if s is not None and s.outcomes and all(o.kind == "return" and not o.uncertain for o in s.outcomes):
                vals = []
                for o in s.outcomes:
                    rv = o.node.ast.value if isinstance(o.node.ast, ast.Return) else None
                    v = None if rv is None else s.ev(rv)
                    if v is U or isinstance(v, (list, dict)) or any(v is not w and v != w for w in vals):
                        return U
                    vals.append(v)
                self.decided += s.decided
                return vals[0]
            return U
        if isinstance(e, ast.BoolOp):
            res: t.Any = U
            for v_ in e.values:
                v = self.ev(v_)
                if v is U or isinstance(v, Sym):
                    return U
                res = v
                if isinstance(e.op, ast.And) and not v:
                    return v
                if isinstance(e.op, ast.Or) and v:
                    return v
            return res
        if isinstance(e, ast.Compare) and len(e.ops) == 1:
            op = e.ops[0]
            if isinstance(op, (ast.In, ast.NotIn)):
                if self.iter_empty(e.comparators[0]):
                    return isinstance(op, ast.NotIn)
                return U
            a, b = self.ev(e.left), self.ev(e.comparators[0])
            if a is U or b is U:
                return U
            if isinstance(a, Sym) or isinstance(b, Sym):
                if isinstance(a, Sym) and isinstance(b, Sym) and a == b and isinstance(op, (ast.Is, ast.Eq, ast.IsNot, ast.NotEq)):
                    return isinstance(op, (ast.Is, ast.Eq))
                return U
            try:
                if isinstance(op, ast.Eq):
                    return a == b
                if isinstance(op, ast.NotEq):
                    return a != b
                if isinstance(op, ast.Is):
                    return (a is None and b is None) if (a is None or b is None) else U
                if isinstance(op, ast.IsNot):
                    return (not (a is None and b is None)) if (a is None or b is None) else U
                if isinstance(op, ast.Lt):
                    return a < b
                if isinstance(op, ast.LtE):
                    return a <= b
                if isinstance(op, ast.Gt):
                    return a > b
                if isinstance(op, ast.GtE):
                    return a >= b
            except TypeError:
                return U
        return U

    def _raising(self, root: ast.AST | None) -> bool:
        """does evaluating root index / pop the empty payload (outside a decided-away branch)?"""
        if root is None:
            return False
        stack = [root]
        while stack:
            n = stack.pop()
            if isinstance(n, (ast.FunctionDef, ast.AsyncFunctionDef, ast.Lambda)) and n is not root:
                continue
            if isinstance(n, ast.IfExp):
                v = self.ev(n.test)
                if v is not self.UNKNOWN and not isinstance(v, Sym):
                    self.decided += 1
                    stack.append(n.test)
                    stack.append(n.body if v else n.orelse)
                    continue
            if isinstance(n, ast.BoolOp):
                # operands after a deciding one are not evaluated
                for v_ in n.values:
                    stack.append(v_)
                    v = self.ev(v_)
                    if v is not self.UNKNOWN and not isinstance(v, Sym) and ((isinstance(n.op, ast.And) and not v) or (isinstance(n.op, ast.Or) and v)):
                        self.decided += 1
                        break
                continue
            if isinstance(n, ast.Subscript) and not isinstance(n.slice, ast.Slice) and isinstance(n.ctx, (ast.Load, ast.Del)) and self.is_empty(n.value):
                return True
            if isinstance(n, ast.Call) and isinstance(n.func, ast.Attribute) and n.func.attr in ("popitem", "remove", "index") and self.is_empty(n.func.value):
                return True
            if isinstance(n, ast.Call) and isinstance(n.func, ast.Attribute) and n.func.attr == "pop" and self.is_empty(n.func.value) and (self.kind != "dict" or len(n.args) < 2):
                return True
            stack.extend(ast.iter_child_nodes(n))
        return False

    def _value(self, e: ast.AST | None) -> tuple[str, bool]:
        """(text of what a return yields - 'None' when it certainly is None -, True when the value could not be worked out)."""
        if e is None:
            return "None", False
        if isinstance(e, ast.IfExp):
            v = self.ev(e.test)
            if v is not self.UNKNOWN and not isinstance(v, Sym):
                return self._value(e.body if v else e.orelse)
        v = self.ev(e)
        if v is not self.UNKNOWN and not isinstance(e, ast.Constant) and self.depends(e):
            self.decided += 1  # the value itself was decided by the payload being empty
        if v is None:
            return "None", False
        return norm(e), v is self.UNKNOWN or isinstance(v, Sym)

    def _exc_targets(self, n: Node, exc: str | None) -> list[Node]:
        return [s for s, l in n.succs if l == "exc" and isinstance(s.ast, ast.ExceptHandler) and handler_catches(s.ast, exc)]

    def _run(self) -> set[int]:
        cfg = self.unit.cfg
        U = self.UNKNOWN
        seen: dict[int, bool] = {}  # node id -> visited as uncertain only?
        work: list[tuple[Node, bool]] = [(cfg.entry, False)]

        def push(nodes: t.Iterable[Node], unc: bool) -> None:
            work.extend((s, unc) for s in nodes)

        while work:
            n, unc = work.pop()
            if n.id in seen and (not seen[n.id] or unc):
                continue
            seen[n.id] = unc
            a = n.ast
            if n is cfg.exit or n is cfg.raise_exit:
                continue
            if n.kind == "test":
                if self._raising(a):
                    self._raise(n, self.exc, work, implicit=True, unc=unc)
                    continue
                v = self.ev(a)  # type: ignore[arg-type]
                if v is not U and not isinstance(v, Sym):
                    self.decided += 1
                    lab = "T" if v else "F"
                    push((s for s, l in n.succs if l == lab), unc)
                    continue
                push((s for s, l in n.succs if l != "exc"), unc or self.depends(a))
                continue
            if n.kind == "loop" and isinstance(a, (ast.For, ast.AsyncFor)):
                if self.iter_empty(a.iter):
                    self.decided += 1
                    push((s for s, l in n.succs if l == "F"), unc)
                else:
                    push((s for s, l in n.succs if l != "exc"), unc or self.depends(a.iter))
                continue
            if isinstance(a, ast.Raise):
                name = raised_class(self.unit, a, self.flow)
                self._raise(n, name, work, implicit=False, unc=unc or (name or "").startswith("?"))
                continue
            if n.kind == "stmt" and a is not None and not isinstance(a, (ast.FunctionDef, ast.AsyncFunctionDef, ast.ClassDef)) and self._raising(a):
                self._raise(n, self.exc, work, implicit=True, unc=unc)
                continue
            if n.kind == "stmt" and a is not None and not isinstance(a, (ast.FunctionDef, ast.AsyncFunctionDef, ast.ClassDef)):
                # helpers of this module called here: what they raise with an empty payload is raised here
                goes_on = True
                for c_, s_ in self.helper_calls(a):
                    self.decided += s_.decided
                    for o in s_.outcomes:
                        if o.kind in ("raise", "uncaught"):
                            self._raise(n, o.detail, work, implicit=o.kind == "uncaught", count=False, unc=unc or o.uncertain)
                    if not any(o.kind == "return" for o in s_.outcomes):
                        goes_on = False
                    elif isinstance(a, ast.Return) and self._through(a.value) is c_:
                        for o in s_.outcomes:
                            if o.kind == "return":
                                self.outcomes.append(Outcome("return", n, o.detail, unc or o.uncertain))
                        goes_on = False
                if not goes_on:
                    continue
            if isinstance(a, ast.Return):
                text, unknown = self._value(a.value)
                self.outcomes.append(Outcome("return", n, text, unc or unknown))
                continue
            push((s for s, l in n.succs if l != "exc"), unc)
        # the same exit reached with and without doubt: the certain visit counts
        certain = {(o.kind, o.node.id, o.detail) for o in self.outcomes if not o.uncertain}
        uniq: list[Outcome] = []
        for o in self.outcomes:
            if (o.uncertain and (o.kind, o.node.id, o.detail) in certain) or o in uniq:
                continue
            uniq.append(o)
        self.outcomes = uniq
        return set(seen)

    @staticmethod
    def _through(e: ast.AST | None) -> ast.AST | None:
        """the expression a return hands on unchanged (typing.cast, parentheses)."""
        while isinstance(e, ast.Call) and (dotted(e.func) or "").endswith("cast") and len(e.args) == 2:
            e = e.args[1]
        return e

    def _raise(self, n: Node, exc: str | None, work: list[tuple[Node, bool]], implicit: bool, count: bool = True, unc: bool = False) -> None:
        hs = self._exc_targets(n, exc)
        if hs:
            if implicit and count:
                self.decided += 1
            work.append((hs[0], unc))
        else:
            self.outcomes.append(Outcome("uncaught" if implicit else "raise", n, exc, unc))

    def summary(self) -> str:
        return "; ".join(f"{o.kind} {o.detail} (L{o.node.lineno}{', unsure' if o.uncertain else ''})" for o in self.outcomes) or "no exit reached"


# ---------------------------------------------------------------------------
# abstract execution of a constructor on "the argument is ONE object of class K"


class CannotFollow(Exception):
    pass


class _Arg:
    """the argument object itself."""

    def __deepcopy__(self, memo: dict) -> "_Arg":
        return self

    def __repr__(self) -> str:
        return "<the argument>"


class _Item(_Arg):
    """something obtained by iterating the argument object."""

    def __repr__(self) -> str:
        return "<an item the argument yields>"


class _Unk(_Arg):
    def __repr__(self) -> str:
        return "<unknown>"


ARG, ITEM, UNKV = _Arg(), _Item(), _Unk()


class Cont:
    """a container (or iterator) created by the analysed code; ``elems``: what it may hold - "ARG" the argument object,
    "ITEMS" items obtained by iterating the argument, "?" anything else."""

    def __init__(self, elems: t.Iterable[str] = ()):
        self.elems = set(elems)

    def __repr__(self) -> str:
        return f"<container of {sorted(self.elems) or 'nothing'}>"


_ABC_NEEDS = {"Iterable": ("__iter__",), "Iterator": ("__iter__", "__next__"), "Sized": ("__len__",), "Container": ("__contains__",), "Callable": ("__call__",),
              "Collection": ("__iter__", "__len__", "__contains__"), "Reversible": ("__iter__", "__reversed__"), "Hashable": ("__hash__",)}
_NOMINAL = {"list", "tuple", "set", "frozenset", "dict", "str", "bytes", "bytearray", "int", "float", "bool", "Sequence", "MutableSequence", "Mapping", "MutableMapping",
            "Set", "MutableSet", "Generator", "deque"}
_COLLECT = {"list", "tuple", "set", "frozenset", "sorted", "reversed", "iter", "deque", "collections.deque"}


class SingleObjectRun:
    """Follow one function (a constructor) statement by statement with parameter ``pname`` bound to ONE object of class
    ``klass`` - facts about that object come from the class table: `isinstance` against the classes of its MRO (abstract
    base classes of collections.abc / typing by the methods they require), `hasattr` / `callable` by the names its
    classes define, truthiness (true unless a class defines __bool__ / __len__), and whether iterating it works: a class
    whose MRO defines __iter__ (or __getitem__) yields *its items* - not itself - and any other class raises TypeError,
    which goes to the `except` clauses that cover it.  Containers built on the way record what they may hold (the
    argument itself / items the argument yields / something else) through literals, list()/tuple()/..., comprehensions,
    `+`, `.copy()`, append / extend / insert / add / update / `+=`, local names, conditional expressions and helpers of
    the module (functions and generators) that are handed the value.  A test that is not decided by these facts forks
    the run.  ``outcomes()``: [(what self.<attr> holds at the end | None, exception name | None)] over all runs."""

    MAX_PATHS = 400

    def __init__(self, flow: Flow, unit: Unit, pname: str, klass: t.Any, attr: str):
        self.flow, self.unit, self.pname, self.klass, self.attr = flow, unit, pname, klass, attr
        self.names: set[str] = set()
        for k in flow.repo.mro(klass):
            self.names |= set(getattr(k, "methods", {}) or {})
            self.names |= set(getattr(k, "attrs", {}) or {})
            self.names |= set(getattr(k, "method_names", ()) or ())
        self.mro_fq = {getattr(k, "fq", None) for k in flow.repo.mro(klass)}
        self.iterable = bool({"__iter__", "__getitem__"} & self.names)
        self.paths = 0

    # -- facts -------------------------------------------------------------
    def _is_instance(self, te: ast.AST, u: Unit) -> bool | None:
        if isinstance(te, ast.Tuple):
            rs = [self._is_instance(x, u) for x in te.elts]
            if any(r is True for r in rs):
                return True
            return None if any(r is None for r in rs) else False
        d = dotted(te)
        if d is None:
            return None
        fq = self.flow.repo.resolve(self.flow.module, d) or d
        if fq.startswith("werkzeug."):
            k = self.flow.repo.try_cls(fq)
            return None if k is None else (k.fq in self.mro_fq)
        last = fq.rsplit(".", 1)[-1]
        head = fq.split(".", 1)[0]
        if head in ("builtins", "collections", "typing", "t", "cabc") or fq == last:
            if last == "object":
                return True
            if last in _ABC_NEEDS:
                return all(n in self.names for n in _ABC_NEEDS[last])
            if last in _NOMINAL:
                return False
        return None

    def truth(self, v: t.Any) -> set[bool]:
        if v is ARG:
            return {True, False} if {"__bool__", "__len__"} & self.names else {True}
        if v is None or v is False or v == 0 and isinstance(v, (int, float)) and not isinstance(v, bool):
            return {False}
        if isinstance(v, Cont):
            if not v.elems:
                return {False}
            return {True} if "ARG" in v.elems else {True, False}  # items / unknown elements: zero or more of them
        if isinstance(v, (bool, int, float, str, bytes)):
            return {bool(v)}
        return {True, False}

    def iterate(self, v: t.Any) -> tuple[set[str], str | None]:
        if v is ARG:
            return ({"ITEMS"}, None) if self.iterable else (set(), "TypeError")
        if isinstance(v, Cont):
            return set(v.elems), None
        if v is None or isinstance(v, (bool, int, float)):
            return set(), "TypeError"
        return {"?"}, None

    @staticmethod
    def tag(v: t.Any) -> str:
        return "ARG" if v is ARG else "ITEMS" if v is ITEM else "?"

    @staticmethod
    def untag(tg: str) -> t.Any:
        return ARG if tg == "ARG" else ITEM if tg == "ITEMS" else UNKV

    # -- expressions: list of (value, exception name | None) ---------------------
    def ev(self, e: ast.AST | None, st: dict, u: Unit) -> list[tuple[t.Any, str | None]]:
        if e is None:
            return [(None, None)]
        if isinstance(e, ast.Constant):
            return [(e.value, None)]
        if isinstance(e, ast.Name):
            if e.id in st["env"]:
                return [(st["env"][e.id], None)]
            fqn = self.flow.repo.resolve(self.flow.module, e.id) or ""
            if fqn.startswith("werkzeug.") and self.flow.repo.try_cls(fqn) is not None:
                return [(("class", fqn), None)]
            return [(UNKV, None)]
        if isinstance(e, ast.NamedExpr):
            out = self.ev(e.value, st, u)
            if len(out) == 1 and out[0][1] is None:
                st["env"][e.target.id] = out[0][0]
            else:
                st["env"][e.target.id] = UNKV
            return out
        if isinstance(e, ast.Attribute):
            if self.flow.self_ref(e.value, u) and u is self.unit:
                return [(st["attrs"].get(mangle(u.clsname, e.attr), UNKV), None)]
            if e.attr == "__class__" and isinstance(e.value, ast.Name) and st["env"].get(e.value.id) is ARG:
                return [(("class", self.klass.fq), None)]
            return [(UNKV, None)]
        if isinstance(e, (ast.List, ast.Tuple, ast.Set)):
            elems: set[str] = set()
            for x in e.elts:
                if isinstance(x, ast.Starred):
                    for v, exc in self.ev(x.value, st, u):
                        if exc:
                            return [(None, exc)]
                        got, exc2 = self.iterate(v)
                        if exc2:
                            return [(None, exc2)]
                        elems |= got
                else:
                    for v, exc in self.ev(x, st, u):
                        if exc:
                            return [(None, exc)]
                        elems.add(self.tag(v))
            return [(Cont(elems), None)]
        if isinstance(e, (ast.ListComp, ast.SetComp, ast.GeneratorExp)):
            if len(e.generators) != 1 or e.generators[0].is_async:
                return [(Cont({"?"}), None)]
            g = e.generators[0]
            res: list[tuple[t.Any, str | None]] = []
            for v, exc in self.ev(g.iter, st, u):
                if exc:
                    res.append((None, exc))
                    continue
                got, exc2 = self.iterate(v)
                if exc2:
                    res.append((None, exc2))
                    continue
                elems = set()
                for tg in got:
                    st2 = {"env": dict(st["env"]), "attrs": st["attrs"]}
                    if isinstance(g.target, ast.Name):
                        st2["env"][g.target.id] = self.untag(tg)
                    else:
                        for nm in [x.id for x in ast.walk(g.target) if isinstance(x, ast.Name)]:
                            st2["env"][nm] = UNKV
                    keep = {True}
                    for c in g.ifs:
                        ts = self.test(c, st2, u)
                        keep = {a and b for a in keep for b in ts}
                    if True in keep:
                        for ev_, _x in self.ev(e.elt, st2, u):
                            elems.add(self.tag(ev_))
                res.append((Cont(elems), None))
            return res
        if isinstance(e, ast.IfExp):
            out = []
            ts = self.test(e.test, st, u)
            if True in ts:
                out += self.ev(e.body, st, u)
            if False in ts:
                out += self.ev(e.orelse, st, u)
            return out
        if isinstance(e, ast.BoolOp):
            outs: list[tuple[t.Any, str | None]] = []
            cur = self.ev(e.values[0], st, u)
            for nxt in e.values[1:]:
                new: list[tuple[t.Any, str | None]] = []
                for v, exc in cur:
                    if exc:
                        outs.append((None, exc))
                        continue
                    ts = self.truth(v)
                    stop = False if isinstance(e.op, ast.And) else True
                    if stop in ts:
                        outs.append((v, None))
                    if (not stop) in ts:
                        new += self.ev(nxt, st, u)
                cur = new
            return outs + cur
        if isinstance(e, ast.UnaryOp) and isinstance(e.op, ast.Not):
            return [(not b, None) for b in sorted(self.test(e.operand, st, u))]
        if isinstance(e, ast.Compare):
            return [(b, None) for b in sorted(self.test(e, st, u))]
        if isinstance(e, ast.BinOp) and isinstance(e.op, (ast.Add, ast.BitOr)):
            out = []
            for a, ea in self.ev(e.left, st, u):
                for b, eb in self.ev(e.right, st, u):
                    if ea or eb:
                        out.append((None, ea or eb))
                    elif isinstance(a, Cont) and isinstance(b, Cont):
                        out.append((Cont(a.elems | b.elems), None))
                    elif a is ARG or b is ARG or a is None or b is None:
                        out.append((None, "TypeError"))
                    else:
                        out.append((UNKV, None))
            return out
        if isinstance(e, ast.Subscript):
            out = []
            for v, exc in self.ev(e.value, st, u):
                if exc:
                    out.append((None, exc))
                elif isinstance(v, Cont) and isinstance(e.slice, ast.Slice):
                    out.append((Cont(v.elems), None))
                elif isinstance(v, Cont):
                    out += [(self.untag(tg), None) for tg in sorted(v.elems)] or [(None, "IndexError")]
                else:
                    out.append((UNKV, None))
            return out
        if isinstance(e, ast.Call):
            return self.call(e, st, u)
        if isinstance(e, ast.Starred):
            return self.ev(e.value, st, u)
        if isinstance(e, (ast.JoinedStr, ast.Dict, ast.Lambda, ast.DictComp)):
            return [(UNKV, None)]
        if isinstance(e, (ast.Await, ast.Yield, ast.YieldFrom)):
            raise CannotFollow(f"`{norm(e)}`")
        return [(UNKV, None)]

    def test(self, e: ast.AST, st: dict, u: Unit) -> set[bool]:
        out = self._test(e, st, u)
        if len(out) > 1 and any(isinstance(x, ast.Name) and st["env"].get(x.id) is ARG for x in ast.walk(e)):
            st.setdefault("undecided", []).append(norm(e))  # the facts about the argument's class do not decide this test
        return out

    def _test(self, e: ast.AST, st: dict, u: Unit) -> set[bool]:
        if isinstance(e, ast.UnaryOp) and isinstance(e.op, ast.Not):
            return {not b for b in self.test(e.operand, st, u)}
        if isinstance(e, ast.BoolOp):
            acc = {True} if isinstance(e.op, ast.And) else {False}
            for x in e.values:
                ts = self.test(x, st, u)
                if isinstance(e.op, ast.And):
                    acc = ({False} if False in acc else set()) | ({False} & ts if True in acc else set()) | ({True} if True in acc and True in ts else set())
                else:
                    acc = ({True} if True in acc else set()) | ({True} & ts if False in acc else set()) | ({False} if False in acc and False in ts else set())
            return acc
        if isinstance(e, ast.Compare) and len(e.ops) == 1:
            op = e.ops[0]
            ls, rs = self.ev(e.left, st, u), self.ev(e.comparators[0], st, u)
            out: set[bool] = set()
            for a, ea in ls:
                for b, eb in rs:
                    if ea or eb:
                        raise CannotFollow(f"`{norm(e)}` raises {ea or eb}")
                    if isinstance(op, (ast.Is, ast.IsNot, ast.Eq, ast.NotEq)):
                        same: bool | None
                        concrete = lambda v: v is None or isinstance(v, (bool, int, str, bytes, float))  # noqa: E731
                        iscls = lambda v: isinstance(v, tuple) and len(v) == 2 and v[0] == "class"  # noqa: E731
                        if iscls(a) and iscls(b):
                            same = a == b
                        elif a is ARG and b is ARG:
                            same = True
                        elif (a is ARG and (concrete(b) or isinstance(b, Cont))) or (b is ARG and (concrete(a) or isinstance(a, Cont))):
                            same = False
                        elif concrete(a) and concrete(b):
                            same = (a is b) if isinstance(op, (ast.Is, ast.IsNot)) and (a is None or b is None) else (a == b)
                        elif isinstance(a, Cont) and b is None or isinstance(b, Cont) and a is None:
                            same = False
                        else:
                            same = None
                        if same is None:
                            out |= {True, False}
                        else:
                            out.add(same if isinstance(op, (ast.Is, ast.Eq)) else not same)
                    else:
                        out |= {True, False}
            return out
        out = set()
        for v, exc in self.ev(e, st, u):
            if exc:
                raise CannotFollow(f"the condition `{norm(e)}` raises {exc}")
            out |= self.truth(v)
        return out

    def call(self, e: ast.Call, st: dict, u: Unit) -> list[tuple[t.Any, str | None]]:
        f = e.func
        d = dotted(f)
        shadowed = isinstance(f, ast.Name) and f.id in st["env"]
        if any(k.arg is None for k in e.keywords):
            return [(UNKV, None)]

        def args1() -> list[tuple[t.Any, str | None]]:
            return self.ev(e.args[0], st, u) if e.args and not isinstance(e.args[0], ast.Starred) else [(UNKV, None)]

        fq = None if shadowed or d is None else (self.flow.repo.resolve(self.flow.module, d) or d)
        last = fq.rsplit(".", 1)[-1] if fq else None
        plain = fq is not None and (fq == last or fq.startswith(("builtins.", "collections.", "typing.", "itertools.", "copy.")))
        if plain and (last in _COLLECT) and len(e.args) <= 1 and not e.keywords:
            if not e.args:
                return [(Cont(), None)]
            out = []
            for v, exc in args1():
                if exc:
                    out.append((None, exc))
                    continue
                got, exc2 = self.iterate(v)
                out.append((None, exc2) if exc2 else (Cont(got), None))
            return out
        if plain and last in ("sorted",) and e.args:
            out = []
            for v, exc in args1():
                got, exc2 = self.iterate(v) if not exc else (set(), exc)
                out.append((None, exc2) if exc2 else (Cont(got), None))
            return out
        if plain and last == "filter" and len(e.args) == 2:
            out = []
            for v, exc in self.ev(e.args[1], st, u):
                got, exc2 = self.iterate(v) if not exc else (set(), exc)
                out.append((None, exc2) if exc2 else (Cont(got), None))
            return out
        if plain and last in ("map", "zip", "enumerate"):
            for a in e.args[(1 if last == "map" else 0):]:
                for v, exc in self.ev(a, st, u):
                    _got, exc2 = self.iterate(v) if not exc else (set(), exc)
                    if exc2:
                        return [(None, exc2)]
            return [(Cont({"?"}), None)]
        if plain and last == "chain" and not e.keywords:
            elems: set[str] = set()
            for a in e.args:
                if isinstance(a, ast.Starred):
                    return [(Cont({"?"}), None)]
                for v, exc in self.ev(a, st, u):
                    got, exc2 = self.iterate(v) if not exc else (set(), exc)
                    if exc2:
                        return [(None, exc2)]
                    elems |= got
            return [(Cont(elems), None)]
        if plain and last == "type" and len(e.args) == 1 and not e.keywords:
            return [((("class", self.klass.fq) if v is ARG else UNKV), exc) for v, exc in args1()]
        if plain and last == "issubclass" and len(e.args) == 2 and not e.keywords:
            out = []
            for v, exc in args1():
                r = self._is_instance(e.args[1], u) if v == ("class", self.klass.fq) else None
                out += [(True, None), (False, None)] if r is None else [(r, None)]
            return out
        if plain and last == "cast" and len(e.args) == 2:
            return self.ev(e.args[1], st, u)
        if plain and last == "isinstance" and len(e.args) == 2:
            out = []
            for v, exc in args1():
                if v is ARG:
                    r = self._is_instance(e.args[1], u)
                    out += [(True, None), (False, None)] if r is None else [(r, None)]
                elif v is None or isinstance(v, Cont):
                    dd = dotted(e.args[1])
                    r2 = None
                    if dd is not None and not isinstance(e.args[1], ast.Tuple):
                        fq2 = self.flow.repo.resolve(self.flow.module, dd) or dd
                        if fq2.startswith("werkzeug.") and self.flow.repo.try_cls(fq2) is not None:
                            r2 = False  # None / a builtin container is no instance of a class of the package
                    out += [(True, None), (False, None)] if r2 is None else [(r2, None)]
                else:
                    out += [(True, None), (False, None)]
            return out
        if plain and last == "hasattr" and len(e.args) == 2:
            nm = const_str(e.args[1])
            out = []
            for v, exc in args1():
                if v is ARG and nm is not None and nm in self.names:
                    out.append((True, None))
                elif v is ARG and nm is not None and not ({"__getattr__", "__getattribute__"} & self.names):
                    out.append((False, None))
                else:
                    out += [(True, None), (False, None)]  # an instance __getattr__ may answer for names the classes do not define
            return out
        if plain and last == "callable" and len(e.args) == 1:
            return [("__call__" in self.names, None) if v is ARG else (UNKV, None) for v, _ in args1()]
        if plain and last == "bool" and len(e.args) == 1:
            out = []
            for v, exc in args1():
                out += [(b, None) for b in sorted(self.truth(v))]
            return out
        if plain and last == "len" and len(e.args) == 1:
            out = []
            for v, exc in args1():
                if v is ARG and "__len__" not in self.names:
                    out.append((None, "TypeError"))
                elif isinstance(v, Cont) and not v.elems:
                    out.append((0, None))
                else:
                    out.append((UNKV, None))
            return out
        if d in ("object.__setattr__", "setattr", "super().__setattr__") and len(e.args) == 3 and self.flow.self_ref(e.args[0], u) and u is self.unit:
            nm = const_str(e.args[1])
            vals = self.ev(e.args[2], st, u)
            if nm is None or len(vals) != 1:
                raise CannotFollow(f"`{norm(e)}`")
            if vals[0][1]:
                return [(None, vals[0][1])]
            st["attrs"][nm] = vals[0][0]
            return [(None, None)]
        if isinstance(f, ast.Attribute):
            recvs = self.ev(f.value, st, u)
            if len(recvs) == 1 and isinstance(recvs[0][0], Cont) and recvs[0][1] is None:
                c = recvs[0][0]
                if f.attr in ("append", "add", "insert") and e.args:
                    vals = self.ev(e.args[-1], st, u)
                    for v, exc in vals:
                        if exc:
                            return [(None, exc)]
                        c.elems.add(self.tag(v))
                    return [(None, None)]
                if f.attr in ("extend", "update", "extendleft") and len(e.args) == 1:
                    for v, exc in self.ev(e.args[0], st, u):
                        got, exc2 = self.iterate(v) if not exc else (set(), exc)
                        if exc2:
                            return [(None, exc2)]
                        c.elems |= got
                    return [(None, None)]
                if f.attr in ("copy", "__copy__") and not e.args:
                    return [(Cont(c.elems), None)]
                if f.attr in ("clear",):
                    c.elems.clear()
                    return [(None, None)]
                if f.attr in ("__iter__",):
                    return [(Cont(c.elems), None)]
                return [(UNKV, None)]
            if len(recvs) == 1 and recvs[0][0] is ARG and f.attr == "__iter__" and not e.args:
                got, exc2 = self.iterate(ARG)
                return [(None, "AttributeError")] if exc2 else [(Cont(got), None)]
        callees = self.flow.callees(e, u)
        if len(callees) == 1:
            return self.run_callee(callees[0][0], callees[0][1], e, st, u)
        # code the analysis does not see: if it is handed the argument (or a container made from it) its result is unknown
        return [(UNKV, None)]

    def run_callee(self, cu: Unit, off: int, call: ast.Call, st: dict, u: Unit, depth: int = 0) -> list[tuple[t.Any, str | None]]:
        if len(st.get("stack", ())) > 3 or any(x is cu for x in st.get("stack", ())):
            return [(UNKV, None)]
        a = cu.fi.node.args
        names = [x.arg for x in a.posonlyargs + a.args + a.kwonlyargs]
        env: dict[str, t.Any] = {}
        for nm in names:
            how, arg = self.flow.site_arg(cu, nm, call, off)
            if how == "arg" and arg is not None:
                vals = self.ev(arg, st, u)
                if len(vals) != 1:
                    raise CannotFollow(f"argument `{norm(arg)}` of `{norm(call)}` has several possible values")
                if vals[0][1]:
                    return [(None, vals[0][1])]
                env[nm] = vals[0][0]
            elif how == "default" and arg is not None:
                vals = self.ev(arg, {"env": {}, "attrs": {}}, cu)
                env[nm] = vals[0][0] if len(vals) == 1 and not vals[0][1] else UNKV
            else:
                env[nm] = UNKV
        gen = any(isinstance(n, (ast.Yield, ast.YieldFrom)) for n in cu.walk())
        st0 = {"env": env, "attrs": st["attrs"] if off and cu.cls is self.unit.cls else {}, "stack": tuple(st.get("stack", ())) + (u,), "yields": Cont() if gen else None}
        out: list[tuple[t.Any, str | None]] = []
        for st1, how2, val in self.block(cu.fi.node.body, st0, cu):
            if how2 == "raise":
                out.append((None, val))
            elif gen:
                out.append((st1["yields"], None))
            else:
                out.append((val if how2 == "return" else None, None))
        return out

    # -- statements: list of (state, "next" | "return" | "raise" | "break" | "continue", value) ------------------
    def fork(self, st: dict) -> dict:
        import copy

        self.paths += 1
        if self.paths > self.MAX_PATHS:
            raise CannotFollow("too many paths")
        keep = st.get("stack", ())
        st2 = copy.deepcopy({k: v for k, v in st.items() if k != "stack"})
        st2["stack"] = keep
        return st2

    def block(self, stmts: list[ast.stmt], st: dict, u: Unit) -> list[tuple[dict, str, t.Any]]:
        states: list[dict] = [st]
        done: list[tuple[dict, str, t.Any]] = []
        for s in stmts:
            nxt: list[dict] = []
            for cur in states:
                for st2, how, val in self.stmt(s, cur, u):
                    if how == "next":
                        nxt.append(st2)
                    else:
                        done.append((st2, how, val))
            states = nxt
            if not states:
                break
        return done + [(x, "next", None) for x in states]

    def _each(self, e: ast.AST | None, st: dict, u: Unit) -> list[tuple[dict, t.Any, str | None]]:
        """evaluate e once per possible outcome, each on its own copy of the state."""
        probe = self.fork(st)
        outs = self.ev(e, probe, u)
        if len(outs) == 1:
            return [(probe, outs[0][0], outs[0][1])]
        res = []
        for i in range(len(outs)):
            sti = self.fork(st)
            oi = self.ev(e, sti, u)
            if len(oi) != len(outs):
                raise CannotFollow(f"`{norm(e)}` evaluates differently on a second pass")  # type: ignore[arg-type]
            res.append((sti, oi[i][0], oi[i][1]))
        return res

    def _store(self, tg: ast.AST, v: t.Any, st: dict, u: Unit) -> None:
        if isinstance(tg, ast.Name):
            st["env"][tg.id] = v
        elif isinstance(tg, ast.Attribute) and self.flow.self_ref(tg.value, u) and u is self.unit:
            st["attrs"][mangle(u.clsname, tg.attr)] = v
        elif isinstance(tg, (ast.Tuple, ast.List)):
            for x in tg.elts:
                self._store(x.value if isinstance(x, ast.Starred) else x, UNKV, st, u)
        elif isinstance(tg, ast.Subscript):
            base = self.ev(tg.value, st, u)
            if len(base) == 1 and isinstance(base[0][0], Cont):
                base[0][0].elems.add(self.tag(v))
        # other attribute stores: no effect on what is tracked

    def stmt(self, s: ast.stmt, st: dict, u: Unit) -> list[tuple[dict, str, t.Any]]:
        if isinstance(s, (ast.Pass, ast.Import, ast.ImportFrom, ast.Global, ast.Nonlocal, ast.FunctionDef, ast.AsyncFunctionDef, ast.ClassDef, ast.Assert)):
            return [(st, "next", None)]
        if isinstance(s, ast.Expr):
            if isinstance(s.value, ast.Yield):
                res = []
                for st2, v, exc in self._each(s.value.value, st, u):
                    if exc:
                        res.append((st2, "raise", exc))
                    else:
                        st2["yields"].elems.add(self.tag(v))
                        res.append((st2, "next", None))
                return res
            if isinstance(s.value, ast.YieldFrom):
                res = []
                for st2, v, exc in self._each(s.value.value, st, u):
                    got, exc2 = self.iterate(v) if not exc else (set(), exc)
                    if exc2:
                        res.append((st2, "raise", exc2))
                    else:
                        st2["yields"].elems |= got
                        res.append((st2, "next", None))
                return res
            return [(st2, "raise", exc) if exc else (st2, "next", None) for st2, _v, exc in self._each(s.value, st, u)]
        if isinstance(s, (ast.Assign, ast.AnnAssign)):
            if s.value is None:
                return [(st, "next", None)]
            res = []
            for st2, v, exc in self._each(s.value, st, u):
                if exc:
                    res.append((st2, "raise", exc))
                    continue
                for tg in s.targets if isinstance(s, ast.Assign) else [s.target]:
                    self._store(tg, v, st2, u)
                res.append((st2, "next", None))
            return res
        if isinstance(s, ast.AugAssign):
            res = []
            for st2, v, exc in self._each(s.value, st, u):
                if exc:
                    res.append((st2, "raise", exc))
                    continue
                load = ast.copy_location(ast.Name(id=s.target.id, ctx=ast.Load()), s.target) if isinstance(s.target, ast.Name) else s.target
                cur = self.ev(load, st2, u)
                c = cur[0][0] if len(cur) == 1 else UNKV
                if isinstance(c, Cont) and isinstance(s.op, (ast.Add, ast.BitOr)):
                    got, exc2 = self.iterate(v)
                    if exc2:
                        res.append((st2, "raise", exc2))
                        continue
                    c.elems |= got
                else:
                    self._store(s.target, UNKV, st2, u)
                res.append((st2, "next", None))
            return res
        if isinstance(s, ast.Return):
            return [(st2, "raise", exc) if exc else (st2, "return", v) for st2, v, exc in self._each(s.value, st, u)]
        if isinstance(s, ast.Raise):
            name = raised_class(u, s, self.flow) if s.exc is not None else None
            return [(st, "raise", (name or "?").lstrip("?") or "?")]
        if isinstance(s, (ast.Break, ast.Continue)):
            return [(st, "break" if isinstance(s, ast.Break) else "continue", None)]
        if isinstance(s, ast.If):
            res = []
            probe = self.fork(st)
            ts = self.test(s.test, probe, u)
            for b in sorted(ts, reverse=True):
                stb = probe if len(ts) == 1 else self.fork(st)
                if len(ts) > 1:
                    self.test(s.test, stb, u)  # walrus bindings
                res += self.block(s.body if b else s.orelse, stb, u)
            return res
        if isinstance(s, ast.For):
            res = []
            for st2, v, exc in self._each(s.iter, st, u):
                got, exc2 = self.iterate(v) if not exc else (set(), exc)
                if exc2:
                    res.append((st2, "raise", exc2))
                    continue
                states = [st2]
                for tg in sorted(got):  # one pass of the body per kind of element
                    nxt = []
                    for cur in states:
                        self._store(s.target, self.untag(tg), cur, u)
                        for st3, how, val in self.block(s.body, cur, u):
                            if how in ("next", "continue"):
                                nxt.append(st3)
                            elif how == "break":
                                res.append((st3, "next", None))
                            else:
                                res.append((st3, how, val))
                    states = nxt
                for cur in states:
                    res += self.block(s.orelse, cur, u) if s.orelse else [(cur, "next", None)]
            return res
        if isinstance(s, ast.Try):
            res = []
            after: list[tuple[dict, str, t.Any]] = []
            for st2, how, val in self.block(s.body, st, u):
                if how == "raise":
                    h = next((h for h in s.handlers if handler_catches(h, None if val == "?" else val)), None)
                    if h is None and val == "?" and s.handlers:
                        raise CannotFollow("an exception of unknown class meets `except` clauses")
                    if h is None:
                        after.append((st2, how, val))
                        continue
                    if h.name:
                        st2["env"][h.name] = UNKV
                    for st3, how3, val3 in self.block(h.body, st2, u):
                        after.append((st3, "raise", val) if how3 == "raise" and val3 is None else (st3, how3, val3))
                elif how == "next" and s.orelse:
                    after += self.block(s.orelse, st2, u)
                else:
                    after.append((st2, how, val))
            if not s.finalbody:
                return after
            for st2, how, val in after:
                for st3, how3, val3 in self.block(s.finalbody, st2, u):
                    res.append((st3, how, val) if how3 == "next" else (st3, how3, val3))
            return res
        if isinstance(s, ast.With) and all(it.optional_vars is None for it in s.items) and all(
                (dotted(it.context_expr.func) if isinstance(it.context_expr, ast.Call) else "") in ("contextlib.suppress", "suppress") for it in s.items):
            names = [x for it in s.items for x in it.context_expr.args]  # type: ignore[attr-defined]
            fake = ast.ExceptHandler(type=ast.Tuple(elts=names, ctx=ast.Load()), name=None, body=[])
            res = []
            for st2, how, val in self.block(s.body, st, u):
                res.append((st2, "next", None) if how == "raise" and val != "?" and handler_catches(fake, val) else (st2, how, val))
            return res
        raise CannotFollow(f"`{norm(s)[:60]}`")

    def outcomes(self) -> list[tuple[t.Any, str | None]]:
        a = self.unit.fi.node.args
        env: dict[str, t.Any] = {x.arg: UNKV for x in a.posonlyargs + a.args + a.kwonlyargs}
        env[self.pname] = ARG
        sn = self.unit.self_name()
        if sn:
            env.pop(sn, None)
        st = {"env": env, "attrs": {}, "stack": (), "yields": None}
        out = []
        self.undecided: list[str] = []
        for st2, how, val in self.block(self.unit.fi.node.body, st, self.unit):
            out.append((None, val) if how == "raise" else (st2["attrs"].get(self.attr, "unset"), None))
            if how != "raise":
                self.undecided += [x for x in st2.get("undecided", []) if x not in self.undecided]
        return out
