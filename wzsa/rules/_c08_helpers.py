"""C08 helpers: the read-through law of the combined multi dict (R8.7).

The combined view answers every read from the list of wrapped dicts it was constructed with.  Its documented model is
the concatenation of the wrapped dicts in list order: an *aggregate* read (getlist / keys / items / values / lists /
len ...) combines what every wrapped dict has, a *search* read (get / item get / ``in``) answers from the first wrapped
dict that has an answer and says "absent" (default / KeyError / False) only when no wrapped dict has one.  Both have
the same necessary condition on the paths of the code:

    a path that stops consulting the wrapped dicts while some are still unvisited must hand out an answer it took
    from the dict it stopped at - never the answer the method gives after it has consulted all of them.

Decided by the path executor of ``_c16_helpers`` on the inlined call graph of every read method (resolved in the MRO of
the combined class, so a deleted override is judged on what it falls back to): every ``for`` loop whose iterable is
the wrapped-dict list (directly, through a local, handed to a private helper ...) is a *scan*; a path outcome is
*early* when the most recent scan on the path was left inside an iteration (``break`` / ``return`` / ``raise`` in the
body), *complete* otherwise (the loop's iterator was exhausted, or no scan happened).  A comprehension / generator
expression over the list is a complete scan by construction.
"""

from __future__ import annotations

import ast
import re

from ..loader import AnalysisError, BuiltinClass, ClassInfo, FuncInfo, Repo, dotted, norm
from ..report import Ctx
from . import _c16_helpers as H

COMBINED = "datastructures.structures.CombinedMultiDict"
# the read interface of the multi dict model (property text: item get, get with type conversion, getlist,
# items / keys / values / lists / listvalues, to_dict, membership, length, iteration)
READERS = ("__getitem__", "get", "getlist", "keys", "__iter__", "items", "values", "lists", "listvalues", "to_dict", "__len__", "__contains__")
# wrappers that hand out every element of their argument, in order
ORDER_KEEPING = {"list", "tuple", "iter", "enumerate"}
# wrappers / selections that change which elements are visited or their order
PARTIAL = {"reversed", "sorted", "set", "frozenset"}


class ScanExec(H.Exec):
    """the executor, additionally reporting the start of each ``for`` iteration: the loop header's read event is
    emitted on every evaluation of the header (element bound *and* iterator exhausted); the ``iterate`` event that
    follows it tells the two apart."""

    def assign(self, tg, v, st, fr, a):  # type: ignore[override]
        if isinstance(a, (ast.For, ast.AsyncFor)) and tg is a.target and v == f"__e{a.lineno}_{a.col_offset}__":
            st = self.emit(st, ("iterate", v, a, fr.fi))
        return super().assign(tg, v, st, fr, a)

    def _reads_in(self, term, st, fr, node, how):  # type: ignore[override]
        if how == "__iter__" and isinstance(node, (ast.For, ast.AsyncFor)):
            st = self.emit(st, ("iterable", term, node, fr.fi))  # the loop's iterable with locals / parameters resolved
        return super()._reads_in(term, st, fr, node, how)


def wrapped_list_attr(repo: Repo, cls: ClassInfo) -> str:
    """the attribute holding the wrapped dicts: the one the constructor fills from its parameter (by role, not name)."""
    init = cls.methods.get("__init__")
    if init is None:
        raise AnalysisError(f"{cls.name}.__init__ missing: cannot identify the list of wrapped dicts")
    stored: dict[str, set[str]] = {}

    def on_event(a, ev, st):
        if ev[0] == "op" and ev[2] == "store" and ev[1] not in ("", "?") and ev[3]:
            stored.setdefault(ev[1], set()).add(ev[3][0])
        return a

    H.Exec(repo, cls, on_event=on_event).run_function(init, auto0=None)
    fed = sorted(l for l, vs in stored.items() if any(re.search(r"__p\d+__", v) for v in vs))
    if len(fed) != 1:
        raise AnalysisError(f"{cls.name}.__init__: expected exactly one attribute filled from the constructor argument, found {sorted((l, sorted(vs)) for l, vs in stored.items())}")
    return fed[0]


def _pos(n: ast.AST) -> tuple[int, int]:
    return (getattr(n, "lineno", 0), getattr(n, "col_offset", 0))


def coverage(term: str, loc: str) -> str:
    """'whole' | 'partial' | 'unknown': does iterating ``term`` visit every element of ``__self__.<loc>`` in order?"""
    n = H.P(term)
    whole = f"{H.SELF}.{loc}"

    def cov(x: ast.AST) -> str:
        t_ = H.text(x)
        if t_ == whole:
            return "whole"
        if whole not in t_:
            return "other"
        if isinstance(x, ast.Subscript):
            s = x.slice
            if isinstance(s, ast.Slice) and s.lower is None and s.upper is None and s.step is None:
                return cov(x.value)
            return "partial" if cov(x.value) in ("whole", "partial") else "unknown"
        if isinstance(x, ast.Call):
            d = dotted(x.func) or ""
            if isinstance(x.func, ast.Attribute) and x.func.attr == "copy" and not x.args:
                return cov(x.func.value)
            if d in ORDER_KEEPING and len(x.args) >= 1 and not isinstance(x.args[0], ast.Starred):
                return cov(x.args[0])
            if d in PARTIAL and len(x.args) >= 1:
                return "partial" if cov(x.args[0]) in ("whole", "partial") else "unknown"
            return "unknown"
        if isinstance(x, ast.Starred):
            return cov(x.value)
        return "unknown"

    return cov(n)


def _sentinel_names(repo: Repo, cls: ClassInfo) -> set[str]:
    """module-level names visible in the class's module that are bound to an object created by a call in the package
    (``_missing = _Missing()``): private sentinels."""
    out = set()
    mod = cls.module
    names = set(getattr(mod, "assigns", {})) | set(getattr(mod, "imports", {}) or {})
    for nm in names:
        tgt = repo.resolve(mod, nm)
        if not tgt or not tgt.startswith("werkzeug"):
            continue
        mn, _, base = tgt.rpartition(".")
        m = repo.modules.get(mn)
        v = getattr(m, "assigns", {}).get(base) if m is not None else None
        if isinstance(v, list):
            v = v[-1] if v else None
        if isinstance(v, ast.Call) and not (dotted(v.func) or "").endswith(("TypeVar", "ParamSpec", "NewType")):
            out.add(nm)
    return out


class Scan:
    """result of exploring one read method."""

    def __init__(self) -> None:
        self.loops: dict[tuple[int, int], tuple[ast.AST, FuncInfo | None, set[str]]] = {}  # position -> (for node, function, iterable terms)
        self.comps: list[tuple[ast.AST, FuncInfo | None, str]] = []  # comprehension / whole hand-over reads of the list
        self.reads_list = False
        self.follows: set[str] = set()  # methods of the class read through a term the executor does not enter (generators)
        self.subscripts: list[tuple[ast.AST, FuncInfo | None, str]] = []
        self.outs: list[H.Out] = []


def explore(repo: Repo, cls: ClassInfo, fi: FuncInfo, loc: str, sentinels: set[str]) -> Scan:
    sc = Scan()
    elems: set[str] = set()
    iterables: dict[tuple[int, int], str] = {}

    def on_event(a, ev, st):
        k = ev[0]
        if k == "iterable":
            iterables[_pos(ev[-2])] = ev[1]
            return a
        if k == "read" and ev[1] == loc:
            sc.reads_list = True
            node = ev[-2]
            if ev[2] == "__iter__" and isinstance(node, (ast.For, ast.AsyncFor)):
                p = _pos(node)
                sc.loops.setdefault(p, (node, ev[-1], set()))[2].add(iterables.get(p, "?"))
                elems.add(f"__e{p[0]}_{p[1]}__")
                return ("head", p)
            if ev[2] == "__getitem__":
                sc.subscripts.append((node, ev[-1], ev[3][0] if ev[3] else "?"))
            elif ev[2] != "__iter__":
                sc.comps.append((node, ev[-1], ev[2]))
            return a
        if k == "read" and ev[1] not in ("", loc):
            sc.follows.add(ev[1])  # self.<name> inside a comprehension term: a method read lazily
            return a
        if k == "enter" and ev[-1] is not None and ev[-1] is not fi:
            sc.follows.add("=" + ev[-1].fq)
            return a
        if k == "iterate" and a[0] == "head" and a[1] == _pos(ev[-2]):
            return ("in", a[1])
        return a

    def oracle(key: str):
        m = re.fullmatch(r"(.+) is (\w+)", key)
        if not m:
            return None
        left, right = m.group(1), m.group(2)
        if left == right and re.fullmatch(r"[A-Za-z_]\w*", left):
            return True  # identity is reflexive on a plain name
        if right == "None" and left in elems:
            return False  # ASSUMPTION: the wrapped list holds mapping objects, never None
        if right in sentinels and left != right and any(e in left for e in elems):
            return False  # ASSUMPTION: a private sentinel of the package is never a value stored in a wrapped dict
        if left in sentinels and right != left and right in elems:
            return False
        return None

    ex = ScanExec(repo, cls, on_event=on_event, oracle=oracle)
    sc.outs = ex.run_function(fi, auto0=("none", (0, 0)))
    return sc


def _pretty(term: str, fi: FuncInfo, loops: dict) -> str:
    """executor term -> source-like text (root parameters and loop elements by their names)."""
    params = fi.params

    def par(m: re.Match) -> str:
        i = int(m.group(1))
        return params[i] if i < len(params) else m.group(0)

    def el(m: re.Match) -> str:
        lp = loops.get((int(m.group(1)), int(m.group(2))))
        tg = getattr(lp[0], "target", None) if lp else None
        return tg.id if isinstance(tg, ast.Name) else "<wrapped dict>" if lp else m.group(0)

    return re.sub(r"__e(\d+)_(\d+)__", el, re.sub(r"__p(\d+)__", par, term))


def _fmt(outs: set[tuple[str, str]], fi: FuncInfo, loops: dict) -> str:
    return "{" + ", ".join(f"{'returns' if k == 'ret' else 'raises'} `{_pretty(v, fi, loops)}`" for k, v in sorted(outs)) + "}" if outs else "{}"


def combined_read_through_rule(ctx: Ctx, rid: str) -> tuple[int, int]:
    """R8.7; returns (#read methods judged, #explicit scan loops judged)."""
    repo = ctx.repo
    cls = repo.cls(COMBINED)
    loc = wrapped_list_attr(repo, cls)
    sentinels = _sentinel_names(repo, cls)
    cache: dict[str, Scan] = {}

    def scan_of(f: FuncInfo) -> Scan:
        got = cache.get(f.fq)
        if got is None:
            got = cache[f.fq] = explore(repo, cls, f, loc, sentinels)
        return got

    def reaches_list(f: FuncInfo, seen: frozenset[str] = frozenset()) -> bool:
        if f.fq in seen:
            return False
        sc = scan_of(f)
        if sc.reads_list:
            return True
        for nm in sorted(sc.follows):
            if nm.startswith("="):
                g = repo.try_func(nm[1:])
            else:
                _, g = repo.lookup(cls, nm)
            if isinstance(g, FuncInfo) and reaches_list(g, seen | {f.fq}):
                return True
        return False

    nread = nloops = 0
    for name in READERS:
        owner, what = repo.lookup(cls, name)
        if not isinstance(what, FuncInfo):
            # a dict builtin reads the (always empty) underlying dict of the view
            nread += 1
            ctx.ob(rid, f"{cls.name}.{name} reads the wrapped dicts", False, f"resolves to {owner.fq if isinstance(owner, (BuiltinClass, ClassInfo)) else owner}.{name}, which reads the view's own (empty) dict, not self.{loc}", cls.fq, cls.node, f"{cls.name}.{name} reads wrapped dicts")
            continue
        sc = scan_of(what)
        nread += 1
        ok_reads = reaches_list(what)
        ctx.ob(rid, f"{cls.name}.{name} reads the wrapped dicts", ok_reads, f"{what.qualname}: {'reads' if ok_reads else 'never reads'} self.{loc} (directly, through helpers or through another read method)", what, what.node, f"{cls.name}.{name} reads wrapped dicts")
        # ---- coverage of every scan (explicit loops, comprehensions, subscripts)
        for p, (node, lfi, _) in sorted(sc.loops.items()):
            nloops += 1
        for node, lfi, arg in sc.subscripts:
            if ":" in arg and not arg.lstrip().startswith(("'", '"')):
                continue  # a slice: judged as the iterable of the scan that consumes it
            raise AnalysisError(f"{what.fq}: reads self.{loc}[{arg}] (`{norm(node)}`): a positional read of the wrapped dicts is not a scan the read-through rule can judge")
        # ---- the law: early outcomes are answers found in the current dict
        if not sc.loops:
            continue
        early: dict[tuple[str, str], H.Out] = {}
        complete: dict[tuple[str, str], H.Out] = {}
        for o in sc.outs:
            if o.value.startswith("~"):
                continue
            (early if o.st.auto[0] == "in" else complete).setdefault((o.kind, o.value), o)
        bad = [(k, o) for k, o in sorted(early.items()) if k[0] != "ret" or k in complete]
        if bad:
            (kind, val), o = bad[0]
            lp = sc.loops.get(o.st.auto[1])
            where_loop = f"`for ... in {norm(lp[0].iter)}` in {lp[1].qualname if lp[1] else '?'}" if lp else "the scan"  # type: ignore[attr-defined]
            if kind != "ret":
                why = f"a path leaves {where_loop} inside an iteration by raising {val} while wrapped dicts are unvisited"
            else:
                why = f"a path leaves {where_loop} inside an iteration and returns `{_pretty(val, what, sc.loops)}`, which is also what the method returns after a complete scan without a hit"
            fact = f"{why} (lines visited: {', '.join(map(str, o.st.trail))}); early outcomes {_fmt(set(early), what, sc.loops)}, outcomes after a complete scan {_fmt(set(complete), what, sc.loops)}"
        else:
            fact = f"{len(sc.loops)} scan loop(s) over self.{loc}; outcomes when a scan is left early {_fmt(set(early), what, sc.loops)} are disjoint from the outcomes after a complete scan {_fmt(set(complete), what, sc.loops)}"
        ctx.ob(rid, f"{cls.name}.{name}: the scan of the wrapped dicts is abandoned only with an answer found in the current dict", not bad, fact, what, what.node, f"{cls.name}.{name} read-through")
    # ---- coverage: each scan loop / comprehension visits the whole list in order (judged once per construct)
    done: set[tuple[str, tuple[int, int]]] = set()
    for fq, sc in sorted(cache.items()):
        for p, (node, lfi, terms) in sorted(sc.loops.items()):
            key = (lfi.fq if lfi else fq, p)
            if key in done:
                continue
            done.add(key)
            qual = lfi.qualname if lfi else cls.name
            src = norm(node.iter)  # type: ignore[attr-defined]
            covs = {}
            for t_ in sorted(terms):
                if "__unparsable__" in t_ or t_ == "?":
                    # a slice does not survive as a term: judge the source text, the receiver canonicalised
                    t_ = re.sub(r"\b\w+\." + re.escape(loc) + r"\b", f"{H.SELF}.{loc}", src)
                covs[t_] = coverage(t_, loc)
            unknown = [t_ for t_, c in covs.items() if c not in ("whole", "partial")]
            if unknown:
                raise AnalysisError(f"{lfi.fq if lfi else fq}: cannot decide whether `for ... in {src}` (= `{unknown[0]}`) visits every wrapped dict in list order")
            ok = all(c == "whole" for c in covs.values())
            ctx.ob(rid, f"{qual}: the scan `for ... in {src}` visits every wrapped dict in list order", ok, f"iterable `{'` / `'.join(sorted(covs))}` is {'the whole list, order kept' if ok else 'a selection / reordering of the list'}", lfi or cls.fq, node.iter, f"{qual} scan iterable `{src}`")  # type: ignore[attr-defined]
        for node, lfi, how in sc.comps:
            for g in getattr(node, "generators", []):
                src = norm(g.iter)
                canon_ = re.sub(r"\b\w+\." + re.escape(loc) + r"\b", f"{H.SELF}.{loc}", src)
                key = (lfi.fq if lfi else fq, _pos(g.iter))
                if f"{H.SELF}.{loc}" not in canon_ or key in done:
                    continue
                done.add(key)
                c = coverage(canon_, loc)
                if c == "partial":
                    qual = lfi.qualname if lfi else cls.name
                    ctx.ob(rid, f"{qual}: the comprehension over `{src}` visits every wrapped dict in list order", False, f"iterable `{src}` is a selection / reordering of the list", lfi or cls.fq, g.iter, f"{qual} scan iterable `{src}`")
    return nread, nloops
