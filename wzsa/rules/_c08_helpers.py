"""C08 helpers: the read-through law of the combined multi dict (R8.7).

The combined view answers every read from the list of wrapped dicts it was constructed with.  Its documented model is
the concatenation of the wrapped dicts in list order: an *aggregate* read (getlist / keys / items / values / lists /
len ...) combines what every wrapped dict has, a *search* read (get / item get / ``in``) answers from the first wrapped
dict that has an answer and says "absent" (default / KeyError / False) only when no wrapped dict has one.  Both have
the same necessary condition on the paths of the code:

    a path that stops consulting the wrapped dicts while some are still unvisited must hand out an answer it took
    from the dict it stopped at - never the answer the method gives after it has consulted all of them.

Decided by the path executor of ``_c16_helpers`` on the inlined call graph of every read method (resolved in the MRO of
the combined class, so a deleted override is judged on what it falls back to): every ``for`` loop whose iterable is
the wrapped-dict list (directly, through a local, handed to a private helper ...) is a *scan*; a path outcome is
*early* when the most recent scan on the path was left inside an iteration (``break`` / ``return`` / ``raise`` in the
body), *complete* otherwise (the loop's iterator was exhausted, or no scan happened).  A comprehension / generator
expression over the list is a complete scan by construction.
"""

from __future__ import annotations

import ast
import re
import typing as t

from ..loader import AnalysisError, BuiltinClass, ClassInfo, FuncInfo, Repo, dotted, norm
from ..report import Ctx
from . import _c16_helpers as H

COMBINED = "datastructures.structures.CombinedMultiDict"
# the read interface of the multi dict model (property text: item get, get with type conversion, getlist,
# items / keys / values / lists / listvalues, to_dict, membership, length, iteration)
READERS = ("__getitem__", "get", "getlist", "keys", "__iter__", "items", "values", "lists", "listvalues", "to_dict", "__len__", "__contains__")
# wrappers that hand out every element of their argument, in order
ORDER_KEEPING = {"list", "tuple", "iter", "enumerate"}
# wrappers / selections that change which elements are visited or their order
PARTIAL = {"reversed", "sorted", "set", "frozenset"}


# the object itself consumed through its container protocol (the executor enters ``key in self`` / ``self[key]`` by
# itself): which special method of the class answers
SELF_CONSUMERS = {"len": "__len__", **{nm: "__iter__" for nm in ("comprehension", "__iter__", "list", "set", "tuple", "frozenset", "sorted", "iter", "sum", "any", "all", "min", "max", "enumerate", "zip")}}


def desugar_suppress(repo: Repo, prefix: str = "werkzeug.datastructures") -> int:
    """``with contextlib.suppress(E, ...): body`` is ``try: body / except (E, ...): pass``.  The CFG builder and the path
    executor treat a ``with`` body as plain statements (no handler), so the statement is rewritten in place, once, in
    the syntax trees of the container modules before any rule looks at them; locations are those of the ``with``."""
    n = 0
    for m in repo.modules.values():
        if not m.name.startswith(prefix) or getattr(m, "_c08_suppress_done", False):
            continue
        m._c08_suppress_done = True  # type: ignore[attr-defined]
        for node in list(ast.walk(m.tree)):
            for field in ("body", "orelse", "finalbody"):
                body = getattr(node, field, None)
                if not isinstance(body, list):
                    continue
                for i, st in enumerate(body):
                    if not (isinstance(st, ast.With) and len(st.items) == 1 and st.items[0].optional_vars is None):
                        continue
                    cx = st.items[0].context_expr
                    if not (isinstance(cx, ast.Call) and cx.args and not cx.keywords and not any(isinstance(a, ast.Starred) for a in cx.args)):
                        continue
                    d = dotted(cx.func)
                    if not d or repo.resolve(m, d) != "contextlib.suppress":
                        continue
                    tp: ast.expr = cx.args[0] if len(cx.args) == 1 else ast.Tuple(elts=list(cx.args), ctx=ast.Load())
                    h = ast.ExceptHandler(type=tp, name=None, body=[ast.Pass()])
                    new = ast.Try(body=st.body, handlers=[h], orelse=[], finalbody=[])
                    for x in (new, h, h.body[0], tp):
                        ast.copy_location(x, st)
                    ast.fix_missing_locations(new)
                    new._parent = node  # type: ignore[attr-defined]
                    for par in ast.walk(new):
                        for ch in ast.iter_child_nodes(par):
                            ch._parent = par  # type: ignore[attr-defined]
                    body[i] = new
                    n += 1
    return n


class ScanExec(H.Exec):
    """the executor, additionally reporting the start of each ``for`` iteration: the loop header's read event is
    emitted on every evaluation of the header (element bound *and* iterator exhausted); the ``iterate`` event that
    follows it tells the two apart."""

    def assign(self, tg, v, st, fr, a):  # type: ignore[override]
        if isinstance(a, (ast.For, ast.AsyncFor)) and tg is a.target and v == f"__e{a.lineno}_{a.col_offset}__":
            st = self.emit(st, ("iterate", v, a, fr.fi))
        return super().assign(tg, v, st, fr, a)

    def _reads_in(self, term, st, fr, node, how):  # type: ignore[override]
        if how == "__iter__" and isinstance(node, (ast.For, ast.AsyncFor)):
            st = self.emit(st, ("iterable", term, node, fr.fi))  # the loop's iterable with locals / parameters resolved
        return super()._reads_in(term, st, fr, node, how)


def wrapped_list_attr(repo: Repo, cls: ClassInfo) -> str:
    """the attribute holding the wrapped dicts: the one the constructor fills from its parameter (by role, not name)."""
    init = cls.methods.get("__init__")
    if init is None:
        raise AnalysisError(f"{cls.name}.__init__ missing: cannot identify the list of wrapped dicts")
    stored: dict[str, set[str]] = {}

    def on_event(a, ev, st):
        if ev[0] == "op" and ev[2] == "store" and ev[1] not in ("", "?") and ev[3]:
            stored.setdefault(ev[1], set()).add(ev[3][0])
        return a

    H.Exec(repo, cls, on_event=on_event).run_function(init, auto0=None)
    fed = sorted(l for l, vs in stored.items() if any(re.search(r"__p\d+__", v) for v in vs))
    if len(fed) != 1:
        raise AnalysisError(f"{cls.name}.__init__: expected exactly one attribute filled from the constructor argument, found {sorted((l, sorted(vs)) for l, vs in stored.items())}")
    return fed[0]


def _pos(n: ast.AST) -> tuple[int, int]:
    return (getattr(n, "lineno", 0), getattr(n, "col_offset", 0))


def coverage(term: str, loc: str) -> str:
    """'whole' | 'partial' | 'unknown': does iterating ``term`` visit every element of ``__self__.<loc>`` in order?"""
    n = H.P(term)
    whole = f"{H.SELF}.{loc}"

    def cov(x: ast.AST) -> str:
        t_ = H.text(x)
        if t_ == whole:
            return "whole"
        if whole not in t_:
            return "other"
        if isinstance(x, ast.Subscript):
            s = x.slice
            if isinstance(s, ast.Slice) and s.lower is None and s.upper is None and s.step is None:
                return cov(x.value)
            return "partial" if cov(x.value) in ("whole", "partial") else "unknown"
        if isinstance(x, ast.Call):
            d = dotted(x.func) or ""
            if isinstance(x.func, ast.Attribute) and x.func.attr == "copy" and not x.args:
                return cov(x.func.value)
            if d in ORDER_KEEPING and len(x.args) >= 1 and not isinstance(x.args[0], ast.Starred):
                return cov(x.args[0])
            if d in PARTIAL and len(x.args) >= 1:
                return "partial" if cov(x.args[0]) in ("whole", "partial") else "unknown"
            return "unknown"
        if isinstance(x, ast.Starred):
            return cov(x.value)
        return "unknown"

    return cov(n)


def _sentinel_names(repo: Repo, cls: ClassInfo) -> set[str]:
    """module-level names visible in the class's module that are bound to an object created by a call in the package
    (``_missing = _Missing()``): private sentinels."""
    out = set()
    mod = cls.module
    names = set(getattr(mod, "assigns", {})) | set(getattr(mod, "imports", {}) or {})
    for nm in names:
        tgt = repo.resolve(mod, nm)
        if not tgt or not tgt.startswith("werkzeug"):
            continue
        mn, _, base = tgt.rpartition(".")
        m = repo.modules.get(mn)
        v = getattr(m, "assigns", {}).get(base) if m is not None else None
        if isinstance(v, list):
            v = v[-1] if v else None
        if isinstance(v, ast.Call) and not (dotted(v.func) or "").endswith(("TypeVar", "ParamSpec", "NewType")):
            out.add(nm)
    return out


class Scan:
    """result of exploring one read method."""

    def __init__(self) -> None:
        self.loops: dict[tuple[int, int], tuple[ast.AST, FuncInfo | None, set[str]]] = {}  # position -> (for node, function, iterable terms)
        self.comps: list[tuple[ast.AST, FuncInfo | None, str]] = []  # comprehension / whole hand-over reads of the list
        self.reads_list = False
        self.follows: set[str] = set()  # methods of the class read through a term the executor does not enter (generators)
        self.subscripts: list[tuple[ast.AST, FuncInfo | None, str]] = []
        self.outs: list[H.Out] = []


def explore(repo: Repo, cls: ClassInfo, fi: FuncInfo, loc: str, sentinels: set[str]) -> Scan:
    sc = Scan()
    elems: set[str] = set()
    iterables: dict[tuple[int, int], str] = {}

    positional = re.compile(re.escape(f"{H.SELF}.{loc}") + r"\[(?![^\[\]]*:)[^\[\]]+\]")

    def on_event(a, ev, st):
        k = ev[0]
        if a[0] == "none" and k != "enter" and any(isinstance(x, str) and positional.search(x) for x in ev[1:]):
            a = ("in", (-1, -1))  # one wrapped dict taken by position (``self.dicts[0]``, ``first, *rest = self.dicts``) is consulted: a scan has started and is not complete
        if k == "iterable":
            iterables[_pos(ev[-2])] = ev[1]
            return a
        if k == "read" and ev[1] == loc:
            sc.reads_list = True
            node = ev[-2]
            if ev[2] == "__iter__" and isinstance(node, (ast.For, ast.AsyncFor)):
                p = _pos(node)
                sc.loops.setdefault(p, (node, ev[-1], set()))[2].add(iterables.get(p, "?"))
                elems.add(f"__e{p[0]}_{p[1]}__")
                return ("head", p)
            if ev[2] == "__getitem__":
                arg = ev[3][0] if ev[3] else "?"
                sc.subscripts.append((node, ev[-1], arg))
                if a[0] == "none" and not (":" in arg and not arg.lstrip().startswith(("'", '"'))):
                    return ("in", (-1, -1))  # one wrapped dict read by position: a scan has started and is not complete
            elif ev[2] != "__iter__":
                sc.comps.append((node, ev[-1], ev[2]))
            return a
        if k == "read" and ev[1] not in ("", loc):
            sc.follows.add(ev[1])  # self.<name> inside a comprehension term: a method read lazily
            return a
        if k == "read" and ev[1] == "" and ev[2] in SELF_CONSUMERS:
            sc.follows.add(SELF_CONSUMERS[ev[2]])  # the object handed whole to its own protocol: sum(1 for _ in self), len(list(self))
            return a
        if k == "enter" and ev[-1] is not None and ev[-1] is not fi:
            sc.follows.add("=" + ev[-1].fq)
            return a
        if k == "iterate" and a[0] == "head" and a[1] == _pos(ev[-2]):
            return ("in", a[1])
        return a

    def oracle(key: str):
        m = re.fullmatch(r"(.+) is (\w+)", key)
        if not m:
            return None
        left, right = m.group(1), m.group(2)
        if left == right and re.fullmatch(r"[A-Za-z_]\w*", left):
            return True  # identity is reflexive on a plain name
        if right == "None" and left in elems:
            return False  # ASSUMPTION: the wrapped list holds mapping objects, never None
        if right in sentinels and left != right and any(e in left for e in elems):
            return False  # ASSUMPTION: a private sentinel of the package is never a value stored in a wrapped dict
        if left in sentinels and right != left and right in elems:
            return False
        return None

    ex = ScanExec(repo, cls, on_event=on_event, oracle=oracle)
    sc.outs = ex.run_function(fi, auto0=("none", (0, 0)))
    return sc


def _pretty(term: str, fi: FuncInfo, loops: dict) -> str:
    """executor term -> source-like text (root parameters and loop elements by their names)."""
    params = fi.params

    def par(m: re.Match) -> str:
        i = int(m.group(1))
        return params[i] if i < len(params) else m.group(0)

    def el(m: re.Match) -> str:
        lp = loops.get((int(m.group(1)), int(m.group(2))))
        tg = getattr(lp[0], "target", None) if lp else None
        return tg.id if isinstance(tg, ast.Name) else "<wrapped dict>" if lp else m.group(0)

    return re.sub(r"__e(\d+)_(\d+)__", el, re.sub(r"__p(\d+)__", par, term))


def _fmt(outs: set[tuple[str, str]], fi: FuncInfo, loops: dict) -> str:
    return "{" + ", ".join(f"{'returns' if k == 'ret' else 'raises'} `{_pretty(v, fi, loops)}`" for k, v in sorted(outs)) + "}" if outs else "{}"


def _syntactic_reads(f: FuncInfo, loc: str) -> list[tuple[ast.AST, str]]:
    """loads of ``self.<loc>`` in the method that the executor reports no read event for (``f(*self.dicts)``, the list
    handed whole to a call): (outermost expression that only wraps / selects from the list, its canonical text)."""
    if not f.params or f.cls is None:
        return []
    me = f.params[0]
    parent: dict[int, ast.AST] = {}
    for n in ast.walk(f.node):
        for ch in ast.iter_child_nodes(n):
            parent[id(ch)] = n
    out = []
    for n in ast.walk(f.node):
        if isinstance(n, ast.Attribute) and n.attr == loc and isinstance(n.ctx, ast.Load) and isinstance(n.value, ast.Name) and n.value.id == me:
            top: ast.AST = n
            while True:
                p = parent.get(id(top))
                if isinstance(p, ast.Subscript) and p.value is top and isinstance(p.slice, ast.Slice):
                    top = p
                elif isinstance(p, ast.Call) and top in p.args and (dotted(p.func) or "") in ORDER_KEEPING | PARTIAL:
                    top = p
                elif isinstance(p, ast.Call) and isinstance(p.func, ast.Attribute) and p.func.value is top and p.func.attr == "copy" and not p.args:
                    top = p
                else:
                    break
            p = parent.get(id(top))
            if isinstance(p, (ast.For, ast.AsyncFor, ast.comprehension)) and p.iter is top:
                continue  # the iterable of a scan: judged there
            out.append((top, re.sub(r"\b" + re.escape(me) + r"\." + re.escape(loc) + r"\b", f"{H.SELF}.{loc}", norm(top))))
    return out


# ---- a scan split into a prefix and its complement ------------------------------------------------------------------
# ``first, *rest = self.dicts`` / ``self.dicts[0]`` + ``self.dicts[1:]`` / ``self.dicts[:mid]`` + ``self.dicts[mid:]``: the
# partial reads of the list in one function, taken in the order they are used, are judged together: each is an interval
# [lo, hi) of list positions (bounds compared as canonical text, "0" / "END" for the open ends); they are the full
# ordered scan exactly when they chain from "0" to "END" without gap, overlap or inversion.

_WHOLE = ("0", "END", "list")


class _Tiling(t.NamedTuple):
    status: str  # "none" (no partial read) | "ok" | "bad" | "unknown"
    nodes: frozenset  # ids of the expression nodes judged here
    fact: str
    first: ast.AST | None
    whole: frozenset = frozenset()  # ids of expressions that put parts together again to the whole list, in order (``first + rest``)
    defs: frozenset = frozenset()  # ids of the nodes inside the definitions of locals standing for parts (judged at the uses)
    elem_after_list: bool = False  # a single dict read by position after a part that is scanned (``*init, last``)


def _flat_names(tg: ast.AST) -> list[str] | None:
    if isinstance(tg, ast.Name):
        return [tg.id]
    if isinstance(tg, ast.Starred):
        return _flat_names(tg.value)
    if isinstance(tg, (ast.Tuple, ast.List)):
        out: list[str] = []
        for e in tg.elts:
            r = _flat_names(e)
            if r is None:
                return None
            out += r
        return out
    return None


def split_scan(f: FuncInfo, loc: str) -> _Tiling:
    none = _Tiling("none", frozenset(), "", None)
    fn = f.node
    if not f.params or f.cls is None or not hasattr(fn, "body"):
        return none
    me = f.params[0]
    own = _own_nodes(list(fn.body))  # type: ignore[attr-defined]
    stores: dict[str, int] = {}
    for n in own:
        if isinstance(n, ast.Name) and isinstance(n.ctx, (ast.Store, ast.Del)):
            stores[n.id] = stores.get(n.id, 0) + 1
    a = fn.args  # type: ignore[attr-defined]
    params = {x.arg for x in a.posonlyargs + a.args + a.kwonlyargs} | ({a.vararg.arg} if a.vararg else set()) | ({a.kwarg.arg} if a.kwarg else set())
    env: dict[str, t.Any] = {}
    bound_by: dict[int, list[str]] = {}

    def bind(tg: ast.AST, v: ast.AST, st: ast.AST) -> None:
        if isinstance(tg, ast.Name):
            env[tg.id] = v
            bound_by.setdefault(id(st), []).append(tg.id)
        elif isinstance(tg, (ast.Tuple, ast.List)):
            stars = [i for i, e in enumerate(tg.elts) if isinstance(e, ast.Starred)]
            if isinstance(v, (ast.Tuple, ast.List)) and len(v.elts) == len(tg.elts) and not stars and not any(isinstance(e, ast.Starred) for e in v.elts):
                for x, y in zip(tg.elts, v.elts):
                    bind(x, y, st)
            elif len(stars) <= 1:
                n_ = len(tg.elts)
                for i, e in enumerate(tg.elts):
                    if isinstance(e, ast.Starred) and isinstance(e.value, ast.Name):
                        env[e.value.id] = ("rest", v, i, n_ - i - 1)
                        bound_by.setdefault(id(st), []).append(e.value.id)
                    elif isinstance(e, ast.Name):
                        env[e.id] = ("elem", v, i if not stars or i < stars[0] else i - n_)
                        bound_by.setdefault(id(st), []).append(e.id)

    for n in own:
        if isinstance(n, ast.Assign) and len(n.targets) == 1:
            bind(n.targets[0], n.value, n)
        elif isinstance(n, ast.AnnAssign) and n.value is not None:
            bind(n.target, n.value, n)
    env = {k: v for k, v in env.items() if stores.get(k) == 1 and k not in params}

    def idx(e: ast.AST | None, default: str) -> str:
        if e is None:
            return default
        if isinstance(e, ast.Constant) and isinstance(e.value, int) and not isinstance(e.value, bool):
            return str(e.value)
        return norm(e)

    def succ(e: ast.AST) -> str:
        if isinstance(e, ast.Constant) and isinstance(e.value, int) and not isinstance(e.value, bool):
            return str(e.value + 1)
        if isinstance(e, ast.UnaryOp) and isinstance(e.op, ast.USub) and isinstance(e.operand, ast.Constant) and isinstance(e.operand.value, int):
            return "END" if e.operand.value == 1 else str(1 - e.operand.value)
        return f"{norm(e)} + 1"

    def concat(parts: list[t.Any]) -> t.Any:
        if all(p_ is None for p_ in parts):
            return None
        if any(p_ is None or p_ == "unknown" for p_ in parts):
            return "unknown"
        if any(p_ == "bad" for p_ in parts):
            return "bad"
        cur = parts[0]
        for p_ in parts[1:]:
            if cur[1] != p_[0]:
                return "bad"
            cur = (cur[0], p_[1], "list")
        return (cur[0], cur[1], "list")

    def seg(e: ast.AST, depth: int = 0) -> t.Any:
        """None: not a selection of the wrapped list | (lo, hi, 'list' / 'elem') | 'bad' (a reordering / overlapping selection) | 'unknown'."""
        if depth > 8:
            return "unknown"
        if isinstance(e, ast.Attribute) and e.attr == loc and isinstance(e.value, ast.Name) and e.value.id == me and isinstance(e.ctx, ast.Load):
            return _WHOLE
        if isinstance(e, ast.Name) and isinstance(e.ctx, ast.Load) and e.id in env:
            b = env[e.id]
            if isinstance(b, tuple):
                base = seg(b[1], depth + 1)
                if base is None:
                    return None
                if base != _WHOLE:
                    return "unknown"
                if b[0] == "elem":
                    k = b[2]
                    return (str(k), "END" if k == -1 else str(k + 1), "elem")
                return (str(b[2]), "END" if b[3] == 0 else str(-b[3]), "list")
            return seg(b, depth + 1)
        if isinstance(e, ast.Subscript):
            base = seg(e.value, depth + 1)
            if base is None or (isinstance(base, tuple) and base[2] == "elem"):
                return None
            s_ = e.slice
            if isinstance(s_, ast.Slice) and s_.lower is None and s_.upper is None and s_.step is None:
                return base
            if not isinstance(base, tuple):
                return base
            if base != _WHOLE:
                return "unknown"
            if isinstance(s_, ast.Slice):
                if s_.step is not None:
                    return "bad"
                return (idx(s_.lower, "0"), idx(s_.upper, "END"), "list")
            if isinstance(s_, ast.Tuple):
                return "unknown"
            return (idx(s_, "?"), succ(s_), "elem")
        if isinstance(e, ast.Call):
            d = dotted(e.func) or ""
            if isinstance(e.func, ast.Attribute) and e.func.attr == "copy" and not e.args and not e.keywords:
                r = seg(e.func.value, depth + 1)
                return r if not (isinstance(r, tuple) and r[2] == "elem") else None
            if d in ORDER_KEEPING and e.args and not isinstance(e.args[0], ast.Starred):
                r = seg(e.args[0], depth + 1)
                return r if not (isinstance(r, tuple) and r[2] == "elem") else None
            if d in PARTIAL and e.args and not isinstance(e.args[0], ast.Starred):
                r = seg(e.args[0], depth + 1)
                if r is None or r == _WHOLE or (isinstance(r, tuple) and r[2] == "elem"):
                    return None
                return "bad" if isinstance(r, tuple) else r
            return None
        if isinstance(e, ast.BinOp) and isinstance(e.op, ast.Add):
            parts = [seg(e.left, depth + 1), seg(e.right, depth + 1)]
            if any(isinstance(p_, tuple) and p_[2] == "elem" for p_ in parts):
                return None
            return concat(parts)
        if isinstance(e, (ast.List, ast.Tuple)) and isinstance(e.ctx, ast.Load) and e.elts and any(isinstance(x, ast.Starred) for x in e.elts):
            parts = []
            for x in e.elts:
                r = seg(x.value if isinstance(x, ast.Starred) else x, depth + 1)
                if isinstance(r, tuple) and (r[2] == "elem") == isinstance(x, ast.Starred):
                    return None if r[2] == "elem" else "unknown"
                parts.append(r)
            return concat(parts)
        return None

    def binds_segment(st: ast.AST) -> bool:
        names = [nm for nm in bound_by.get(id(st), []) if nm in env]
        return bool(names) and len(names) == len(bound_by.get(id(st), [])) and any(seg(ast.Name(id=nm, ctx=ast.Load())) is not None for nm in names)

    uses: list[tuple[tuple[int, int], t.Any, ast.AST]] = []
    def_ids: set[int] = set()

    def walk(n: ast.AST) -> None:
        if isinstance(n, (ast.FunctionDef, ast.AsyncFunctionDef, ast.ClassDef)) and n is not fn:
            return
        if isinstance(n, (ast.Assign, ast.AnnAssign)) and binds_segment(n):
            def_ids.update(id(x) for x in ast.walk(n))
            return  # the definition of a local that stands for a part of the list: judged where the local is used
        if isinstance(n, ast.expr) and not isinstance(getattr(n, "ctx", None), (ast.Store, ast.Del)):
            r = seg(n)
            if r is not None:
                uses.append((_pos(n), r, n))
                return
        for ch in ast.iter_child_nodes(n):
            walk(ch)

    for st in fn.body:  # type: ignore[attr-defined]
        walk(st)
    partial = [(p_, r, n) for p_, r, n in uses if r != _WHOLE]
    rejoined = frozenset(id(n) for _, r, n in uses if r == _WHOLE and isinstance(n, (ast.BinOp, ast.List, ast.Tuple)))
    if not partial:
        return _Tiling("none", frozenset(), "", None, rejoined, frozenset(def_ids))
    nodes = frozenset(id(n) for _, _, n in partial)
    partial.sort(key=lambda x: x[0])
    first = partial[0][2]
    shown = ", ".join(f"`{norm(n)}`" + (f" = [{r[0]}:{r[1]})" if isinstance(r, tuple) else f" ({r})") for _, r, n in partial)
    if any(r == "unknown" for _, r, _ in partial):
        return _Tiling("unknown", nodes, shown, first, rejoined, frozenset(def_ids))
    whole_scans = [n for _, r, n in uses if r == _WHOLE and isinstance(getattr(n, "_parent", None), (ast.For, ast.AsyncFor, ast.comprehension))]
    seen: set[tuple[str, str]] = set()
    chain: list[tuple[str, str]] = []
    bad = False
    for _, r, _ in partial:
        if r == "bad":
            bad = True
            continue
        if r[:2] not in seen:
            seen.add(r[:2])
            chain.append(r[:2])
    cur = "0"
    for lo, hi in chain:
        if lo != cur:
            bad = True
        cur = hi
    if cur != "END":
        bad = True
    if bad and whole_scans:
        return _Tiling("unknown", nodes, shown, first, rejoined, frozenset(def_ids))  # a complete scan plus extra positional reads: not a split scan
    kinds = [r[2] for _, r, _ in partial if isinstance(r, tuple)]
    eal = "list" in kinds and "elem" in kinds[kinds.index("list"):]
    return _Tiling("bad" if bad else "ok", nodes, shown, first, rejoined, frozenset(def_ids), eal)


def combined_read_through_rule(ctx: Ctx, rid: str) -> tuple[int, int]:
    """R8.7; returns (#read methods judged, #explicit scan loops judged)."""
    repo = ctx.repo
    cls = repo.cls(COMBINED)
    loc = wrapped_list_attr(repo, cls)
    sentinels = _sentinel_names(repo, cls)
    cache: dict[str, Scan] = {}

    def scan_of(f: FuncInfo) -> Scan:
        got = cache.get(f.fq)
        if got is None:
            got = cache[f.fq] = explore(repo, cls, f, loc, sentinels)
        return got

    def reaches_list(f: FuncInfo, seen: frozenset[str] = frozenset()) -> bool:
        if f.fq in seen:
            return False
        sc = scan_of(f)
        if sc.reads_list or _syntactic_reads(f, loc):
            return True
        for nm in sorted(sc.follows):
            if nm.startswith("="):
                g = repo.try_func(nm[1:])
            else:
                _, g = repo.lookup(cls, nm)
            if isinstance(g, FuncInfo) and reaches_list(g, seen | {f.fq}):
                return True
        return False

    tilings: dict[str, _Tiling] = {}

    def tiling_of(f: FuncInfo | None) -> _Tiling:
        if f is None:
            return _Tiling("none", frozenset(), "", None)
        got = tilings.get(f.fq)
        if got is None:
            got = tilings[f.fq] = split_scan(f, loc)
        return got

    nread = nloops = 0
    for name in READERS:
        owner, what = repo.lookup(cls, name)
        if not isinstance(what, FuncInfo):
            # a dict builtin reads the (always empty) underlying dict of the view
            nread += 1
            ctx.ob(rid, f"{cls.name}.{name} reads the wrapped dicts", False, f"resolves to {owner.fq if isinstance(owner, (BuiltinClass, ClassInfo)) else owner}.{name}, which reads the view's own (empty) dict, not self.{loc}", cls.fq, cls.node, f"{cls.name}.{name} reads wrapped dicts")
            continue
        sc = scan_of(what)
        nread += 1
        ok_reads = reaches_list(what)
        ctx.ob(rid, f"{cls.name}.{name} reads the wrapped dicts", ok_reads, f"{what.qualname}: {'reads' if ok_reads else 'never reads'} self.{loc} (directly, through helpers or through another read method)", what, what.node, f"{cls.name}.{name} reads wrapped dicts")
        # ---- coverage of every scan (explicit loops, comprehensions, subscripts)
        for p, (node, lfi, _) in sorted(sc.loops.items()):
            nloops += 1
        for node, lfi, arg in sc.subscripts:
            if ":" in arg and not arg.lstrip().startswith(("'", '"')):
                continue  # a slice: judged as the iterable of the scan that consumes it
            if tiling_of(lfi or what).status in ("ok", "bad"):
                continue  # one part of a scan split into a prefix and its complement: judged as a whole below
            raise AnalysisError(f"{what.fq}: reads self.{loc}[{arg}] (`{norm(node)}`): a positional read of the wrapped dicts is not a scan the read-through rule can judge")
        # ---- the law: early outcomes are answers found in the current dict
        if not sc.loops:
            continue
        early: dict[tuple[str, str], H.Out] = {}
        complete: dict[tuple[str, str], H.Out] = {}
        for o in sc.outs:
            if o.value.startswith("~"):
                continue
            (early if o.st.auto[0] == "in" else complete).setdefault((o.kind, o.value), o)
        bad = [(k, o) for k, o in sorted(early.items()) if k[0] != "ret" or k in complete]
        if bad and tiling_of(what).status == "ok" and tiling_of(what).elem_after_list:
            raise AnalysisError(f"{what.fq}: the scan of self.{loc} is split ({tiling_of(what).fact}) and a single wrapped dict is read by position after a scanned part: the outcomes found in that dict cannot be told from the outcomes after the complete scan")
        if bad:
            (kind, val), o = bad[0]
            lp = sc.loops.get(o.st.auto[1])
            where_loop = f"`for ... in {norm(lp[0].iter)}` in {lp[1].qualname if lp[1] else '?'}" if lp else "the scan"  # type: ignore[attr-defined]
            if kind != "ret":
                why = f"a path leaves {where_loop} inside an iteration by raising {val} while wrapped dicts are unvisited"
            else:
                why = f"a path leaves {where_loop} inside an iteration and returns `{_pretty(val, what, sc.loops)}`, which is also what the method returns after a complete scan without a hit"
            fact = f"{why} (lines visited: {', '.join(map(str, o.st.trail))}); early outcomes {_fmt(set(early), what, sc.loops)}, outcomes after a complete scan {_fmt(set(complete), what, sc.loops)}"
        else:
            fact = f"{len(sc.loops)} scan loop(s) over self.{loc}; outcomes when a scan is left early {_fmt(set(early), what, sc.loops)} are disjoint from the outcomes after a complete scan {_fmt(set(complete), what, sc.loops)}"
        ctx.ob(rid, f"{cls.name}.{name}: the scan of the wrapped dicts is abandoned only with an answer found in the current dict", not bad, fact, what, what.node, f"{cls.name}.{name} read-through")
    # ---- coverage: each scan loop / comprehension visits the whole list in order (judged once per construct)
    done: set[tuple[str, tuple[int, int]]] = set()
    for fq, sc in sorted(cache.items()):
        for p, (node, lfi, terms) in sorted(sc.loops.items()):
            key = (lfi.fq if lfi else fq, p)
            if key in done:
                continue
            done.add(key)
            tl = tiling_of(lfi)
            if tl.status in ("ok", "bad") and id(node.iter) in tl.nodes:  # type: ignore[attr-defined]
                continue  # part of a split scan: the parts are judged together
            qual = lfi.qualname if lfi else cls.name
            src = norm(node.iter)  # type: ignore[attr-defined]
            if id(node.iter) in tl.whole:  # type: ignore[attr-defined]
                ctx.ob(rid, f"{qual}: the scan `for ... in {src}` visits every wrapped dict in list order", True, f"iterable `{src}` joins a prefix of the list and its complement in list order: the whole list, order kept", lfi or cls.fq, node.iter, f"{qual} scan iterable `{src}`")  # type: ignore[attr-defined]
                continue
            covs = {}
            for t_ in sorted(terms):
                if "__unparsable__" in t_ or t_ == "?":
                    # a slice does not survive as a term: judge the source text, the receiver canonicalised
                    t_ = re.sub(r"\b\w+\." + re.escape(loc) + r"\b", f"{H.SELF}.{loc}", src)
                covs[t_] = coverage(t_, loc)
            unknown = [t_ for t_, c in covs.items() if c not in ("whole", "partial")]
            if unknown:
                raise AnalysisError(f"{lfi.fq if lfi else fq}: cannot decide whether `for ... in {src}` (= `{unknown[0]}`) visits every wrapped dict in list order")
            ok = all(c == "whole" for c in covs.values())
            ctx.ob(rid, f"{qual}: the scan `for ... in {src}` visits every wrapped dict in list order", ok, f"iterable `{'` / `'.join(sorted(covs))}` is {'the whole list, order kept' if ok else 'a selection / reordering of the list'}", lfi or cls.fq, node.iter, f"{qual} scan iterable `{src}`")  # type: ignore[attr-defined]
        for node, lfi, how in sc.comps:
            for g in getattr(node, "generators", []):
                src = norm(g.iter)
                canon_ = re.sub(r"\b\w+\." + re.escape(loc) + r"\b", f"{H.SELF}.{loc}", src)
                key = (lfi.fq if lfi else fq, _pos(g.iter))
                if f"{H.SELF}.{loc}" not in canon_ or key in done:
                    continue
                tl = tiling_of(lfi)
                if tl.status in ("ok", "bad") and id(g.iter) in tl.nodes:
                    continue
                done.add(key)
                c = coverage(canon_, loc)
                if c == "partial":
                    qual = lfi.qualname if lfi else cls.name
                    ctx.ob(rid, f"{qual}: the comprehension over `{src}` visits every wrapped dict in list order", False, f"iterable `{src}` is a selection / reordering of the list", lfi or cls.fq, g.iter, f"{qual} scan iterable `{src}`")
        # the list handed on whole outside a loop header (``f(*self.dicts)``), in the method and the helpers it entered
        for fq_ in [fq] + sorted(nm[1:] for nm in sc.follows if nm.startswith("=")):
            f_ = repo.try_func(fq_)
            tl = tiling_of(f_)
            if tl.status in ("ok", "bad") and (fq_, "split") not in done:
                done.add((fq_, "split"))  # type: ignore[arg-type]
                ok = tl.status == "ok"
                ctx.ob(rid, f"{f_.qualname}: the partial reads of self.{loc}, in the order they are used, are the full ordered scan", ok, f"parts read: {tl.fact}: " + ("they chain from the first to the last wrapped dict without gap, overlap or inversion" if ok else "they do not chain from position 0 to the end of the list in order (a dict is dropped, read twice, or read out of list order): a selection / reordering of the list"), f_, tl.first or f_.node, f"{f_.qualname} split scan of self.{loc}")
            if tl.status in ("ok", "bad"):
                continue
            for top, canon_ in _syntactic_reads(f_, loc) if f_ is not None else []:
                key = (fq_, _pos(top))
                if key in done or id(top) in tl.defs:
                    continue
                done.add(key)
                if coverage(canon_, loc) == "partial":
                    ctx.ob(rid, f"{f_.qualname}: the read `{norm(top)}` hands on every wrapped dict in list order", False, f"`{norm(top)}` is a selection / reordering of the list", f_, top, f"{f_.qualname} scan iterable `{norm(top)}`")
    return nread, nloops


# =====================================================================================================================
# R8.8 - in-place removal loops visit every element
#
# Deleting from a list while walking it moves the element behind the hole into the hole.  A walk that then advances
# (a ``for`` loop's iterator, ``enumerate`` / ``range`` indices, ``idx += 1``) never looks at that element: of two
# adjacent matches the second one survives.  Necessary condition on the CFG of every loop of the container modules:
#
#   for-loop over list L (lazily: L, iter(L), enumerate(L), zip(L, ..), range(len(L))) whose body removes from L
#   (del L[i] / L.pop(i) / L.remove(x), one level of self-helper followed): no path leads from the removal back to the
#   loop head - unless the walk is descending (reversed(..), range(.., -1, -1)), or it runs over a snapshot
#   (list(L), L[:], L.copy(), sorted(L) ...) and the removal is not addressed by the loop's own index;
#   while-loop that deletes at an index variable of a list it reads at that variable / whose length it tests: on every
#   path from the deletion back to the loop test the net change of the index variable is <= 0.

CONTAINER_PKG = "werkzeug.datastructures"
SNAPSHOT_FUNCS = {"list", "tuple", "sorted"}
LAZY_FUNCS = {"iter"}


def _own_nodes(stmts: list[ast.stmt]) -> list[ast.AST]:
    """all AST nodes of the statements, nested function / class bodies excluded."""
    out: list[ast.AST] = []
    stack: list[ast.AST] = list(stmts)
    while stack:
        n = stack.pop()
        out.append(n)
        for ch in ast.iter_child_nodes(n):
            if isinstance(ch, (ast.FunctionDef, ast.AsyncFunctionDef, ast.ClassDef, ast.Lambda)):
                continue
            stack.append(ch)
    return out


def _local_aliases(fn: ast.AST) -> dict[str, ast.AST]:
    """locals bound exactly once, by a plain ``name = <expr>`` (copy propagation for ``lst = self._list``)."""
    stores: dict[str, int] = {}
    simple: dict[str, ast.AST] = {}
    for n in _own_nodes(list(fn.body)):  # type: ignore[attr-defined]
        if isinstance(n, ast.Name) and isinstance(n.ctx, (ast.Store, ast.Del)):
            stores[n.id] = stores.get(n.id, 0) + 1
        if isinstance(n, ast.Assign) and len(n.targets) == 1 and isinstance(n.targets[0], ast.Name):
            simple[n.targets[0].id] = n.value
        elif isinstance(n, ast.AnnAssign) and isinstance(n.target, ast.Name) and n.value is not None:
            simple[n.target.id] = n.value
    a = fn.args  # type: ignore[attr-defined]
    params = {x.arg for x in a.posonlyargs + a.args + a.kwonlyargs} | ({a.vararg.arg} if a.vararg else set()) | ({a.kwarg.arg} if a.kwarg else set())
    return {k: v for k, v in simple.items() if stores.get(k) == 1 and k not in params}


def _resolve(e: ast.AST, aliases: dict[str, ast.AST], depth: int = 0) -> ast.AST:
    while isinstance(e, ast.Name) and e.id in aliases and depth < 6:
        e = aliases[e.id]
        depth += 1
    return e


def _canon_expr(e: ast.AST, aliases: dict[str, ast.AST]) -> str:
    repl = {}
    for x in ast.walk(e):
        if isinstance(x, ast.Name) and x.id in aliases:
            r = _resolve(x, aliases)
            if r is not x and isinstance(r, (ast.Name, ast.Attribute)):
                repl[id(x)] = norm(r)
    return H.text(H.clone(e, repl)) if repl else norm(e)


class _Walk:
    """how a ``for`` loop traverses: the list it runs over (canonical text; None: not a plain sequence walk), whether it
    runs over a copy, whether it runs backwards, and the name holding the position (enumerate / range)."""

    def __init__(self) -> None:
        self.base: str | None = None
        self.snapshot = False
        self.descending = False
        self.index: str | None = None


def _negative(e: ast.AST) -> bool:
    return isinstance(e, ast.UnaryOp) and isinstance(e.op, ast.USub) and isinstance(e.operand, ast.Constant) and isinstance(e.operand.value, int) and e.operand.value > 0


def _walk_of(loop: ast.For, aliases: dict[str, ast.AST]) -> _Walk:
    w = _Walk()
    e: ast.AST = loop.iter
    target: ast.AST | None = loop.target
    for _ in range(12):
        e = _resolve(e, aliases)
        if isinstance(e, ast.Subscript) and isinstance(e.slice, ast.Slice):
            s = e.slice
            if s.lower is None and s.upper is None and (s.step is None or _negative(s.step)):
                w.snapshot = True
                if s.step is not None:
                    w.descending = not w.descending
                e = e.value
                continue
            return w  # a part of the list: not judged
        if isinstance(e, ast.Call):
            d = dotted(e.func) or ""
            if isinstance(e.func, ast.Attribute) and e.func.attr == "copy" and not e.args:
                w.snapshot = True
                e = e.func.value
                continue
            if d == "enumerate" and e.args:
                if isinstance(target, (ast.Tuple, ast.List)) and len(target.elts) == 2:
                    if isinstance(target.elts[0], ast.Name) and w.index is None:
                        w.index = target.elts[0].id
                    target = target.elts[1]
                else:
                    target = None
                e = e.args[0]
                continue
            if d == "reversed" and len(e.args) == 1:
                w.descending = not w.descending
                e = e.args[0]
                continue
            if d in SNAPSHOT_FUNCS and e.args:
                w.snapshot = True
                e = e.args[0]
                continue
            if d in LAZY_FUNCS and len(e.args) == 1:
                e = e.args[0]
                continue
            if d == "zip" and e.args:
                if isinstance(target, (ast.Tuple, ast.List)) and len(target.elts) == len(e.args):
                    target = target.elts[0]
                else:
                    target = None
                e = e.args[0]
                continue
            if d == "range" and 1 <= len(e.args) <= 3:
                lens = [x for a_ in e.args for x in ast.walk(a_) if isinstance(x, ast.Call) and dotted(x.func) == "len" and len(x.args) == 1]
                if len(lens) != 1:
                    return w
                if len(e.args) == 3:
                    if _negative(e.args[2]):
                        w.descending = not w.descending
                    elif not (isinstance(e.args[2], ast.Constant) and isinstance(e.args[2].value, int) and e.args[2].value > 0):
                        return w
                if isinstance(target, ast.Name) and w.index is None:
                    w.index = target.id
                w.base = _canon_expr(lens[0].args[0], aliases)
                return w
            return w  # some other call: not a walk over a list we can name
        if isinstance(e, (ast.Name, ast.Attribute)):
            w.base = _canon_expr(e, aliases)
        return w
    return w


class _Site(t.NamedTuple):
    node: ast.AST  # the statement / call in the loop body (location, CFG node)
    cont: str  # canonical text of the container an element leaves
    how: str  # 'index' | 'value'
    arg: ast.AST | None  # index / value expression (in the loop's function)
    text: str


def _direct_sites(nodes: list[ast.AST], aliases: dict[str, ast.AST]) -> list[_Site]:
    out = []
    for n in nodes:
        if isinstance(n, ast.Delete):
            for tg in n.targets:
                if isinstance(tg, ast.Subscript):
                    idx: ast.AST | None = tg.slice
                    if isinstance(idx, ast.Slice):
                        idx = idx.lower if idx.lower is not None and idx.step is None else None
                        if idx is None:
                            continue  # del L[:] / del L[a:b:c]: not the removal of one element at a position
                    out.append(_Site(n, _canon_expr(tg.value, aliases), "index", idx, norm(n)))
        elif isinstance(n, ast.Call) and isinstance(n.func, ast.Attribute) and not n.keywords and len(n.args) == 1 and not isinstance(n.args[0], ast.Starred):
            if n.func.attr == "pop":
                out.append(_Site(n, _canon_expr(n.func.value, aliases), "index", n.args[0], norm(n)))
            elif n.func.attr == "remove":
                out.append(_Site(n, _canon_expr(n.func.value, aliases), "value", n.args[0], norm(n)))
    return out


def _helper_sites(repo: Repo, fi: FuncInfo, nodes: list[ast.AST], aliases: dict[str, ast.AST]) -> list[_Site]:
    """one level of helper following: ``self.h(a, b)`` in the loop body, h a method of the class (MRO) that removes
    from ``self.<attr>`` at / by one of its parameters."""
    out: list[_Site] = []
    if fi.cls is None or not fi.params:
        return out
    me = fi.params[0]
    for n in nodes:
        if not (isinstance(n, ast.Call) and isinstance(n.func, ast.Attribute) and isinstance(n.func.value, ast.Name) and n.func.value.id == me):
            continue
        _, h = repo.lookup(fi.cls, n.func.attr)
        if not isinstance(h, FuncInfo) or h is fi or not h.params or any(isinstance(x, ast.Starred) for x in n.args):
            continue
        hself = h.params[0]
        bind: dict[str, ast.AST] = {}
        hp = [x.arg for x in h.node.args.posonlyargs + h.node.args.args][1:]  # type: ignore[attr-defined]
        for p_, a_ in zip(hp, n.args):
            bind[p_] = a_
        for kw in n.keywords:
            if kw.arg:
                bind[kw.arg] = kw.value
        hal = _local_aliases(h.node)
        for s in _direct_sites(_own_nodes(list(h.node.body)), hal):  # type: ignore[attr-defined]
            m = re.fullmatch(re.escape(hself) + r"\.(\w+)", s.cont)
            if not m or s.arg is None:
                continue
            names = [x for x in ast.walk(s.arg) if isinstance(x, ast.Name)]
            if not names or any(x.id not in bind for x in names):
                continue
            arg = H.P(H.text(H.clone(s.arg, {id(x): f"({norm(bind[x.id])})" for x in names})))
            out.append(_Site(n, f"{me}.{m.group(1)}", s.how, arg, f"{norm(n)} -> {h.qualname}: {s.text}"))
    return out


def _delta_of(st: ast.AST | None, var: str) -> int | str | None:
    """effect of a simple statement on the index variable: an int (``v += 2`` / ``v = v - 1``), 'reset' (any other
    binding), None (does not bind it)."""
    if isinstance(st, ast.AugAssign) and isinstance(st.target, ast.Name) and st.target.id == var:
        if isinstance(st.op, (ast.Add, ast.Sub)) and isinstance(st.value, ast.Constant) and isinstance(st.value.value, int):
            return st.value.value if isinstance(st.op, ast.Add) else -st.value.value
        if isinstance(st.op, ast.Add):
            return 1  # advancing by a computed amount: treated as moving forward
        return "reset"
    if isinstance(st, (ast.Assign, ast.AnnAssign)):
        tgs = st.targets if isinstance(st, ast.Assign) else [st.target]
        if any(isinstance(x, ast.Name) and x.id == var for tg in tgs for x in ast.walk(tg)):
            v = st.value
            if isinstance(v, ast.BinOp) and isinstance(v.op, (ast.Add, ast.Sub)) and isinstance(v.left, ast.Name) and v.left.id == var and isinstance(v.right, ast.Constant) and isinstance(v.right.value, int) and all(isinstance(tg, ast.Name) for tg in tgs):
                return v.right.value if isinstance(v.op, ast.Add) else -v.right.value
            return "reset"
    if isinstance(st, (ast.For, ast.AsyncFor)) and any(isinstance(x, ast.Name) and x.id == var for x in ast.walk(st.target)):
        return "reset"
    if isinstance(st, ast.AST) and not isinstance(st, (ast.For, ast.AsyncFor, ast.While)) and any(isinstance(x, ast.NamedExpr) and x.target.id == var for x in ast.walk(st)):
        return "reset"
    return None


def _paths_back(cfg, start, head, inloop: set[int], var: str | None, limit: int = 4000) -> list[tuple[int, bool, list[int]]]:
    """every simple path start -> ... -> loop head that stays inside the loop: (net change of ``var``, var rebound on
    the way, line numbers)."""
    out: list[tuple[int, bool, list[int]]] = []
    stack: list[tuple[t.Any, int, bool, frozenset[int], tuple[int, ...]]] = [(start, 0, False, frozenset([start.id]), (start.lineno,))]
    steps = 0
    while stack:
        node, delta, reset, seen, lines = stack.pop()
        steps += 1
        if steps > limit:
            raise AnalysisError(f"removal loop at line {head.lineno}: more than {limit} paths back to the loop head")
        for succ, _lab in node.succs:
            if succ is head:
                out.append((delta, reset, list(lines)))
                continue
            if succ.id not in inloop or succ.id in seen:
                continue
            d2, r2 = delta, reset
            if var is not None and succ.kind in ("stmt", "loop"):
                eff = _delta_of(succ.ast, var)
                if eff == "reset":
                    r2 = True
                elif isinstance(eff, int):
                    d2 += eff
            stack.append((succ, d2, r2, seen | {succ.id}, lines + (succ.lineno,)))
    return out


def removal_loop_rule(ctx: Ctx, rid: str) -> tuple[int, int]:
    """R8.8; returns (#element-removal sites seen in the container modules, #(loop, removal) pairs judged)."""
    from ..cfg import cfg_of

    repo = ctx.repo
    nsites = npairs = 0
    funcs = [f for f in repo.all_functions() if f.module.name.startswith(CONTAINER_PKG)]
    for fi in sorted(funcs, key=lambda f: f.fq):
        body = list(fi.node.body)  # type: ignore[attr-defined]
        own = _own_nodes(body)
        aliases = _local_aliases(fi.node)
        nsites += len(_direct_sites(own, aliases))
        loops = [n for n in own if isinstance(n, (ast.For, ast.AsyncFor, ast.While))]
        if not loops:
            continue
        cfg = cfg_of(fi)
        for loop in sorted(loops, key=lambda n: (n.lineno, n.col_offset)):
            inner = _own_nodes(list(loop.body))
            sites = _direct_sites(inner, aliases) + _helper_sites(repo, fi, inner, aliases)
            if not sites:
                continue
            heads = cfg.by_ast.get(id(loop)) or []
            if not heads:
                raise AnalysisError(f"{fi.fq}: loop at line {loop.lineno} has no CFG node")
            head = heads[0]
            test_nodes = _own_nodes([loop.test]) if isinstance(loop, ast.While) else []
            ids = {id(x) for x in inner} | {id(x) for x in test_nodes}
            inloop = {n.id for n in cfg.nodes if n.ast is not None and id(n.ast) in ids}
            header = f"while {norm(loop.test)}" if isinstance(loop, ast.While) else f"for {norm(loop.target)} in {norm(loop.iter)}"
            walk = _walk_of(loop, aliases) if not isinstance(loop, ast.While) else None
            for s in sites:
                start = cfg.node_of(s.node)
                if start is None or start.id not in inloop:
                    continue
                ok, fact = True, ""
                if walk is not None:
                    if walk.base is None or s.cont != walk.base:
                        continue  # the loop does not run over the container the element leaves
                    back = _paths_back(cfg, start, head, inloop, None)
                    uses_index = walk.index is not None and s.how == "index" and s.arg is not None and any(isinstance(x, ast.Name) and x.id == walk.index for x in ast.walk(s.arg))
                    if not back:
                        fact = "every path leaves the loop after the removal (break / return / raise): the walk does not continue over the changed list"
                    elif walk.descending:
                        fact = "the walk runs backwards: the elements that move are the ones already visited"
                    elif uses_index:
                        ok, fact = False, f"the loop goes on (lines {', '.join(map(str, back[0][2]))}) after deleting at its own position `{walk.index}`: the element that moves into the hole is never examined (of two adjacent matches the second survives" + ("; the positions of the copy no longer fit the list)" if walk.snapshot else ")")
                    elif not walk.snapshot:
                        ok, fact = False, f"the loop goes on (lines {', '.join(map(str, back[0][2]))}) over `{walk.base}` itself after an element has been removed from it: the iterator skips the element that moves into the hole"
                    else:
                        fact = "the loop runs over a copy and the removal is not addressed by the loop's position"
                else:
                    if s.how != "index" or s.arg is None:
                        continue
                    ivars = sorted({x.id for x in ast.walk(s.arg) if isinstance(x, ast.Name)})
                    reads = {(_canon_expr(x.value, aliases), y.id) for x in inner + test_nodes if isinstance(x, ast.Subscript) and isinstance(x.ctx, ast.Load) for y in ast.walk(x.slice) if isinstance(y, ast.Name)}
                    lens = {_canon_expr(x.args[0], aliases) for x in test_nodes if isinstance(x, ast.Call) and dotted(x.func) == "len" and len(x.args) == 1}
                    ivars = [v for v in ivars if any(_delta_of(x, v) is not None for x in inner) and ((s.cont, v) in reads or s.cont in lens)]
                    if not ivars:
                        continue  # not an index walk over this list
                    bad = None
                    n_back = 0
                    for v in ivars:
                        for delta, reset, lines in _paths_back(cfg, start, head, inloop, v):
                            n_back += 1
                            if delta > 0 and not reset and bad is None:
                                bad = (v, delta, lines)
                    if bad:
                        ok, fact = False, f"after deleting at position `{bad[0]}` a path back to the loop test (lines {', '.join(map(str, bad[2]))}) advances `{bad[0]}` by {bad[1]}: the element that moved into the hole is never examined (of two adjacent matches the second survives)"
                    else:
                        fact = f"index walk over `{s.cont}` by {ivars}: none of the {n_back} path(s) from the deletion back to the loop test advances the index"
                npairs += 1
                ctx.ob(rid, f"{fi.qualname}: `{s.text}` inside `{header}` does not make the walk skip an element", ok, fact, fi, s.node, f"{fi.qualname} removal `{s.text}` in `{header}`")
    return nsites, npairs


# =====================================================================================================================
# R8.9 - get() never raises for a missing value

LOOKUP_ERRORS = {"KeyError", "BadRequestKeyError", "LookupError", "IndexError"}


class _GetExec(H.Exec):
    """the executor, additionally saying which function a ``raise`` statement is executed in."""

    def _raise_node(self, a, node, st, fr, work, out):  # type: ignore[override]
        st = self.emit(st, ("raising", a, fr.fi))
        return super()._raise_node(a, node, st, fr, work, out)


def _same_call_returned(a, ev, st):
    """path automaton for R8.9: a call that returned normally cannot raise when it is repeated with the same arguments
    while the object is unchanged (the membership test that ran the lookup, then the lookup itself).  State: (active
    calls, calls that returned since the last mutation, an infeasible repetition was seen)."""
    stack, returned, dead = a
    k = ev[0]
    fi = ev[-1] if isinstance(ev[-1], FuncInfo) else None
    if k == "enter" and fi is not None:
        stack = stack + ((fi.fq, ev[2]),)
    elif k in ("return", "raising") and fi is not None:
        idx = max((i for i, (fq, _) in enumerate(stack) if fq == fi.fq), default=None)
        if idx is not None:
            if k == "return":
                returned = returned | {stack[idx]}
                stack = stack[:idx]
            else:
                stack = stack[: idx + 1]  # what lies above was left by an exception that has been handled
                if stack[-1] in returned:
                    dead = True
    elif k in ("mut", "store", "storeitem"):
        returned = frozenset()
    return (stack, returned, dead)


def get_never_raises_rule(ctx: Ctx, rid: str) -> tuple[int, int]:
    """R8.9: ``get`` of every container class (resolved in its MRO, item access / membership / helpers inlined as the
    class's MRO resolves them - a subclass's ``__getitem__`` that also raises for a key that is present without values
    is the one executed): no path lets an explicitly raised lookup error escape.  Returns (#classes judged, #classes
    whose item access is a package method, i.e. can raise explicitly)."""
    repo = ctx.repo
    n = n_pkg = 0
    for c in sorted(repo.all_classes(), key=lambda c: c.fq):
        if not c.module.name.startswith(CONTAINER_PKG):
            continue
        owner, g = repo.lookup(c, "get")
        if not isinstance(g, FuncInfo) or not g.module.name.startswith(CONTAINER_PKG):
            continue
        _, gi = repo.lookup(c, "__getitem__")
        ex = _GetExec(repo, c, on_event=_same_call_returned)
        outs = ex.run_function(g, auto0=((), frozenset(), False))
        raised: dict[str, H.Out] = {}
        n_dead = 0
        for o in outs:
            if o.kind == "raise" and not o.value.startswith("~"):
                if o.st.auto[2]:
                    n_dead += 1  # the raising call had already returned normally for the same arguments on this path
                    continue
                raised.setdefault(o.value, o)
        if "?" in raised and not (set(raised) & LOOKUP_ERRORS):
            raise AnalysisError(f"{c.name}.get ({g.fq}): a path raises an exception whose type the executor cannot name (lines {', '.join(map(str, raised['?'].st.trail))})")
        n += 1
        n_pkg += isinstance(gi, FuncInfo)
        bad = sorted(set(raised) & LOOKUP_ERRORS)
        if bad:
            o = raised[bad[0]]
            known = ", ".join(f"{k}={v}" for k, v in sorted(o.st.facts.items()) if "__p1__" in k)[:300]
            fact = f"get resolves to {g.qualname}, item access to {gi.qualname if isinstance(gi, FuncInfo) else 'the builtin'}: a path lets {bad[0]} escape (lines {', '.join(map(str, o.st.trail))}; on that path: {known or 'no condition on the key'}) instead of returning the default"
        else:
            others = sorted(set(raised) - LOOKUP_ERRORS)
            fact = f"get resolves to {g.qualname}, item access to {gi.qualname if isinstance(gi, FuncInfo) else 'the builtin'}: {len(outs)} path outcome(s), no explicitly raised lookup error escapes" + (f" (other explicit raises: {others})" if others else "") + (f"; {n_dead} raising path(s) repeat a call that had returned normally for the same arguments on the unchanged object - infeasible" if n_dead else "")
        ctx.ob(rid, f"{c.name}.get returns the default instead of raising for a key without value", not bad, fact, g, g.node, f"{c.name}.get never raises")
    return n, n_pkg


# =====================================================================================================================
# R8.10 - the pickle reduction of a multi dict carries every value
#
# Meaning: the value the reduction hands to pickle must be *derived from a read of the object that carries every value
# of every key*.  Which spelling the derivation takes does not matter: the read can sit in the returned expression,
# reach it through locals, through a private helper / another method of the class / a module-level helper, through
# ``super()``, or through a container that a loop fills element by element.  Two decision procedures:
#
#   * term mode - the path executor's return terms (locals, tuple assignments, conditional expressions, private and
#     module-level helpers resolved), judged per path; used when the reduction and the helpers it inlines never mutate a
#     local container (then a term says everything about the value);
#   * flow mode - a flow-insensitive def/use closure on the AST of the function: which reads of the object reach the
#     returned expression through bindings, loop targets and container growth (append / extend / update / item store /
#     setdefault(...).append ...).  All pairs of items(multi=True) stored per key into a dict (``state[key] = value``,
#     last one wins) are the first-value view again; appended to a list, or to a per-key list, they are complete.
#
# Method calls on the object that are not reader names of the model (``self.__getstate__()``, ``self._pickle_args()``)
# and module-level helpers that receive the object are followed: the call is as complete as the callee's own result.

MULTIDICT = "datastructures.structures.MultiDict"
FLATTENING_CALLS = {"dict", "list", "tuple", "set", "frozenset", "sorted", "iter", "enumerate", "zip", "map", "filter", "reversed", "next"}
RAW_DICT_READS = {"dict.items", "dict.values", "dict.copy"}  # the underlying dict of lists, not the first-value view
LIST_READERS = {"lists", "listvalues", "getlist", "poplist"}
OBJECT_READERS = {"copy", "deepcopy", "__copy__", "__deepcopy__"}
KEY_READERS = {"keys", "__iter__", "__len__", "__contains__"}
FLAT_READERS = {"values", "get", "__getitem__", "pop", "popitem", "setdefault"}
# the same names on the builtin dict under the multi dict read the raw storage: the values are the per-key lists
RAW_STORAGE_READERS = {"items", "values", "copy", "get", "__getitem__", "pop", "popitem", "setdefault"}
GROW_METHODS = {"append", "extend", "add", "update", "insert", "appendleft", "extendleft", "__setitem__"}
_OPAQUE_TERM = re.compile(r"__(?:nonempty|maybe|wide)_\w*__|__unparsable__|\bself\b")


def _const_arg(call: ast.Call, pos: int, name: str) -> t.Any:
    for kw in call.keywords:
        if kw.arg == name:
            return H.const_of(H.text(kw.value))
    if len(call.args) > pos and not isinstance(call.args[pos], ast.Starred):
        return H.const_of(H.text(call.args[pos]))
    return None  # not given


def _grown_local(e: ast.AST) -> str | None:
    """the local container an expression denotes a part of: ``x``, ``x[k]``, ``x.setdefault(k, [])``, ``x.get(k)``."""
    for _ in range(4):
        if isinstance(e, ast.Name):
            return e.id
        if isinstance(e, ast.Subscript):
            e = e.value
        elif isinstance(e, ast.Call) and isinstance(e.func, ast.Attribute) and e.func.attr in ("setdefault", "get", "__getitem__"):
            e = e.func.value
        else:
            return None
    return None


def _mutates_local_container(fn: ast.AST) -> bool:
    """does the function grow / store into a container held in a local (then the executor's term for that local does
    not describe its final content)?"""
    me = fn.args.args[0].arg if getattr(fn, "args", None) and fn.args.args else None  # type: ignore[attr-defined]
    for n in _own_nodes(list(fn.body)):  # type: ignore[attr-defined]
        if isinstance(n, ast.Call) and isinstance(n.func, ast.Attribute) and n.func.attr in GROW_METHODS | {"setdefault"}:
            x = _grown_local(n.func.value)
            if x is not None and x != me:
                return True
        elif isinstance(n, (ast.Assign, ast.AnnAssign, ast.AugAssign)):
            tgs = n.targets if isinstance(n, ast.Assign) else [n.target]
            for tg in tgs:
                for y in ast.walk(tg):
                    if isinstance(y, ast.Subscript) and _grown_local(y.value) not in (None, me):
                        return True
            if isinstance(n, ast.AugAssign) and isinstance(n.target, ast.Name):
                return True
    return False


class _PickleJudge:
    """decides, for one class, whether the value a function returns is derived from a complete read of the object."""

    def __init__(self, repo: Repo, cls: ClassInfo, md: ClassInfo) -> None:
        self.repo, self.cls, self.md = repo, cls, md
        self.memo: dict[tuple[str, int], tuple[bool, list[str], list[str]]] = {}

    # ---- callees ------------------------------------------------------------------------------------------------
    def _callees(self, fi: FuncInfo, me: str | None) -> list[FuncInfo]:
        out: list[FuncInfo] = []
        for n in _own_nodes(list(fi.node.body)):  # type: ignore[attr-defined]
            if not isinstance(n, ast.Call):
                continue
            g = None
            if isinstance(n.func, ast.Attribute) and isinstance(n.func.value, ast.Name) and n.func.value.id == me:
                a = n.func.attr
                if a.startswith("_") and not (a.startswith("__") and a.endswith("__")):  # what the executor inlines
                    _, g = self.repo.lookup(self.cls, a)
            elif isinstance(n.func, ast.Name):
                tgt = self.repo.resolve(fi.module, n.func.id)
                g = self.repo.try_func(tgt) if tgt and tgt.startswith("werkzeug") else None
            if isinstance(g, FuncInfo) and g is not fi and g not in out:
                out.append(g)
        return out

    def _term_mode_ok(self, fi: FuncInfo, me: str | None) -> bool:
        seen: set[str] = set()
        work = [fi]
        while work:
            f = work.pop()
            if f.fq in seen:
                continue
            seen.add(f.fq)
            if _mutates_local_container(f.node):
                return False
            if len(seen) > 40:
                return False
            work.extend(self._callees(f, f.params[0] if f.params and f.cls is not None else None))
        return True

    # ---- the judgement of one function --------------------------------------------------------------------------
    def judge(self, fi: FuncInfo, me_idx: int = 0, stack: frozenset = frozenset()) -> tuple[bool, list[str], list[str]]:
        """(every returned value is derived from a complete read, facts, descriptions of the values that are not).
        ``me_idx``: which parameter holds the multi dict (0 for methods)."""
        key = (fi.fq, me_idx)
        if key in self.memo:
            return self.memo[key]
        if key in stack:
            raise AnalysisError(f"{self.cls.name}: the pickle state is computed recursively through {fi.qualname}")
        stack = stack | {key}
        me = fi.params[me_idx] if len(fi.params) > me_idx else None
        if me is None:
            raise AnalysisError(f"{self.cls.name}: {fi.qualname} has no parameter {me_idx} to hold the object")
        follow = lambda g, idx=0: self.judge(g, idx, stack)  # noqa: E731
        facts: list[str] = []
        bad: list[str] = []
        vals: list[str] | None = None
        is_generator = any(isinstance(n, (ast.Yield, ast.YieldFrom)) for n in _own_nodes(list(fi.node.body)))  # type: ignore[attr-defined]
        if me_idx == 0 and fi.cls is not None and not is_generator and self._term_mode_ok(fi, me):
            ex = H.Exec(self.repo, self.cls, inline_public=False)
            vals = sorted({o.value for o in ex.run_function(fi, auto0=None) if o.kind == "ret"})
            if not vals:
                raise AnalysisError(f"{self.cls.name}: {fi.qualname} has no returning path")
            if any(_OPAQUE_TERM.search(v) for v in vals):
                vals = None  # a local the executor widened / a name it left unresolved: the term does not say what it holds
        if vals is not None:
            judged = [(v, _state_reads(v, self, fi, follow)) for v in vals]
            some_complete = any(k in ("lists", "pairs", "object") for _, reads in judged for k, _t in reads)
            for v, reads in judged:
                if not reads and some_complete:
                    # a path whose state does not mention the object (``if not self: return cls, ([],)``) next to paths
                    # that read it completely: which objects take that path is not decided here - not the flat view
                    facts.append(f"`{v}` is a constant state")
                    continue
                self._verdict(f"`{v}`", reads, fi, facts, bad)
        else:
            self._verdict(f"the value built in {fi.qualname}", self._flow_reads(fi, me, follow), fi, facts, bad)
        res = (not bad, facts, bad)
        self.memo[key] = res
        return res

    def _verdict(self, what: str, reads: list[tuple[str, str]], fi: FuncInfo, facts: list[str], bad: list[str]) -> None:
        complete = [t_ for k, t_ in reads if k in ("lists", "pairs", "object")]
        unknown = [t_ for k, t_ in reads if k == "unknown"]
        flat = [t_ for k, t_ in reads if k == "flat"]
        if complete:
            facts.append(f"{what} reads every value through `{complete[0]}`")
        elif unknown:
            raise AnalysisError(f"{self.cls.name}: cannot decide whether the pickle state {what} ({fi.qualname}) carries every value: `{unknown[0]}` is not a read the rule knows")
        else:
            bad.append(f"{what} is built from {('`' + flat[0] + '`') if flat else 'nothing of the object'} - the first-value view of the multi dict (one value per key): the additional values of a key do not survive a pickle round trip")

    # ---- flow mode ----------------------------------------------------------------------------------------------
    def _flow_reads(self, fi: FuncInfo, me: str, follow) -> list[tuple[str, str]]:
        fn = fi.node
        own = _own_nodes(list(fn.body))  # type: ignore[attr-defined]
        contrib: dict[str, list[tuple[ast.AST, str]]] = {}

        def add(name: str | None, expr: ast.AST | None, how: str) -> None:
            if name is not None and name != me and expr is not None:
                contrib.setdefault(name, []).append((expr, how))

        def mentions(e: ast.AST, name: str) -> bool:
            return any(isinstance(y, ast.Name) and y.id == name for y in ast.walk(e))

        def bind_target(tg: ast.AST, value: ast.AST | None, how: str) -> None:
            if isinstance(tg, ast.Name):
                add(tg.id, value, how)
            elif isinstance(tg, (ast.Tuple, ast.List, ast.Starred)):
                for el in getattr(tg, "elts", None) or [tg.value]:  # type: ignore[attr-defined]
                    bind_target(el, value, how)
            elif isinstance(tg, ast.Subscript):
                x = _grown_local(tg.value)
                if x is not None and value is not None:
                    add(x, value, "grow" if mentions(value, x) or not isinstance(tg.value, ast.Name) else "item")
                    add(x, tg.slice, "key")
            elif isinstance(tg, ast.Attribute):
                x = _grown_local(tg.value)
                add(x, value, "grow")

        for n in own:
            if isinstance(n, ast.Assign):
                for tg in n.targets:
                    bind_target(tg, n.value, "bind")
            elif isinstance(n, ast.AnnAssign):
                bind_target(n.target, n.value, "bind")
            elif isinstance(n, ast.AugAssign):
                if isinstance(n.target, ast.Name):
                    add(n.target.id, n.value, "grow")
                else:
                    add(_grown_local(n.target), n.value, "grow")
            elif isinstance(n, (ast.For, ast.AsyncFor)):
                bind_target(n.target, n.iter, "elem")
            elif isinstance(n, ast.NamedExpr):
                add(n.target.id, n.value, "bind")
            elif isinstance(n, (ast.With, ast.AsyncWith)):
                for it in n.items:
                    if it.optional_vars is not None:
                        bind_target(it.optional_vars, it.context_expr, "bind")
            elif isinstance(n, ast.Call) and isinstance(n.func, ast.Attribute) and n.func.attr in GROW_METHODS | {"setdefault"}:
                x = _grown_local(n.func.value)
                if x is not None and x != me:
                    # x.__setitem__(k, v) / x.setdefault(k, v): one value per key survives (the last / the first one)
                    direct_store = n.func.attr in ("__setitem__", "setdefault") and isinstance(n.func.value, ast.Name)
                    for i, a_ in enumerate(n.args):
                        how = "grow"
                        if direct_store and not isinstance(a_, ast.Starred):
                            how = "key" if i == 0 else "item" if not mentions(a_, x) else "grow"
                        add(x, a_.value if isinstance(a_, ast.Starred) else a_, how)
                    for kw in n.keywords:
                        add(x, kw.value, "grow")

        returns = [n.value for n in own if isinstance(n, ast.Return) and n.value is not None]
        returns += [n.value for n in own if isinstance(n, (ast.Yield, ast.YieldFrom)) and n.value is not None]
        if not returns:
            raise AnalysisError(f"{self.cls.name}: {fi.qualname} returns no value")
        out: list[tuple[str, str]] = []
        seen: set[tuple[int, str]] = set()
        # phase: 'plain' | 'item' (reached through a per-key store into a dict) | 'collapsed' (.. of a loop element) |
        # 'keyonly' (reached as the key of such a store)
        work: list[tuple[ast.AST, str, bool]] = [(r, "plain", False) for r in returns]
        steps = 0
        while work:
            e, phase, iterated = work.pop()
            if (id(e), phase) in seen:
                continue
            seen.add((id(e), phase))
            steps += 1
            if steps > 2000:
                raise AnalysisError(f"{self.cls.name}: {fi.qualname}: value flow too large to follow")
            repl = {id(y): H.SELF for y in ast.walk(e) if isinstance(y, ast.Name) and y.id == me}
            txt = H.text(H.clone(e, repl)) if repl else norm(e)
            if iterated:
                txt = f"iter({txt})"  # the expression is consumed by iteration (a bare multi dict then gives its keys)
            for kind, rt in _state_reads(txt, self, fi, follow):
                if phase == "keyonly" and kind != "unknown":
                    kind = "keys"  # reached only as the key of a per-key store: contributes keys, no values
                elif kind == "pairs" and phase == "collapsed":
                    kind, rt = "flat", f"{rt} stored per key (one value of a key survives)"
                out.append((kind, rt))
            for y in ast.walk(e):
                if isinstance(y, ast.Name) and isinstance(y.ctx, ast.Load) and y.id in contrib:
                    for expr, how in contrib[y.id]:
                        if phase == "keyonly" or how == "key":
                            nxt = "keyonly"
                        elif how == "item":
                            nxt = "item"
                        elif how == "elem":
                            nxt = "collapsed" if phase in ("item", "collapsed") else "plain"
                        elif how == "grow":
                            nxt = "plain"
                        else:  # bind: keeps the phase
                            nxt = phase
                        work.append((expr, nxt, how == "elem"))
        return out


def _state_reads(term: str, judge: _PickleJudge, fi: FuncInfo, follow) -> list[tuple[str, str]]:
    """how a pickle state expression reads the object: (kind, text) per occurrence of the object in it.  kinds:
    'lists' - per-key value lists / raw storage (complete whatever wraps it); 'pairs' - all (key, value) pairs
    (complete unless collapsed by ``dict(...)``); 'object' - the multi dict itself or a copy (complete unless handed to
    a builtin that iterates it like a plain dict); 'flat' - the first-value view; 'keys' - keys only; 'unknown'."""
    repo, cls, md, module = judge.repo, judge.cls, judge.md, fi.module
    tree = H.P(term)
    parent: dict[int, ast.AST] = {}
    for n in ast.walk(tree):
        for ch in ast.iter_child_nodes(n):
            parent[id(ch)] = n
    out: list[tuple[str, str]] = []

    def collapsed_by_dict(n: ast.AST) -> bool:
        cur = parent.get(id(n))
        while cur is not None:
            if isinstance(cur, ast.Call) and dotted(cur.func) == "dict":
                return True
            if isinstance(cur, ast.DictComp):
                return True
            cur = parent.get(id(cur))
        return False

    def followed(g: FuncInfo, idx: int = 0) -> str:
        ok, _, _ = follow(g, idx)
        return "lists" if ok else "flat"

    def as_object(n: ast.AST) -> str:
        """the node denotes the multi dict (or a copy of it): what does its context do with it?"""
        p = parent.get(id(n))
        if isinstance(p, ast.Call) and n in p.args:
            d = dotted(p.func) or ""
            if d in RAW_DICT_READS:
                return "lists"
            if d.startswith("dict.") and p.args[0] is n:
                # an unbound method of the builtin dict applied to the object: the raw storage (values = per-key lists)
                a = d[5:]
                return "lists" if a in RAW_STORAGE_READERS else "keys" if a in KEY_READERS else "unknown"
            if d in FLATTENING_CALLS:
                return "flat"
            if d.rsplit(".", 1)[-1] in ("copy", "deepcopy"):
                return as_object(p)
            tgt = repo.resolve(module, d) if re.match(r"^[A-Za-z_][\w.]*$", d) and module is not None else None
            k = repo.try_cls(tgt) if tgt and tgt.startswith("werkzeug") else None
            if k is not None and any(x is md for x in repo.mro(k)):
                return as_object(p)  # the copying constructor keeps every list
            g = repo.try_func(tgt) if tgt and tgt.startswith("werkzeug") else None
            if isinstance(g, FuncInfo) and g.cls is None and not any(isinstance(a_, ast.Starred) for a_ in p.args) and not p.keywords:
                return followed(g, p.args.index(n))  # a module-level helper of the package that receives the object
            return "unknown"
        if isinstance(p, ast.comprehension) and p.iter is n:
            return "keys"
        if isinstance(p, (ast.Tuple, ast.List)) or p is None or isinstance(p, ast.Starred):
            return "object"
        return "unknown"

    def method_read(a: str, call: ast.Call, what: t.Any, raw: bool, argcall: ast.Call | None = None) -> tuple[str, str]:
        """kind of ``<object>.a(...)``; ``raw``: the name resolved to the builtin dict under the multi dict;
        ``argcall``: the call whose arguments are the method's (differs from the node for a generator stub)."""
        txt = H.text(call)
        node = call
        if argcall is not None:
            call = argcall
        if raw:
            return ("lists" if a in RAW_STORAGE_READERS else "keys" if a in KEY_READERS else "unknown"), txt
        if a == "items":
            multi = _const_arg(call, 0, "multi")
            kind = "pairs" if multi is True else "flat" if multi in (None, False) else "unknown"
            if kind == "pairs" and collapsed_by_dict(node):
                kind, txt = "flat", f"dict(.. {txt} ..)"
        elif a == "to_dict":
            flat = _const_arg(call, 0, "flat")
            kind = "lists" if flat is False else "flat" if flat in (None, True) else "unknown"
        elif a in LIST_READERS:
            kind = "lists"
        elif a in OBJECT_READERS:
            kind = as_object(node)
            if kind == "flat":
                txt = H.text(parent[id(node)])
        elif a in KEY_READERS:
            kind = "keys"
        elif a in FLAT_READERS:
            kind = "flat"
        elif isinstance(what, FuncInfo):
            kind = followed(what)  # another method of the class: as complete as what it returns
        else:
            kind = "unknown"
        return kind, txt

    for x in ast.walk(tree):
        # ---- super().name(...): resolved behind the class that defines the function
        if isinstance(x, ast.Call) and dotted(x.func) == "super" and not x.args:
            p = parent.get(id(x))
            pp = parent.get(id(p)) if p is not None else None
            if isinstance(p, ast.Attribute) and isinstance(pp, ast.Call) and pp.func is p and fi.cls is not None:
                owner, what = repo.lookup(cls, p.attr, after=fi.cls.fq)
                out.append(method_read(p.attr, pp, what, raw=not isinstance(what, FuncInfo) and isinstance(owner, BuiltinClass)))
            else:
                out.append(("unknown", H.text(p if p is not None else x)))
            continue
        if not (isinstance(x, ast.Name) and x.id == H.SELF):
            continue
        p = parent.get(id(x))
        if isinstance(p, ast.Call) and dotted(p.func) == "type" and x in p.args:
            continue
        gen = re.fullmatch(r"__gen_(\w+)__", dotted(p.func) or "") if isinstance(p, ast.Call) and p.args and p.args[0] is x else None
        if gen is not None:
            # the executor's stub for a generator method it entered (``super().items()`` -> ``__gen_items__(self)``)
            assert isinstance(p, ast.Call)
            _, what = repo.lookup(cls, gen.group(1))
            shifted = ast.Call(func=ast.Name(id=gen.group(1), ctx=ast.Load()), args=list(p.args[1:]), keywords=list(p.keywords))
            out.append(method_read(gen.group(1), p, what, raw=False, argcall=shifted))
            continue
        if isinstance(p, ast.Attribute) and p.value is x:
            if p.attr == "__class__":
                continue
            pp = parent.get(id(p))
            called = isinstance(pp, ast.Call) and pp.func is p
            owner, what = repo.lookup(cls, p.attr)
            if not called:
                if isinstance(what, FuncInfo) or what == "builtin":
                    # a bound reader handed on (``map(self.getlist, keys)``): it reads what a plain call of it reads
                    a = p.attr
                    kind = "lists" if a in LIST_READERS else "flat" if a in FLAT_READERS | {"items", "to_dict"} else "keys" if a in KEY_READERS else "unknown"
                else:
                    kind = "lists"  # a storage attribute
                out.append((kind, H.text(p)))
                continue
            assert isinstance(pp, ast.Call)
            out.append(method_read(p.attr, pp, what, raw=False))
            continue
        if isinstance(p, ast.Subscript) and p.value is x:
            out.append(("flat", H.text(p)))  # item access: the first value of the key
            continue
        kind = as_object(x)
        out.append((kind, H.text(p) if p is not None and kind in ("flat", "lists", "unknown") else H.SELF))
    return out


def pickle_state_rule(ctx: Ctx, rid: str) -> int:
    """R8.10: for every class with the multi dict in its MRO, the reduction that pickle uses - ``__reduce_ex__`` /
    ``__reduce__`` as the MRO resolves it, else the default reduction with ``__getstate__`` - builds its state from a
    read of the object that carries every value of every key.  A state built only from the first-value view
    (``dict(self)``, ``self.items()``, ``self.to_dict()``, ``list(self)`` ...) drops the additional values: the copy
    that comes back is not equal to the original."""
    repo = ctx.repo
    md = repo.cls(MULTIDICT)
    n = 0
    for c in sorted(repo.all_classes(), key=lambda c: c.fq):
        if not any(k is md for k in repo.mro(c)):
            continue
        n += 1
        via, fi = None, None
        for name in ("__reduce_ex__", "__reduce__"):
            owner, what = repo.lookup(c, name)
            if isinstance(what, FuncInfo):
                via, fi = name, what
                break
        if fi is None:
            _, gs = repo.lookup(c, "__getstate__")
            _, ss = repo.lookup(c, "__setstate__")
            if not isinstance(gs, FuncInfo) or not isinstance(ss, FuncInfo):
                ctx.ob(rid, f"{c.name}: the pickle reduction carries every value of every key", False, "no __reduce_ex__ / __reduce__ and no __getstate__ + __setstate__ pair in the package: the default reduction of a dict subclass sends `self.items()` - the first value of each key only", c.fq, c.node, f"{c.name} pickle state")
                continue
            via, fi = "__getstate__", gs
        ok, facts, bad = _PickleJudge(repo, c, md).judge(fi)
        ctx.ob(rid, f"{c.name}: the pickle reduction carries every value of every key", ok, f"{via} resolves to {fi.qualname}: " + ("; ".join(bad) if bad else "; ".join(facts)), fi, fi.node, f"{c.name} pickle state")
    return n


# ---------------------------------------------------------------------
# R8.11 / R8.12: observers evaluated on a finite table of container states
#
# Constant propagation of concrete values (DESIGN 9.2): the observer methods are walked on their syntax trees with the
# storage attribute of a modelled instance bound to each state of a small table; nothing of werkzeug is imported or
# run.  The evaluator is the one of R15.7 (a copy of `_c15_helpers.Concrete`, below), extended here by what container code needs:
# explicit raises of package exceptions caught by class (hierarchy from the loader's MRO), `del`, attribute stores on
# the modelled instance, generator functions (collected eagerly; only pure ones complete), the container protocol of
# the modelled instance (len / iter / in / item get go to the class's dunder methods) and the documented MultiDict
# model for the wrapped dicts of the combined view.  Whatever leaves that subset ends in NotConcrete -> ANALYSIS-ERROR.

# -- the concrete evaluator, a frozen copy of `_c15_helpers.Concrete` as committed with R15.7 (vendored so that C08 does not
# -- move when C15's module is edited; ModelEval below extends it) -----------------------------------------------------


class NotConcrete(Exception):
    """the evaluation met something whose value is not determined by the given inputs and the source text."""

    def __init__(self, why: str, node: ast.AST | None = None):
        super().__init__(why)
        self.why = why
        self.node = node


class ConcreteRaise(Exception):
    """the evaluated code raises."""

    def __init__(self, what: str, node: ast.AST | None = None):
        super().__init__(what)
        self.what = what
        self.node = node


class _Ret(Exception):
    def __init__(self, value: t.Any):
        self.value = value


class _Brk(Exception):
    pass


class _Cont(Exception):
    pass


class CFn(t.NamedTuple):
    """a function of the analysed package, as a value."""

    node: t.Any
    module: t.Any
    closure: t.Any = None  # enclosing environment of a nested def / lambda


class CExt(t.NamedTuple):
    """something outside the package, by its dotted name (`re`, `re.sub`, `builtins.len`)."""

    fq: str


class Opaque:
    """an input whose value the evaluation must not depend on; any operation on it ends the evaluation."""

    def __init__(self, label: str):
        self.label = label

    def __repr__(self) -> str:
        return f"<{self.label}>"


# pure methods of immutable / freshly built values; they are *applied* to constants that come from the source text
# and from the representative inputs - python's own str semantics are the trusted model here
_PURE_METHODS: dict[type, set[str]] = {
    str: {"endswith", "startswith", "rstrip", "lstrip", "strip", "removesuffix", "removeprefix", "rsplit", "split", "rpartition", "partition", "replace", "find", "rfind", "index", "rindex", "lower", "upper", "casefold", "isdigit", "isdecimal", "isnumeric", "isalpha", "isalnum", "isascii", "count", "join", "format", "title", "capitalize", "zfill", "splitlines", "encode", "translate", "center", "ljust", "rjust", "isspace", "islower", "isupper"},
    bytes: {"decode", "endswith", "startswith", "rstrip", "lstrip", "strip", "removesuffix", "removeprefix", "rsplit", "split", "rpartition", "partition", "replace", "find", "rfind", "lower", "upper", "count", "join"},
    dict: {"get", "keys", "values", "items", "copy"},
    tuple: {"index", "count"},
    list: {"index", "count", "copy"},
    set: {"copy", "union", "intersection", "difference", "issubset", "issuperset", "isdisjoint"},
    frozenset: {"copy", "union", "intersection", "difference", "issubset", "issuperset", "isdisjoint"},
    int: {"bit_length"},
}
_MUTATORS: dict[type, set[str]] = {
    list: {"append", "extend", "insert", "pop", "reverse", "sort", "clear", "remove"},
    dict: {"update", "setdefault", "pop", "clear"},
    set: {"add", "discard", "update", "remove", "clear"},
}
_PURE_BUILTINS = {"len", "str", "int", "bool", "tuple", "list", "dict", "set", "frozenset", "sorted", "reversed", "enumerate", "zip", "range", "min", "max", "any", "all", "isinstance", "repr", "ord", "chr", "abs", "sum", "map", "filter", "iter", "next", "bytes"}
_PURE_EXT = {"re.sub", "re.fullmatch", "re.match", "re.search", "re.compile", "re.escape", "re.split", "re.findall", "operator.itemgetter", "typing.cast"}
_TYPE_NAMES = {"builtins.str": str, "builtins.int": int, "builtins.bytes": bytes, "builtins.tuple": tuple, "builtins.list": list, "builtins.dict": dict, "builtins.bool": bool, "builtins.set": set, "builtins.frozenset": frozenset}


class Concrete:
    """evaluates a function of the package on concrete arguments by walking its syntax tree.

    Only what is determined by the arguments and the source text is computed: constants, module-level constants,
    displays, slicing, comparisons, boolean logic, f-strings, pure methods of str / bytes / dict / tuple / list / set
    values, a few pure builtins and `re` functions, calls of other functions of the package (followed, bounded depth),
    local containers mutated in place.  Anything else (attribute of an unknown object, an I/O call, an Opaque input)
    raises NotConcrete: the caller reports an analysis error, never a verdict."""

    def __init__(self, repo: Repo, max_steps: int = 20000, max_depth: int = 6):
        self.repo = repo
        self.steps = 0
        self.max_steps = max_steps
        self.max_depth = max_depth
        self.depth = 0
        self._modvals: dict[tuple[str, str], t.Any] = {}
        self._busy: set[tuple[str, str]] = set()
        self.calls: list[tuple[str, list, dict, ast.Call]] = []  # observed calls of `watch`ed external names
        self.watch: dict[str, t.Callable[[list, dict], t.Any]] = {}

    # -- entry --------------------------------------------------------------
    def call(self, fn: CFn, args: list, kwargs: dict, node: ast.AST | None = None) -> t.Any:
        if self.depth >= self.max_depth:
            raise NotConcrete("call depth exceeded", node)
        f = fn.node
        env = self._bind(f, fn, args, kwargs, node)
        self.depth += 1
        try:
            if isinstance(f, ast.Lambda):
                return self.expr(f.body, env, fn.module)
            try:
                self.block(f.body, env, fn.module)
            except _Ret as r:
                return r.value
            return None
        finally:
            self.depth -= 1

    def _bind(self, f: t.Any, fn: CFn, args: list, kwargs: dict, node: ast.AST | None) -> dict:
        a = f.args
        env: dict[str, t.Any] = {"__closure__": fn.closure}
        pos = [x.arg for x in a.posonlyargs + a.args]
        defaults = dict(zip(pos[len(pos) - len(a.defaults) :], a.defaults))
        kwdefaults = {x.arg: d for x, d in zip(a.kwonlyargs, a.kw_defaults) if d is not None}
        rest = list(args)
        for p in pos:
            if rest:
                env[p] = rest.pop(0)
            elif p in kwargs:
                env[p] = kwargs.pop(p)
            elif p in defaults:
                env[p] = self.expr(defaults[p], {"__closure__": fn.closure}, fn.module)
            else:
                raise NotConcrete(f"missing argument `{p}`", node)
        if a.vararg is not None:
            env[a.vararg.arg] = tuple(rest)
        elif rest:
            raise NotConcrete("too many positional arguments", node)
        kw = dict(kwargs)
        for x in a.kwonlyargs:
            if x.arg in kw:
                env[x.arg] = kw.pop(x.arg)
            elif x.arg in kwdefaults:
                env[x.arg] = self.expr(kwdefaults[x.arg], {"__closure__": fn.closure}, fn.module)
            else:
                raise NotConcrete(f"missing keyword argument `{x.arg}`", node)
        for p in pos:
            kw.pop(p, None)
        if a.kwarg is not None:
            env[a.kwarg.arg] = kw
        elif kw:
            raise NotConcrete(f"unexpected keyword argument(s) {sorted(kw)}", node)
        return env

    def tick(self, node: ast.AST | None) -> None:
        self.steps += 1
        if self.steps > self.max_steps:
            raise NotConcrete("step budget exhausted", node)

    # -- statements ---------------------------------------------------------
    def block(self, body: list[ast.stmt], env: dict, m: t.Any) -> None:
        for st in body:
            self.stmt(st, env, m)

    def stmt(self, st: ast.stmt, env: dict, m: t.Any) -> None:
        self.tick(st)
        if isinstance(st, ast.Expr):
            if not isinstance(st.value, ast.Constant):
                self.expr(st.value, env, m)
        elif isinstance(st, ast.Assign):
            v = self.expr(st.value, env, m)
            for tg in st.targets:
                self.assign(tg, v, env, m)
        elif isinstance(st, ast.AnnAssign):
            if st.value is not None:
                self.assign(st.target, self.expr(st.value, env, m), env, m)
        elif isinstance(st, ast.AugAssign):
            cur = self.expr(_as_load(st.target), env, m)
            self.assign(st.target, self.binop(st.op, cur, self.expr(st.value, env, m), st), env, m)
        elif isinstance(st, ast.If):
            self.block(st.body if self.truth(self.expr(st.test, env, m), st.test) else st.orelse, env, m)
        elif isinstance(st, ast.Return):
            raise _Ret(self.expr(st.value, env, m) if st.value is not None else None)
        elif isinstance(st, ast.Raise):
            raise ConcreteRaise(ast.unparse(st.exc)[:60] if st.exc is not None else "re-raise", st)
        elif isinstance(st, ast.Pass):
            pass
        elif isinstance(st, (ast.FunctionDef, ast.AsyncFunctionDef)):
            env[st.name] = CFn(st, m, env)
        elif isinstance(st, (ast.Import, ast.ImportFrom)):
            pass  # names are resolved through the module's import table
        elif isinstance(st, ast.For):
            broke = False
            for item in self.iterate(self.expr(st.iter, env, m), st.iter):
                self.assign(st.target, item, env, m)
                try:
                    self.block(st.body, env, m)
                except _Brk:
                    broke = True
                    break
                except _Cont:
                    continue
            if not broke:
                self.block(st.orelse, env, m)
        elif isinstance(st, ast.While):
            broke = False
            while self.truth(self.expr(st.test, env, m), st.test):
                self.tick(st)
                try:
                    self.block(st.body, env, m)
                except _Brk:
                    broke = True
                    break
                except _Cont:
                    continue
            if not broke:
                self.block(st.orelse, env, m)
        elif isinstance(st, ast.Break):
            raise _Brk()
        elif isinstance(st, ast.Continue):
            raise _Cont()
        elif isinstance(st, ast.Assert):
            if not self.truth(self.expr(st.test, env, m), st.test):
                raise ConcreteRaise("AssertionError", st)
        elif isinstance(st, ast.Try):
            try:
                try:
                    self.block(st.body, env, m)
                except ConcreteRaise as r:
                    h = self.handler_for(st, r, m)
                    if h.name is not None:
                        env[h.name] = Opaque(f"the caught {r.what}")
                    self.block(h.body, env, m)
                else:
                    self.block(st.orelse, env, m)
            finally:
                # (a finally block that itself returns / raises replaces what is in flight, as in python)
                self.block(st.finalbody, env, m)
        elif isinstance(st, ast.Match):
            subject = self.plain(self.expr(st.subject, env, m), st.subject)
            for case in st.cases:
                bound: dict[str, t.Any] = {}
                if self.matches(case.pattern, subject, bound, env, m):
                    env.update(bound)
                    if case.guard is None or self.truth(self.expr(case.guard, env, m), case.guard):
                        self.block(case.body, env, m)
                        break
        else:
            raise NotConcrete(f"statement `{type(st).__name__}`", st)

    # the builtin exceptions the modelled operations raise, with their bases
    _EXC_BASES = {
        "IndexError": ("IndexError", "LookupError", "Exception", "BaseException"),
        "KeyError": ("KeyError", "LookupError", "Exception", "BaseException"),
        "LookupError": ("LookupError", "Exception", "BaseException"),
        "ValueError": ("ValueError", "Exception", "BaseException"),
        "ValueError (unpack)": ("ValueError", "Exception", "BaseException"),
        "UnicodeError": ("UnicodeError", "ValueError", "Exception", "BaseException"),
        "UnicodeDecodeError": ("UnicodeDecodeError", "UnicodeError", "ValueError", "Exception", "BaseException"),
        "UnicodeEncodeError": ("UnicodeEncodeError", "UnicodeError", "ValueError", "Exception", "BaseException"),
        "TypeError": ("TypeError", "Exception", "BaseException"),
        "ZeroDivisionError": ("ZeroDivisionError", "ArithmeticError", "Exception", "BaseException"),
        "StopIteration": ("StopIteration", "Exception", "BaseException"),
        "AssertionError": ("AssertionError", "Exception", "BaseException"),
    }

    def handler_for(self, st: ast.Try, r: ConcreteRaise, m: t.Any) -> ast.ExceptHandler:
        """the except clause that catches a builtin exception raised by a modelled operation inside the try body; the
        exception propagates (re-raised) when none does; NotConcrete when that cannot be told."""
        bases = self._EXC_BASES.get(r.what)
        if bases is None:
            raise NotConcrete(f"an exception ({r.what}) inside a try block is not followed", st)
        for h in st.handlers:
            if h.type is None:
                return h
            tps = h.type.elts if isinstance(h.type, ast.Tuple) else [h.type]
            for tp in tps:
                d = dotted(tp)
                fq = self.repo.resolve(m, d) if d else None
                nm = fq[9:] if fq and fq.startswith("builtins.") else None
                if nm is None:
                    raise NotConcrete(f"`except {ast.unparse(tp)[:40]}`: not a builtin exception class", h)
                if nm in bases:
                    return h
        raise r

    def matches(self, p: ast.AST, v: t.Any, bound: dict, env: dict, m: t.Any) -> bool:
        """structural pattern matching on plain values: literals, dotted constants, `|`, captures / wildcard, sequences."""
        if isinstance(p, ast.MatchValue):
            return self.compare(ast.Eq(), v, self.expr(p.value, env, m), p)
        if isinstance(p, ast.MatchSingleton):
            return v is p.value
        if isinstance(p, ast.MatchOr):
            return any(self.matches(x, v, bound, env, m) for x in p.patterns)
        if isinstance(p, ast.MatchAs):
            if p.pattern is not None and not self.matches(p.pattern, v, bound, env, m):
                return False
            if p.name is not None:
                bound[p.name] = v
            return True
        if isinstance(p, ast.MatchSequence) and not any(isinstance(x, ast.MatchStar) for x in p.patterns):
            if not isinstance(v, (tuple, list)) or len(v) != len(p.patterns):
                return False
            return all(self.matches(x, y, bound, env, m) for x, y in zip(p.patterns, v))
        raise NotConcrete(f"match pattern `{type(p).__name__}`", p)

    def assign(self, tg: ast.AST, v: t.Any, env: dict, m: t.Any) -> None:
        if isinstance(tg, ast.Name):
            env[tg.id] = v
        elif isinstance(tg, (ast.Tuple, ast.List)):
            items = list(self.iterate(v, tg))
            star = [i for i, e in enumerate(tg.elts) if isinstance(e, ast.Starred)]
            if star:
                i = star[0]
                after = len(tg.elts) - i - 1
                if len(items) < len(tg.elts) - 1:
                    raise ConcreteRaise("ValueError (unpack)", tg)
                parts = items[:i] + [items[i : len(items) - after]] + items[len(items) - after :]
                for e, x in zip(tg.elts, parts):
                    self.assign(e.value if isinstance(e, ast.Starred) else e, x, env, m)
            else:
                if len(items) != len(tg.elts):
                    raise ConcreteRaise("ValueError (unpack)", tg)
                for e, x in zip(tg.elts, items):
                    self.assign(e, x, env, m)
        elif isinstance(tg, ast.Subscript):
            obj = self.expr(tg.value, env, m)
            if not isinstance(obj, (list, dict)):
                raise NotConcrete("item store into a non-local container", tg)
            obj[self.index(tg.slice, env, m)] = v
        else:
            raise NotConcrete(f"assignment target `{ast.unparse(tg)[:40]}`", tg)

    # -- expressions ----------------------------------------------------------
    def truth(self, v: t.Any, node: ast.AST | None) -> bool:
        if isinstance(v, Opaque):
            raise NotConcrete(f"the decision depends on {v!r}", node)
        if isinstance(v, (CFn, CExt)):
            return True
        return bool(v)

    def iterate(self, v: t.Any, node: ast.AST | None) -> t.Iterable:
        if isinstance(v, (str, bytes, tuple, list, dict, set, frozenset, range)):
            return list(v)
        if isinstance(v, (enumerate, zip, map, filter, reversed)) or type(v).__name__ in ("dict_keys", "dict_values", "dict_items", "list_iterator", "tuple_iterator", "generator", "str_ascii_iterator"):
            return list(v)
        raise NotConcrete(f"iteration over {type(v).__name__}", node)

    def index(self, s: ast.AST, env: dict, m: t.Any) -> t.Any:
        if isinstance(s, ast.Slice):
            return slice(*(self.expr(x, env, m) if x is not None else None for x in (s.lower, s.upper, s.step)))
        return self.expr(s, env, m)

    def name(self, e: ast.Name, env: dict, m: t.Any) -> t.Any:
        cur: dict | None = env
        while cur is not None:
            if e.id in cur:
                return cur[e.id]
            cur = cur.get("__closure__")
        return self.module_value(m, e.id, e)

    def module_value(self, m: t.Any, name: str, node: ast.AST | None) -> t.Any:
        key = (m.name, name)
        if key in self._modvals:
            return self._modvals[key]
        if name in m.functions:
            v: t.Any = CFn(m.functions[name].node, m)
        elif name in m.assigns:
            vals = m.assigns[name]
            if len(vals) != 1:
                raise NotConcrete(f"module-level `{name}` is bound {len(vals)} times", node)
            if key in self._busy:
                raise NotConcrete(f"module-level `{name}` is defined through itself", node)
            self._busy.add(key)
            try:
                v = self.expr(vals[0], {"__closure__": None}, m)
            finally:
                self._busy.discard(key)
        elif name in m.classes:
            v = CCls(m.classes[name].fq)
        else:
            fq = self.repo.resolve(m, name)
            v = self.from_fq(fq, node)
        self._modvals[key] = v
        return v

    def from_fq(self, fq: str | None, node: ast.AST | None) -> t.Any:
        if fq is None:
            raise NotConcrete("unresolved name", node)
        if fq in ("builtins.True", "builtins.False", "builtins.None"):
            return {"True": True, "False": False, "None": None}[fq.split(".")[1]]
        fi = self.repo.try_func(fq) if fq.startswith("werkzeug.") else None
        if fi is not None:
            return CFn(fi.node, fi.module)
        if fq.startswith("werkzeug.") and self.repo.try_cls(fq) is not None:
            return CCls(fq)
        if fq.startswith("werkzeug."):
            mn, _, attr = fq.rpartition(".")
            if mn in self.repo.modules and attr in self.repo.modules[mn].assigns:
                return self.module_value(self.repo.modules[mn], attr, node)
            if fq in self.repo.modules:
                return CExt(fq)
            raise NotConcrete(f"`{fq}` is not a function or constant of the package", node)
        return CExt(fq)

    def expr(self, e: ast.AST | None, env: dict, m: t.Any) -> t.Any:
        self.tick(e)
        if e is None:
            return None
        if isinstance(e, ast.Constant):
            return e.value
        if isinstance(e, ast.Name):
            return self.name(e, env, m)
        if isinstance(e, ast.JoinedStr):
            out = []
            for v in e.values:
                if isinstance(v, ast.Constant):
                    out.append(str(v.value))
                    continue
                x = self.plain(self.expr(v.value, env, m), v)  # type: ignore[attr-defined]
                if v.conversion == 114:  # type: ignore[attr-defined]
                    x = repr(x)
                elif v.conversion == 115:  # type: ignore[attr-defined]
                    x = str(x)
                spec = self.expr(v.format_spec, env, m) if v.format_spec is not None else ""  # type: ignore[attr-defined]
                out.append(format(x, spec))
            return "".join(out)
        if isinstance(e, ast.Tuple):
            return tuple(self.elements(e.elts, env, m))
        if isinstance(e, ast.List):
            return list(self.elements(e.elts, env, m))
        if isinstance(e, ast.Set):
            return set(self.hashable(x, e) for x in self.elements(e.elts, env, m))
        if isinstance(e, ast.Dict):
            d: dict = {}
            for k, v in zip(e.keys, e.values):
                if k is None:
                    sub = self.expr(v, env, m)
                    if not isinstance(sub, dict):
                        raise NotConcrete("`**` of a non-dict", e)
                    d.update(sub)
                else:
                    d[self.hashable(self.expr(k, env, m), k)] = self.expr(v, env, m)
            return d
        if isinstance(e, ast.IfExp):
            return self.expr(e.body if self.truth(self.expr(e.test, env, m), e.test) else e.orelse, env, m)
        if isinstance(e, ast.BoolOp):
            v = None
            for x in e.values:
                v = self.expr(x, env, m)
                t_ = self.truth(v, x)
                if (isinstance(e.op, ast.And) and not t_) or (isinstance(e.op, ast.Or) and t_):
                    return v
            return v
        if isinstance(e, ast.UnaryOp):
            v = self.plain(self.expr(e.operand, env, m), e)
            if isinstance(e.op, ast.Not):
                return not self.truth(v, e)
            if isinstance(e.op, ast.USub) and isinstance(v, int):
                return -v
            if isinstance(e.op, ast.UAdd) and isinstance(v, int):
                return +v
            raise NotConcrete(f"`{ast.unparse(e)[:40]}`", e)
        if isinstance(e, ast.BinOp):
            return self.binop(e.op, self.expr(e.left, env, m), self.expr(e.right, env, m), e)
        if isinstance(e, ast.Compare):
            left = self.expr(e.left, env, m)
            for op, r in zip(e.ops, e.comparators):
                right = self.expr(r, env, m)
                if not self.compare(op, left, right, e):
                    return False
                left = right
            return True
        if isinstance(e, ast.Subscript):
            v = self.plain(self.expr(e.value, env, m), e)
            i = self.index(e.slice, env, m)
            if not isinstance(v, (str, bytes, tuple, list, dict, range)):
                raise NotConcrete(f"subscript of {type(v).__name__}", e)
            try:
                return v[i]
            except (IndexError, KeyError, TypeError) as x:
                raise ConcreteRaise(type(x).__name__, e)
        if isinstance(e, ast.NamedExpr):
            v = self.expr(e.value, env, m)
            env[e.target.id] = v
            return v
        if isinstance(e, ast.Lambda):
            return CFn(e, m, env)
        if isinstance(e, (ast.ListComp, ast.SetComp, ast.GeneratorExp, ast.DictComp)):
            return self.comp(e, env, m)
        if isinstance(e, ast.Attribute):
            d = dotted(e)
            head = d.split(".")[0] if d else None
            if d is not None and head is not None and not self._bound(head, env):
                base = self.module_value(m, head, e) if (head in m.assigns or head in m.functions) else None
                if base is None:
                    return self.from_fq(self.repo.resolve(m, d), e)
            v = self.expr(e.value, env, m)
            if isinstance(v, CExt):
                return self.from_fq(f"{v.fq}.{e.attr}", e)
            if isinstance(v, CObj):
                return self.getattr_obj(v, e.attr, e)
            return _Bound(self.plain(v, e), e.attr)
        if isinstance(e, ast.Call):
            return self.call_expr(e, env, m)
        if isinstance(e, ast.Starred):
            raise NotConcrete("starred expression", e)
        raise NotConcrete(f"expression `{type(e).__name__}`", e)

    @staticmethod
    def _bound(name: str, env: dict) -> bool:
        cur: dict | None = env
        while cur is not None:
            if name in cur:
                return True
            cur = cur.get("__closure__")
        return False

    def plain(self, v: t.Any, node: ast.AST | None) -> t.Any:
        if isinstance(v, Opaque):
            raise NotConcrete(f"the value depends on {v!r}", node)
        return v

    def hashable(self, v: t.Any, node: ast.AST | None) -> t.Any:
        v = self.plain(v, node)
        try:
            hash(v)
        except TypeError:
            raise NotConcrete("unhashable element", node)
        return v

    def elements(self, elts: list, env: dict, m: t.Any) -> list:
        out: list = []
        for x in elts:
            if isinstance(x, ast.Starred):
                out += list(self.iterate(self.expr(x.value, env, m), x))
            else:
                out.append(self.expr(x, env, m))
        return out

    def comp(self, e: t.Any, env: dict, m: t.Any) -> t.Any:
        out: list = []
        scope = {"__closure__": env}

        def rec(i: int) -> None:
            if i == len(e.generators):
                if isinstance(e, ast.DictComp):
                    out.append((self.hashable(self.expr(e.key, scope, m), e), self.expr(e.value, scope, m)))
                else:
                    out.append(self.expr(e.elt, scope, m))
                return
            g = e.generators[i]
            for item in self.iterate(self.expr(g.iter, scope, m), g.iter):
                self.assign(g.target, item, scope, m)
                if all(self.truth(self.expr(c, scope, m), c) for c in g.ifs):
                    rec(i + 1)

        rec(0)
        if isinstance(e, ast.SetComp):
            return set(self.hashable(x, e) for x in out)
        if isinstance(e, ast.DictComp):
            return dict(out)
        return out  # a generator is consumed by whoever receives it: a list behaves the same for pure consumers

    def binop(self, op: ast.operator, a: t.Any, b: t.Any, node: ast.AST) -> t.Any:
        a, b = self.plain(a, node), self.plain(b, node)
        ok = (str, bytes, int, tuple, list)
        if not isinstance(a, ok + (set, frozenset, dict)) or not isinstance(b, ok + (set, frozenset, dict)):
            raise NotConcrete(f"operator on {type(a).__name__} / {type(b).__name__}", node)
        try:
            if isinstance(op, ast.Add):
                return a + b
            if isinstance(op, ast.Sub):
                return a - b
            if isinstance(op, ast.Mult):
                return a * b
            if isinstance(op, ast.Mod):
                return a % b
            if isinstance(op, ast.FloorDiv):
                return a // b
            if isinstance(op, ast.BitOr):
                return a | b
            if isinstance(op, ast.BitAnd):
                return a & b
        except (TypeError, ValueError, ZeroDivisionError) as x:
            raise ConcreteRaise(type(x).__name__, node)
        raise NotConcrete(f"operator `{type(op).__name__}`", node)

    def compare(self, op: ast.cmpop, a: t.Any, b: t.Any, node: ast.AST) -> bool:
        if isinstance(op, (ast.Is, ast.IsNot)):
            if isinstance(a, Opaque) or isinstance(b, Opaque):
                other = b if isinstance(a, Opaque) else a
                if other is None:
                    return isinstance(op, ast.IsNot)  # an Opaque input stands for some object, not for None
                raise NotConcrete("identity test on an undetermined value", node)
            same = a is b or (a is None and b is None) or (isinstance(a, bool) and isinstance(b, bool) and a == b)
            return same if isinstance(op, ast.Is) else not same
        a, b = self.plain(a, node), self.plain(b, node)
        try:
            if isinstance(op, ast.Eq):
                return a == b
            if isinstance(op, ast.NotEq):
                return a != b
            if isinstance(op, ast.In):
                return a in b
            if isinstance(op, ast.NotIn):
                return a not in b
            if isinstance(op, ast.Lt):
                return a < b
            if isinstance(op, ast.LtE):
                return a <= b
            if isinstance(op, ast.Gt):
                return a > b
            if isinstance(op, ast.GtE):
                return a >= b
        except TypeError:
            raise ConcreteRaise("TypeError", node)
        raise NotConcrete("comparison", node)

    # -- calls ------------------------------------------------------------------
    def arguments(self, c: ast.Call, env: dict, m: t.Any) -> tuple[list, dict]:
        args = self.elements(c.args, env, m)
        kw: dict = {}
        for k in c.keywords:
            v = self.expr(k.value, env, m)
            if k.arg is None:
                if not isinstance(v, dict):
                    raise NotConcrete("`**` of a non-dict", c)
                kw.update(v)
            else:
                kw[k.arg] = v
        return args, kw

    def call_expr(self, c: ast.Call, env: dict, m: t.Any) -> t.Any:
        f = self.expr(c.func, env, m)
        args, kw = self.arguments(c, env, m)
        return self.apply(f, args, kw, c)

    def apply(self, f: t.Any, args: list, kw: dict, c: ast.AST) -> t.Any:
        if isinstance(f, CFn):
            return self.call(f, args, kw, c)
        if isinstance(f, _Partial):
            return self.apply(f.fn, list(f.args) + args, {**f.kw, **kw}, c)
        if isinstance(f, CExt):
            if f.fq in self.watch:
                self.calls.append((f.fq, args, kw, c))  # type: ignore[arg-type]
                return self.watch[f.fq](args, kw)
            if f.fq == "functools.partial" and args:
                return _Partial(args[0], tuple(args[1:]), dict(kw))
            mod, _, nm = f.fq.rpartition(".")
            if mod == "builtins" and nm in _PURE_BUILTINS:
                return self.builtin(nm, args, kw, c)
            if f.fq in _PURE_EXT:
                return self.external(f.fq, args, kw, c)
            raise NotConcrete(f"call of `{f.fq}`", c)
        if isinstance(f, _Bound):
            return self.method(f.obj, f.attr, args, kw, c)
        if isinstance(f, _Getter):
            return f(args)
        if isinstance(f, CStub):
            return CMade(f.label, tuple(args), tuple(sorted(kw.items())))
        if isinstance(f, CCls):
            return CMade(f.fq, tuple(args), tuple(sorted(kw.items())))
        if isinstance(f, _Method):
            return self.call(f.fn, [f.obj] + args, kw, c)
        raise NotConcrete(f"call of a {type(f).__name__} value", c)

    def getattr_obj(self, o: "CObj", attr: str, node: ast.AST) -> t.Any:
        """attribute of a modelled instance: a given attribute value, or a method / property of its class."""
        if attr in o.attrs:
            return o.attrs[attr]
        ci = self.repo.try_cls(o.cls) if o.cls else None
        owner, fi = self.repo.lookup(ci, attr) if ci is not None else (None, None)
        if isinstance(fi, ast.AST) and owner is not None and hasattr(owner, "module"):
            return self.expr(fi, {"__closure__": None}, owner.module)  # a class attribute
        if isinstance(fi, FuncInfo):
            decs = [d.rsplit(".", 1)[-1] for d in fi.decorators]
            fn = CFn(fi.node, fi.module)
            if "property" in decs or "cached_property" in decs:
                return self.call(fn, [o], {}, node)
            if "staticmethod" in decs:
                return fn
            return _Method(fn, o)
        raise NotConcrete(f"attribute `{attr}` of the modelled {o.cls or 'object'} is not given", node)

    def method(self, obj: t.Any, attr: str, args: list, kw: dict, c: ast.AST) -> t.Any:
        for a in list(args) + list(kw.values()):
            self.plain(a, c)
        if isinstance(obj, _Rx):
            return self.external(f"re.{attr}", [obj, *args], kw, c)
        if isinstance(obj, _M):
            if attr in ("group", "groups", "start", "end", "span", "groupdict"):
                return getattr(obj.m, attr)(*args, **kw)
            raise NotConcrete(f"match.{attr}", c)
        tp = type(obj)
        if attr in _PURE_METHODS.get(tp, ()) or attr in _MUTATORS.get(tp, ()):
            if tp is str and attr == "join":
                args = [[self.plain(x, c) for x in self.iterate(args[0], c)]] if args else args
            if tp is str and attr == "translate":
                raise NotConcrete("str.translate", c)
            try:
                return getattr(obj, attr)(*args, **kw)
            except (TypeError, ValueError, IndexError, KeyError, LookupError, UnicodeError) as x:
                raise ConcreteRaise(type(x).__name__, c)
        raise NotConcrete(f"method `{attr}` of a {tp.__name__}", c)

    def builtin(self, nm: str, args: list, kw: dict, c: ast.AST) -> t.Any:
        import builtins

        if nm == "isinstance":
            if len(args) != 2:
                raise NotConcrete("isinstance arity", c)
            tps = args[1] if isinstance(args[1], tuple) else (args[1],)
            py = []
            for x in tps:
                if isinstance(x, CExt) and x.fq in _TYPE_NAMES:
                    py.append(_TYPE_NAMES[x.fq])
                else:
                    raise NotConcrete("isinstance against a class that is not a builtin value type", c)
            return isinstance(self.plain(args[0], c), tuple(py))
        if nm in ("map", "filter"):
            fn, *seqs = args
            lists = [list(self.iterate(s, c)) for s in seqs]
            if nm == "map":
                return [self.apply(fn, list(xs), {}, c) for xs in zip(*lists)]
            return [x for x in lists[0] if (self.truth(self.apply(fn, [x], {}, c), c) if fn is not None else self.truth(x, c))]
        if nm in ("sorted", "min", "max") and "key" in kw:
            key = kw.pop("key")
            kw["key"] = lambda x: self.apply(key, [x], {}, c)
        if nm in ("any", "all", "sum", "sorted", "min", "max", "tuple", "list", "set", "frozenset", "enumerate", "zip", "reversed", "iter", "dict") and args:
            args = [list(self.iterate(a, c)) if not isinstance(a, (int, dict)) and not (nm in ("min", "max") and len(args) > 1) else a for a in args]
        if nm == "next":
            it = args[0]
            if isinstance(it, list):  # a comprehension evaluated eagerly
                if it:
                    return it[0]
                if len(args) > 1:
                    return args[1]
                raise ConcreteRaise("StopIteration", c)
        for a in list(args) + list(kw.values()):
            if isinstance(a, (CFn, CExt, _Bound)):
                raise NotConcrete(f"{nm}() of a function value", c)
            self.plain(a, c)
        try:
            return getattr(builtins, nm)(*args, **kw)
        except (TypeError, ValueError, IndexError, KeyError, StopIteration, UnicodeError) as x:
            raise ConcreteRaise(type(x).__name__, c)

    def external(self, fq: str, args: list, kw: dict, c: ast.AST) -> t.Any:
        import re

        for a in list(args) + list(kw.values()):
            self.plain(a, c)
        if fq == "typing.cast" and len(args) == 2:
            return args[1]
        if fq == "operator.itemgetter" and len(args) == 1:
            return _Getter(args[0])
        flags = kw.pop("flags", 0)
        if isinstance(flags, CExt):
            raise NotConcrete("regex flags", c)
        if args and isinstance(args[0], _Rx):
            flags = flags | args[0].flags
            args = [args[0].pattern, *args[1:]]
        if not args or not isinstance(args[0], (str, bytes)):
            raise NotConcrete(f"`{fq}` without a constant pattern", c)
        try:
            if fq == "re.compile":
                re.compile(args[0], flags if not args[1:] else args[1])
                return _Rx(args[0], flags if not args[1:] else args[1])
            if fq == "re.escape":
                return re.escape(args[0])
            if fq == "re.sub":
                if not isinstance(args[1], (str, bytes)):
                    raise NotConcrete("re.sub with a callable replacement", c)
                return re.sub(args[0], args[1], args[2], *args[3:], flags=flags, **kw)
            if fq in ("re.split", "re.findall"):
                return getattr(re, fq[3:])(*args, flags=flags, **kw)
            mt = getattr(re, fq[3:])(*args, flags=flags, **kw)
            return _M(mt) if mt is not None else None
        except (re.error, TypeError, IndexError) as x:
            raise ConcreteRaise(type(x).__name__, c)


class _Bound(t.NamedTuple):
    obj: t.Any
    attr: str


class _Method(t.NamedTuple):
    fn: CFn
    obj: t.Any


class CObj:
    """a modelled instance: the attributes that are given, methods / properties looked up in the package class."""

    def __init__(self, cls: str | None, attrs: dict[str, t.Any]):
        self.cls = cls
        self.attrs = attrs


class CCls(t.NamedTuple):
    """a class of the package as a value; calling it gives a CMade record of the arguments."""

    fq: str


class CStub(t.NamedTuple):
    """a callable whose call is only recorded (CMade)."""

    label: str


class CMade(t.NamedTuple):
    label: str
    args: tuple
    kw: tuple


class _Partial(t.NamedTuple):
    fn: t.Any
    args: tuple
    kw: dict


class _Rx(t.NamedTuple):
    pattern: t.Any
    flags: int


class _M:
    def __init__(self, m: t.Any):
        self.m = m


class _Getter:
    def __init__(self, i: t.Any):
        self.i = i

    def __call__(self, args: list) -> t.Any:
        return args[0][self.i]


def _as_load(tg: ast.AST) -> ast.AST:
    import copy

    n = copy.copy(tg)
    if hasattr(n, "ctx"):
        n.ctx = ast.Load()  # type: ignore[attr-defined]
    return n


# -- end of the vendored evaluator ---------------------------------------------------------------------------------------

HEADERS = "datastructures.headers.Headers"


class ModelRaise(ConcreteRaise):
    """an exception raised by a ``raise`` statement of the evaluated code (or a modelled builtin operation), with the
    fully qualified names of its class and all its bases."""

    def __init__(self, what: str, bases: set[str], value: t.Any, node: ast.AST | None = None):
        super().__init__(what, node)
        self.bases = bases
        self.value = value


class ModelMD(dict):
    """the documented model of a wrapped MultiDict for the readers of the combined view: a dict key -> non-empty list
    of values, item access gives the first value.  (The trusted model; werkzeug's MultiDict itself is not run.)"""

    READERS = {"get", "getlist", "keys", "values", "items", "lists", "listvalues", "to_dict", "copy", "__contains__", "__len__", "__iter__", "__getitem__"}

    def __getitem__(self, k):  # type: ignore[override]
        return dict.__getitem__(self, k)[0]

    def get(self, k, default=None):  # type: ignore[override]
        return dict.__getitem__(self, k)[0] if k in self else default

    def getlist(self, k):
        return list(dict.__getitem__(self, k)) if k in self else []

    def values(self):  # type: ignore[override]
        return [v[0] for v in dict.values(self)]

    def listvalues(self):
        return [list(v) for v in dict.values(self)]

    def lists(self):
        return [(k, list(v)) for k, v in dict.items(self)]

    def items(self, multi=False):  # type: ignore[override]
        return [(k, x) for k, v in dict.items(self) for x in v] if multi else [(k, v[0]) for k, v in dict.items(self)]

    def to_dict(self, flat=True):
        return dict(self.items()) if flat else dict(self.lists())


def _scope_nodes(f: ast.AST) -> t.Iterator[ast.AST]:
    todo = list(ast.iter_child_nodes(f))
    while todo:
        n = todo.pop()
        yield n
        if not isinstance(n, (ast.FunctionDef, ast.AsyncFunctionDef, ast.Lambda, ast.ClassDef)):
            todo.extend(ast.iter_child_nodes(n))


def _is_generator(f: ast.AST) -> bool:
    return any(isinstance(n, (ast.Yield, ast.YieldFrom)) for n in _scope_nodes(f))


_PURE_EXTRA = {"itertools.chain", "itertools.chain.from_iterable", "functools.reduce", "builtins.set.union", "builtins.frozenset.union", "builtins.dict.fromkeys", "builtins.set.update", "operator.or_", "builtins.dict.keys"}
_LAZY = (enumerate, zip, reversed)
_VIEW_TYPES = ("dict_keys", "dict_items")
_VALUE_TYPES = {"builtins.str": str, "builtins.int": int, "builtins.bytes": bytes, "builtins.tuple": tuple, "builtins.list": list, "builtins.dict": dict, "builtins.bool": bool, "builtins.set": set, "builtins.frozenset": frozenset, "builtins.slice": slice, "builtins.float": float}


# the evaluator's records for functions / classes / instances of unmodelled classes are NamedTuples: they stand for
# objects and must never be measured, iterated, indexed or compared as the tuples they happen to be
_RECORDS = (CMade, CCls, CExt, CFn, _Bound, _Method, _Partial)


class ModelEval(Concrete):
    def _no_record(self, v: t.Any, what: str, node: ast.AST | None) -> t.Any:
        if isinstance(v, _RECORDS):
            raise NotConcrete(f"{what} of an object outside the modelled subset ({getattr(v, 'label', None) or getattr(v, 'fq', None) or type(v).__name__})", node)
        return v

    def __init__(self, repo: Repo, max_steps: int = 50000, max_depth: int = 8):
        super().__init__(repo, max_steps=max_steps, max_depth=max_depth)
        self._inflight: list[ConcreteRaise] = []

    # -- exceptions -----------------------------------------------------------
    def _exc_bases(self, fq: str, node: ast.AST | None) -> set[str] | None:
        import builtins

        if fq.startswith("builtins."):
            k = getattr(builtins, fq[9:], None)
            if isinstance(k, type) and issubclass(k, BaseException):
                return {f"builtins.{b.__name__}" for b in k.__mro__ if b is not object}
            return None
        ci = self.repo.try_cls(fq)
        if ci is None:
            return None
        names = {k.fq if isinstance(k, ClassInfo) else (k.fq if "." in k.fq else f"builtins.{k.fq}") for k in self.repo.mro(ci)}
        out: set[str] = set()
        for n in names:
            out.add(n)
            if n.startswith("builtins."):
                out |= self._exc_bases(n, node) or set()
        if "builtins.BaseException" not in out:
            return None
        return out

    def _raise_of(self, r: ConcreteRaise) -> set[str] | None:
        if isinstance(r, ModelRaise):
            return r.bases
        b = self._EXC_BASES.get(r.what)
        return {f"builtins.{x}" for x in b} if b is not None else None

    def handler_for(self, st: ast.Try, r: ConcreteRaise, m: t.Any) -> ast.ExceptHandler:  # type: ignore[override]
        bases = self._raise_of(r)
        if bases is None:
            raise NotConcrete(f"an exception ({r.what}) inside a try block is not followed", st)
        for h in st.handlers:
            if h.type is None:
                return h
            tps = h.type.elts if isinstance(h.type, ast.Tuple) else [h.type]
            for tp in tps:
                d = dotted(tp)
                fq = self.repo.resolve(m, d) if d else None
                if fq is None:
                    raise NotConcrete(f"`except {ast.unparse(tp)[:40]}`: class not resolved", h)
                if fq in bases:
                    return h
        raise r

    def stmt(self, st: ast.stmt, env: dict, m: t.Any) -> None:  # type: ignore[override]
        if isinstance(st, ast.Raise):
            self.tick(st)
            if st.exc is None:
                if self._inflight:
                    raise self._inflight[-1]
                raise NotConcrete("bare raise outside a handler", st)
            v = self.expr(st.exc, env, m)
            if isinstance(v, (CCls, CExt)):
                v = CMade(v.fq, (), ())
            if isinstance(v, ConcreteRaise):
                raise v  # `except E as e: ... raise e`
            if isinstance(v, CMade):
                bases = self._exc_bases(v.label, st)
                if bases is not None:
                    raise ModelRaise(v.label.rsplit(".", 1)[-1], bases, v, st)
            raise NotConcrete(f"raise of `{ast.unparse(st.exc)[:50]}`", st)
        if isinstance(st, ast.Try):
            self.tick(st)
            try:
                try:
                    self.block(st.body, env, m)
                except ConcreteRaise as r:
                    h = self.handler_for(st, r, m)
                    if h.name is not None:
                        env[h.name] = r
                    self._inflight.append(r)
                    try:
                        self.block(h.body, env, m)
                    finally:
                        self._inflight.pop()
                else:
                    self.block(st.orelse, env, m)
            finally:
                self.block(st.finalbody, env, m)
            return
        if isinstance(st, ast.Delete):
            self.tick(st)
            for tg in st.targets:
                if isinstance(tg, ast.Name) and tg.id in env:
                    del env[tg.id]
                elif isinstance(tg, ast.Subscript):
                    obj = self.expr(tg.value, env, m)
                    if isinstance(obj, CObj):
                        self._dunder(obj, "__delitem__", [self.index(tg.slice, env, m)], tg)
                        continue
                    if not isinstance(obj, (list, dict)) or isinstance(obj, ModelMD):
                        raise NotConcrete("item deletion on a non-local container", tg)
                    try:
                        del obj[self.index(tg.slice, env, m)]
                    except (IndexError, KeyError, TypeError) as x:
                        raise ConcreteRaise(type(x).__name__, tg)
                else:
                    raise NotConcrete(f"del `{ast.unparse(tg)[:40]}`", tg)
            return
        if isinstance(st, ast.Expr) and isinstance(st.value, ast.Constant):
            return
        if isinstance(st, ast.With):
            self.tick(st)
            names: list[str] = []
            for it in st.items:
                cx = it.context_expr
                fq = self.repo.resolve(m, dotted(cx.func) or "") if isinstance(cx, ast.Call) and dotted(cx.func) else None
                if fq != "contextlib.suppress" or it.optional_vars is not None or cx.keywords:  # type: ignore[union-attr]
                    raise NotConcrete("with statement other than contextlib.suppress(...)", st)
                for a in cx.args:  # type: ignore[union-attr]
                    afq = self.repo.resolve(m, dotted(a) or "") if dotted(a) else None
                    if afq is None:
                        raise NotConcrete("suppress(...) of an unresolved class", st)
                    names.append(afq)
            try:
                self.block(st.body, env, m)
            except ConcreteRaise as r:
                bases = self._raise_of(r)
                if bases is None:
                    raise NotConcrete(f"an exception ({r.what}) inside a with block is not followed", st)
                if not any(n in bases for n in names):
                    raise
            return
        super().stmt(st, env, m)

    def matches(self, p: ast.AST, v: t.Any, bound: dict, env: dict, m: t.Any) -> bool:  # type: ignore[override]
        if isinstance(p, ast.MatchClass) and not p.patterns and not p.kwd_patterns:
            k = self.expr(p.cls, env, m)
            tp = _VALUE_TYPES.get(k.fq) if isinstance(k, CExt) else None
            if tp is None or isinstance(v, (CObj, CMade, CCls, CExt, CFn, ConcreteRaise, ModelMD)):
                raise NotConcrete("class pattern other than a builtin value type", p)
            return isinstance(self.plain(v, p), tp)
        return super().matches(p, v, bound, env, m)

    def assign(self, tg: ast.AST, v: t.Any, env: dict, m: t.Any) -> None:  # type: ignore[override]
        if isinstance(tg, ast.Attribute):
            o = self.expr(tg.value, env, m)
            if isinstance(o, CObj):
                o.attrs[tg.attr] = v
                return
            raise NotConcrete(f"attribute store `{ast.unparse(tg)[:40]}`", tg)
        if isinstance(tg, ast.Subscript):
            obj = self.expr(tg.value, env, m)
            if isinstance(obj, ModelMD):
                raise NotConcrete("store into a wrapped dict", tg)
            if isinstance(obj, CObj):
                self._dunder(obj, "__setitem__", [self.index(tg.slice, env, m), v], tg)
                return
        super().assign(tg, v, env, m)

    # -- generators -------------------------------------------------------------
    def call(self, fn: CFn, args: list, kwargs: dict, node: ast.AST | None = None) -> t.Any:  # type: ignore[override]
        f = fn.node
        if isinstance(f, ast.Lambda) or not _is_generator(f):
            return super().call(fn, args, kwargs, node)
        if self.depth >= self.max_depth:
            raise NotConcrete("call depth exceeded", node)
        env = self._bind(f, fn, args, kwargs, node)
        out: list = []
        env["__yield__"] = out
        self.depth += 1
        try:
            try:
                self.block(f.body, env, fn.module)
            except _Ret:
                pass
            except ConcreteRaise as r:
                raise NotConcrete(f"a generator function that raises ({r.what}) is not followed lazily", r.node or node)
        finally:
            self.depth -= 1
        return iter(out)

    def _yield_to(self, env: dict, node: ast.AST) -> list:
        cur: dict | None = env
        while cur is not None:
            if "__yield__" in cur:
                return cur["__yield__"]
            cur = cur.get("__closure__")
        raise NotConcrete("yield outside a generator function", node)

    # -- the container protocol of the modelled instance ---------------------------
    def _dunder(self, o: CObj, name: str, args: list, node: ast.AST | None) -> t.Any:
        ci = self.repo.try_cls(o.cls) if o.cls else None
        owner, fi = self.repo.lookup(ci, name) if ci is not None else (None, None)
        if not isinstance(fi, FuncInfo):
            raise NotConcrete(f"`{name}` of the modelled {o.cls or 'object'} is not a method of the package", node)
        return self.call(CFn(fi.node, fi.module), [o] + args, {}, node)

    def truth(self, v: t.Any, node: ast.AST | None) -> bool:  # type: ignore[override]
        if isinstance(v, CObj):
            ci = self.repo.try_cls(v.cls) if v.cls else None
            for nm in ("__bool__", "__len__"):
                owner, fi = self.repo.lookup(ci, nm) if ci is not None else (None, None)
                if isinstance(fi, FuncInfo):
                    return bool(self.plain(self._dunder(v, nm, [], node), node))
                if fi is not None:
                    raise NotConcrete(f"truth of the modelled object through `{nm}` outside the package", node)
            return True
        if isinstance(v, ConcreteRaise):
            return True
        if isinstance(v, CMade):
            ci = self.repo.try_cls(v.label) if v.label.startswith("werkzeug.") else None
            if ci is None and not v.label.startswith("builtins."):
                raise NotConcrete(f"truth of a {v.label} object", node)
            if ci is not None and any(self.repo.lookup(ci, nm)[1] is not None for nm in ("__bool__", "__len__")):
                raise NotConcrete(f"truth of a {v.label} object", node)
            return True
        return super().truth(v, node)

    def iterate(self, v: t.Any, node: ast.AST | None) -> t.Iterable:  # type: ignore[override]
        if isinstance(v, CObj):
            return self.iterate(self._dunder(v, "__iter__", [], node), node)
        self._no_record(v, "iteration", node)
        if type(v).__name__ == "ChainMap":
            return list(v)
        if isinstance(v, list):
            return v  # the live list, as in python: a loop that removes from the list it walks sees the shifted elements
        if isinstance(v, _LAZY) or type(v).__name__ in ("list_iterator", "tuple_iterator", "list_reverseiterator"):
            return v  # consumed lazily by whoever pulls from it
        if type(v).__name__ in ("set_iterator", "dict_keyiterator", "dict_valueiterator", "dict_itemiterator", "chain"):
            return list(v)
        return super().iterate(v, node)

    def compare(self, op: ast.cmpop, a: t.Any, b: t.Any, node: ast.AST) -> bool:  # type: ignore[override]
        if isinstance(op, (ast.In, ast.NotIn)) and isinstance(b, CObj):
            r = self.truth(self._dunder(b, "__contains__", [a], node), node)
            return r if isinstance(op, ast.In) else not r
        if not isinstance(op, (ast.Is, ast.IsNot)):
            if isinstance(op, (ast.Eq, ast.NotEq)) and (isinstance(a, _RECORDS) or isinstance(b, _RECORDS)) and a is b:
                return isinstance(op, ast.Eq)
            self._no_record(a, "comparison", node)
            self._no_record(b, "comparison", node)
        if isinstance(op, (ast.In, ast.NotIn)) and type(b).__name__.endswith("iterator"):
            b = self.iterate(b, node)
        return super().compare(op, a, b, node)

    def binop(self, op: ast.operator, a: t.Any, b: t.Any, node: ast.AST) -> t.Any:  # type: ignore[override]
        self._no_record(a, "operator", node)
        self._no_record(b, "operator", node)
        if type(a).__name__ in _VIEW_TYPES:
            a = set(a)
        if type(b).__name__ in _VIEW_TYPES:
            b = set(b)
        return super().binop(op, a, b, node)

    def expr(self, e: ast.AST | None, env: dict, m: t.Any) -> t.Any:  # type: ignore[override]
        if isinstance(e, ast.Yield):
            self.tick(e)
            self._yield_to(env, e).append(self.expr(e.value, env, m) if e.value is not None else None)
            return None
        if isinstance(e, ast.YieldFrom):
            self.tick(e)
            self._yield_to(env, e).extend(self.iterate(self.expr(e.value, env, m), e))
            return None
        if isinstance(e, ast.GeneratorExp):
            self.tick(e)
            return iter(self.comp(e, env, m))
        if isinstance(e, ast.Subscript):
            self.tick(e)
            v = self.plain(self.expr(e.value, env, m), e)
            i = self.index(e.slice, env, m)
            if isinstance(v, CObj):
                return self._dunder(v, "__getitem__", [i], e)
            self._no_record(v, "item access", e)
            if not isinstance(v, (str, bytes, tuple, list, dict, range)):
                raise NotConcrete(f"subscript of {type(v).__name__}", e)
            try:
                return v[i]
            except (IndexError, KeyError, TypeError) as x:
                raise ConcreteRaise(type(x).__name__, e)
        return super().expr(e, env, m)

    def apply(self, f: t.Any, args: list, kw: dict, c: ast.AST) -> t.Any:  # type: ignore[override]
        if isinstance(f, CExt):
            if f.fq.startswith("builtins.") and self._exc_bases(f.fq, c) is not None:
                return CMade(f.fq, tuple(args), tuple(sorted(kw.items())))
            mt = re.fullmatch(r"builtins\.(str|bytes|list|tuple|dict|set|frozenset|int)\.(\w+)", f.fq)
            if mt and args and f.fq not in _PURE_EXTRA and type(self.plain(args[0], c)) is _VALUE_TYPES[f"builtins.{mt.group(1)}"]:
                return self.method(args[0], mt.group(2), list(args[1:]), kw, c)  # str.lower(k) is k.lower()
            if f.fq == "collections.ChainMap" and not kw and all(isinstance(a, dict) for a in args):
                import collections

                return collections.ChainMap(*args)  # python's own read-through view of the concrete dicts
            if f.fq == "itertools.islice" and len(args) in (2, 3, 4) and not kw and all(a is None or (isinstance(a, int) and not isinstance(a, bool)) for a in args[1:]):
                import itertools

                return iter(list(itertools.islice(self.iterate(args[0], c), *args[1:])))
            if f.fq in _PURE_EXTRA and not kw:
                import functools
                import itertools

                if f.fq == "itertools.chain":
                    return iter([x for a in args for x in self.iterate(a, c)])
                if f.fq == "itertools.chain.from_iterable" and len(args) == 1:
                    return iter([x for a in self.iterate(args[0], c) for x in self.iterate(a, c)])
                if f.fq == "functools.reduce" and len(args) in (2, 3):
                    try:
                        return functools.reduce(lambda x, y: self.apply(args[0], [x, y], {}, c), list(self.iterate(args[1], c)), *args[2:])
                    except TypeError:
                        raise ConcreteRaise("TypeError", c)
                if f.fq in ("builtins.set.union", "builtins.frozenset.union") and args:
                    first = self.plain(args[0], c)
                    if isinstance(first, (set, frozenset)):
                        return first.union(*[list(self.iterate(a, c)) for a in args[1:]])
                if f.fq == "builtins.dict.fromkeys" and len(args) in (1, 2):
                    try:
                        return dict.fromkeys(list(self.iterate(args[0], c)), *args[1:])
                    except TypeError:
                        raise NotConcrete("unhashable key", c)
                if f.fq == "operator.or_" and len(args) == 2:
                    return self.binop(ast.BitOr(), args[0], args[1], c)
                if f.fq == "builtins.dict.keys" and len(args) == 1 and isinstance(args[0], dict):
                    return dict.keys(args[0])
                del itertools
                raise NotConcrete(f"call of `{f.fq}`", c)
        return super().apply(f, args, kw, c)

    def builtin(self, nm: str, args: list, kw: dict, c: ast.AST) -> t.Any:  # type: ignore[override]
        if nm == "next":
            for a in args[:1]:  # the default may be any object (a sentinel)
                self._no_record(a, "next()", c)
        elif nm not in ("isinstance", "map", "filter", "sorted", "min", "max"):
            for a in list(args) + list(kw.values()):
                self._no_record(a, f"{nm}()", c)
        elif nm in ("sorted", "min", "max"):
            for a in args:
                self._no_record(a, f"{nm}()", c)
        elif nm in ("map", "filter"):
            for a in args[1:]:
                self._no_record(a, f"{nm}()", c)
        if nm == "len" and len(args) == 1 and not kw and isinstance(args[0], CObj):
            return self._dunder(args[0], "__len__", [], c)
        if nm in ("dict", "bool", "str", "repr", "reversed") and any(isinstance(a, CObj) for a in args):
            raise NotConcrete(f"{nm}() of the modelled object", c)
        if nm == "isinstance" and len(args) == 2 and not kw:
            if isinstance(args[0], (CObj, CMade, CCls, CExt, CFn, ConcreteRaise, ModelMD)):
                raise NotConcrete("isinstance of a modelled object", c)
            tps = args[1] if isinstance(args[1], tuple) and not isinstance(args[1], (CExt, CCls, CMade)) else (args[1],)
            py = []
            for x in tps:
                k = _VALUE_TYPES.get(x.fq) if isinstance(x, CExt) else None
                if k is None:
                    raise NotConcrete("isinstance against a class that is not a builtin value type", c)
                py.append(k)
            return isinstance(self.plain(args[0], c), tuple(py))
        if nm == "iter" and len(args) == 2:
            raise NotConcrete("iter(callable, sentinel)", c)
        if nm in ("enumerate", "iter", "reversed", "zip") and args and all(isinstance(a, (list, tuple, str, CObj) + _LAZY) or type(a).__name__.endswith("iterator") for a in args) and not (nm == "reversed" and not isinstance(args[0], (list, tuple, str))):
            import builtins

            live = [self.iterate(a, c) if isinstance(a, CObj) else a for a in args]  # not copied: python reads the list as the loop goes
            for a in kw.values():
                if not isinstance(self.plain(a, c), int):
                    raise NotConcrete(f"{nm}() keyword", c)
            return getattr(builtins, nm)(*live, **kw)
        if nm == "next" and args and isinstance(args[0], CObj):
            raise NotConcrete("next() of the modelled object", c)
        if nm == "len" and args and type(args[0]).__name__ in _VIEW_TYPES + ("dict_values",):
            return len(args[0])
        if nm == "len" and args and type(args[0]).__name__.endswith("iterator"):
            raise ConcreteRaise("TypeError", c)
        return super().builtin(nm, args, kw, c)

    def method(self, obj: t.Any, attr: str, args: list, kw: dict, c: ast.AST) -> t.Any:  # type: ignore[override]
        if isinstance(obj, ModelMD):
            if attr not in ModelMD.READERS:
                raise NotConcrete(f"method `{attr}` of a wrapped dict", c)
            for a in list(args) + list(kw.values()):
                self.plain(a, c)
                if isinstance(a, (CFn, CExt)):
                    raise NotConcrete(f"`{attr}` of a wrapped dict with a conversion callable", c)
            try:
                return getattr(obj, attr)(*args, **kw)
            except KeyError:
                raise ModelRaise("BadRequestKeyError", {"werkzeug.exceptions.BadRequestKeyError", "builtins.KeyError", "builtins.LookupError", "builtins.Exception", "builtins.BaseException"}, None, c)
            except TypeError:
                raise NotConcrete(f"`{attr}` of a wrapped dict with these arguments", c)
        if type(obj).__name__ == "ChainMap" and attr == "keys" and not args and not kw:
            return list(obj.keys())
        if type(obj).__name__ in _VIEW_TYPES and attr in ("isdisjoint",):
            return getattr(obj, attr)(*[list(self.iterate(a, c)) for a in args])
        if isinstance(obj, (set, frozenset)) and attr in ("union", "update", "intersection", "difference", "issubset", "issuperset", "isdisjoint") and not kw:
            args = [a if isinstance(a, (set, frozenset, list, tuple, dict, str)) else list(self.iterate(a, c)) for a in args]
        if isinstance(obj, list) and attr == "extend" and len(args) == 1 and not isinstance(args[0], (list, tuple)):
            args = [list(self.iterate(args[0], c))]
        return super().method(obj, attr, args, kw, c)


def _outcome(ip: ModelEval, fi: FuncInfo, me: CObj, args: list, kw: dict | None = None) -> tuple[str, t.Any]:
    """('value', v) | ('raise', set of class names) - NotConcrete propagates."""
    try:
        return "value", ip.call(CFn(fi.node, fi.module), [me] + args, dict(kw or {}), fi.node)
    except ConcreteRaise as r:
        bases = ip._raise_of(r)
        if bases is None:
            raise NotConcrete(f"raises {r.what}", r.node)
        return ("raise" if isinstance(r, ModelRaise) and r.value is not None else "raise-implicit"), (r.what, bases)


def _cannot(rid: str, what: str, x: NotConcrete, fi: FuncInfo) -> AnalysisError:
    return AnalysisError(f"{rid}: {what} cannot be evaluated on the state table: {x.why} ({fi.loc(x.node) if x.node is not None and hasattr(x.node, 'lineno') else fi.loc()})")


# states of the combined view: lists of wrapped dicts (key -> values); shared keys, shared keys in another letter case
# (different keys for a multi dict), a key in all dicts, no dicts, empty dicts
COMBINED_STATES: list[list[dict[str, list[str]]]] = [
    [],
    [{}],
    [{"a": ["1"]}],
    [{"a": ["1"], "b": ["2"]}, {"c": ["3"]}],
    [{"a": ["1"], "b": ["2"]}, {"a": ["3"], "A": ["4"]}],
    [{"a": ["1", "1x"]}, {"a": ["2"]}, {"a": ["3"], "d": ["4"]}],
    [{}, {"b": ["2"]}, {}, {"b": ["5"], "a": ["0"]}],
]


def combined_observers_rule(ctx: Ctx, rid: str) -> int:
    """R8.11: the sibling observers of the combined view's key set agree with the model and hence with each other: on
    every state of the table ``len(x)`` is the number of distinct keys of the wrapped dicts, and iteration and
    ``keys()`` hand out exactly those keys, each once."""
    repo = ctx.repo
    cls = repo.cls(COMBINED)
    loc = wrapped_list_attr(repo, cls)
    n = 0
    undecided: list[AnalysisError] = []
    for name in ("__len__", "__iter__", "keys"):
        owner, fi = repo.lookup(cls, name)
        if not isinstance(fi, FuncInfo):
            raise AnalysisError(f"{rid}: {cls.name}.{name} does not resolve to a method of the package")
        ctx.saw(fi)
        bad: list[str] = []
        open_: list[AnalysisError] = []
        for state in COMBINED_STATES:
            want = sorted({k for d in state for k in d})
            me = CObj(cls.fq, {loc: [ModelMD({k: list(v) for k, v in d.items()}) for d in state]})
            ip = ModelEval(repo)
            try:
                kind, got = _outcome(ip, fi, me, [])
                if kind == "value" and name != "__len__":
                    got = sorted(ip._no_record(ip.plain(x, fi.node), "a key", fi.node) for x in ip.iterate(got, fi.node))
                elif kind == "value":
                    ip._no_record(ip.plain(got, fi.node), "the length", fi.node)
                    if isinstance(got, CObj):
                        raise NotConcrete("the length is a modelled object", fi.node)
            except NotConcrete as x:
                open_.append(_cannot(rid, f"{cls.name}.{name}", x, fi))
                continue
            except TypeError:
                open_.append(AnalysisError(f"{rid}: {cls.name}.{name}: keys handed out are not comparable"))
                continue
            exp: t.Any = len(want) if name == "__len__" else want
            if kind != "value" or isinstance(got, bool) or got != exp:
                bad.append(f"wrapped dicts {state}: {'raises ' + got[0] if kind != 'value' else 'gives ' + repr(got)}, the model has {exp!r}")
            n += 1
        what = "the number of distinct keys" if name == "__len__" else "each distinct key once"
        if open_ and not bad:
            undecided.append(open_[0])  # a disagreement found on another state stands; otherwise the observer is not decided
            continue
        ctx.ob(rid, f"{cls.name}.{name} gives {what} of the wrapped dicts", not bad, bad[0] if bad else f"{owner.name}.{name} agrees with the model on {len(COMBINED_STATES)} states (shared keys, case variants, empty dicts)", fi, fi.node, f"{cls.name}.{name} vs key set")
    if undecided:
        raise undecided[0]
    return n


# states of Headers' pair list (repeated keys in several letter cases with different values) and the keys looked up
HEADERS_STATES: list[tuple[list[tuple[str, str]], list[str]]] = [
    ([("a", "1"), ("b", "2"), ("A", "3"), ("a", "1x")], ["a", "A", "B", "c"]),
    ([("X", "7"), ("x", "8"), ("y", "0"), ("X", "9")], ["x", "X", "Y"]),
    ([("k", "v")], ["K", "q"]),
    ([], ["a"]),
]


def _storage_attr(repo: Repo, cls: ClassInfo, rid: str) -> str:
    """the attribute the constructor initialises with an empty list when it is given nothing (by role, not by name)."""
    owner, init = repo.lookup(cls, "__init__")
    if not isinstance(init, FuncInfo):
        raise AnalysisError(f"{rid}: {cls.name}.__init__ is not a method of the package")
    me = CObj(cls.fq, {})
    try:
        ModelEval(repo).call(CFn(init.node, init.module), [me], {}, init.node)
    except NotConcrete as x:
        raise _cannot(rid, f"{cls.name}.__init__()", x, init)
    except ConcreteRaise as r:
        raise AnalysisError(f"{rid}: {cls.name}.__init__() raises {r.what}")
    lists = sorted(k for k, v in me.attrs.items() if isinstance(v, list) and not v)
    if len(lists) != 1:
        raise AnalysisError(f"{rid}: {cls.name}.__init__(): expected exactly one attribute initialised with an empty list, found {sorted(me.attrs)}")
    return lists[0]


def headers_first_match_rule(ctx: Ctx, rid: str) -> int:
    """R8.12: the keyed read accessors of Headers answer with the FIRST pair (list order) whose key equals the given
    key case-insensitively; a missing key gives the default / a KeyError; pop additionally leaves exactly the other
    pairs, in order."""
    repo = ctx.repo
    cls = repo.cls(HEADERS)
    loc = _storage_attr(repo, cls, rid)
    n = 0
    forms: list[tuple[str, str, list, str]] = [
        ("__getitem__", "h[key]", [], "raise"),
        ("get", "get(key)", [], "none"),
        ("get", "get(key, default)", ["<default>"], "default"),
        ("pop", "pop(key)", [], "raise"),
        ("pop", "pop(key, default)", ["<default>"], "default"),
    ]
    undecided: list[AnalysisError] = []
    for name, form, extra, absent in forms:
        owner, fi = repo.lookup(cls, name)
        if not isinstance(fi, FuncInfo):
            raise AnalysisError(f"{rid}: {cls.name}.{name} does not resolve to a method of the package")
        ctx.saw(fi)
        bad: list[str] = []
        open_: list[AnalysisError] = []
        for pairs, keys in HEADERS_STATES:
            for key in keys:
                hits = [v for k, v in pairs if k.lower() == key.lower()]
                rest = [(k, v) for k, v in pairs if k.lower() != key.lower()]
                me = CObj(cls.fq, {loc: list(pairs)})
                ip = ModelEval(repo)
                try:
                    kind, got = _outcome(ip, fi, me, [key] + extra)
                    if kind == "value":
                        got = ip.plain(got, fi.node)
                        if isinstance(got, _RECORDS + (CObj, ConcreteRaise)):
                            raise NotConcrete(f"the result is an object outside the modelled subset ({type(got).__name__})", fi.node)
                except NotConcrete as x:
                    open_.append(_cannot(rid, f"{cls.name}.{form}", x, fi))
                    continue
                n += 1
                after = me.attrs.get(loc)
                if not isinstance(after, list):
                    open_.append(AnalysisError(f"{rid}: {cls.name}.{form}: the pair list was replaced by a {type(after).__name__}"))
                    continue
                where = f"pairs {pairs}, key {key!r}"
                if hits:
                    if kind != "value":
                        bad.append(f"{where}: raises {got[0]}, the model gives the first value {hits[0]!r}")
                    elif got != hits[0]:
                        bad.append(f"{where}: gives {got!r}, the model gives the first value {hits[0]!r}" + (" (that is the last one)" if got == hits[-1] else ""))
                else:
                    if absent == "raise":
                        if kind == "value":
                            bad.append(f"{where}: gives {got!r}, the model raises KeyError")
                        elif "builtins.KeyError" not in got[1]:
                            open_.append(AnalysisError(f"{rid}: {cls.name}.{form} on {where}: raises {got[0]}, not a KeyError - not judged"))
                    else:
                        exp = None if absent == "none" else "<default>"
                        if kind != "value":
                            bad.append(f"{where}: raises {got[0]}, the model gives the default")
                        elif got is not exp and got != exp:
                            bad.append(f"{where}: gives {got!r}, the model gives the default {exp!r}")
                want_after = rest if name == "pop" else list(pairs)
                if [tuple(x) if isinstance(x, (list, tuple)) else x for x in after] != want_after and not (kind != "value" and name != "pop"):
                    bad.append(f"{where}: leaves the pairs {after}, the model leaves {want_after}")
        if open_ and not bad:
            undecided.append(open_[0])
            continue
        ctx.ob(rid, f"{cls.name}.{form} answers with the first matching pair", not bad, bad[0] if bad else f"{owner.name}.{name} agrees with the model on {sum(len(k) for _, k in HEADERS_STATES)} (state, key) cases with repeated keys in several letter cases", fi, fi.node, f"{cls.name}.{form} first match")
    if undecided:
        raise undecided[0]
    return n
