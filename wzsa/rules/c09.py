"""C09 - the request body stream never over-reads, truncates or hangs (structural clauses).

Branch structure is compared through canonical guard atoms and decision tables
(wzsa/guards.py), so if/else flips, early returns, merged / split conditions,
De Morgan rewrites and conditional expressions are all read the same way.
"""

from __future__ import annotations

import ast
import re

from .. import astq
from ..cfg import CFG, Node, cfg_of
from ..dataflow import ReachingDefs
from ..fold import Folder, RegexConst, classes_in
from ..guards import atom, canon, decision_table, guard_set, has, simulate, test_keys
from ..loader import AnalysisError, FuncInfo, dotted, norm, walk_no_nested
from ..report import Ctx

LEVEL_TEXT = (
    "Static decision of structural clauses of C09 on /repo's current source: (R9.1) the underlying stream is touched only "
    "inside LimitedStream.readinto, and the class overrides none of RawIOBase's derived readers; (R9.2) every underlying "
    "read is bounded by limit - position and is dominated by the exhausted test; (R9.3) the position moves only by the "
    "count the underlying call returned, which is also what readinto returns; (R9.4) every slice store into the caller's "
    "buffer is length-exact; (R9.5) I/O errors, empty reads and exhaustion are routed to on_disconnect / on_exhausted, "
    "whose decision tables are the documented ones (ClientDisconnected unless maximum-limited and error-free; "
    "RequestEntityTooLarge iff maximum-limited); (R9.6) get_input_stream's decision table over its condition atoms is the "
    "documented one (declared length above the maximum refused first; maximum-limited stream / raw stream / empty stream / "
    "length-limited stream), and get_content_length is total (digits-only ASCII pattern, ValueError -> 0, chunked/absent -> "
    "None); (R9.7) readall leaves its loop only on exhaustion or an empty read. It decides these clauses on all paths; "
    "byte-exact prefix equality follows from them plus io.RawIOBase's contract and is not itself checked."
)
TRUSTED = ["CPython ast and re._parser", "io.RawIOBase routes read/readline/readlines/iteration through readinto/readall", "the underlying stream honours its own read(n)/readinto(b) contract"]
ASSUMPTIONS = ["positive-size or unbounded reads (as the property states)"]


def _strip_cast(v: ast.AST | None) -> ast.AST | None:
    while isinstance(v, ast.Call) and (dotted(v.func) or "").endswith("cast") and len(v.args) == 2:
        v = v.args[1]
    return v


def run(ctx: Ctx) -> None:
    repo = ctx.repo
    for rid, text in {
        "R9.1": "self._stream is used only inside LimitedStream.readinto (and assigned in __init__); read/readline/readlines/__next__/__iter__ are not overridden; readall/exhaust read only through self.read/self.readall",
        "R9.2": "each underlying call reads at most remaining = limit - _pos bytes and happens only when remaining > 0",
        "R9.3": "_pos is written only as 0 in __init__ and by += <count returned by the underlying call>; readinto returns that count",
        "R9.4": "every slice store into the caller's buffer `b[:n] = src` has len(src) == n by construction",
        "R9.5": "each underlying call sits in a try whose handler covers OSError and calls on_disconnect(error=...); an empty result calls on_disconnect(); exhaustion calls on_exhausted(); decision tables of the two hooks",
        "R9.6": "decision table of get_input_stream over its condition atoms equals the documented one; get_content_length is total",
        "R9.7": "readall leaves its read loop only when exhausted or after an empty read",
    }.items():
        ctx.rule(rid, text)

    ls = repo.cls("wsgi.LimitedStream")
    ri = ls.methods.get("readinto")
    if ri is None:
        raise AnalysisError("LimitedStream.readinto missing")
    ctx.saw(ri)
    cfg = cfg_of(ri)
    rd = ReachingDefs(cfg, ri.params)
    bufname = ri.params[1]

    # ---------------- R9.1 -------------------------------------------
    users = [name for name, fi in ls.methods.items() if any(astq.is_self_attr(n, "_stream") for n in ast.walk(fi.node))]
    ctx.ob("R9.1", "underlying stream used only by readinto", sorted(users) == ["__init__", "readinto"], f"methods touching self._stream: {sorted(users)}", ri, ri.node, "stream users")
    over = [m for m in ("read", "readline", "readlines", "__next__", "__iter__", "read1") if m in ls.methods]
    ctx.ob("R9.1", "derived readers are RawIOBase's", not over, f"overridden: {over}", ls.fq, None, "no derived reader overridden")
    bases = [k.fq for k in repo.mro(ls)[1:]]
    ctx.ob("R9.1", "LimitedStream derives from io.RawIOBase", any(b.endswith("RawIOBase") for b in bases), f"bases {bases}", ls.fq, None, "RawIOBase base")
    for nm in ("readall", "exhaust"):
        fi = ls.methods.get(nm)
        if fi is None:
            raise AnalysisError(f"LimitedStream.{nm} missing")
        ctx.saw(fi)
        calls = {c.func.attr for c in astq.calls(fi.node) if isinstance(c.func, ast.Attribute) and isinstance(c.func.value, ast.Name) and c.func.value.id == "self"}
        ctx.ob("R9.1", f"{nm} reads only through read/readall", calls <= {"read", "readall", "on_exhausted"}, f"self-calls {sorted(calls)}", fi, fi.node, f"{nm} self calls")

    # ---------------- slots in readinto --------------------------------
    local_names = {t_.id for s in walk_no_nested(ri.node) if isinstance(s, (ast.Assign, ast.AnnAssign)) for t_ in (s.targets if isinstance(s, ast.Assign) else [s.target]) if isinstance(t_, ast.Name)}
    rem_names = [nm for nm in sorted(local_names) if any(v is not None and norm(v) == "self.limit - self._pos" for _, v in astq.assigns_to(ri.node, nm))]
    if len(rem_names) != 1:
        raise AnalysisError("readinto: `<name> = self.limit - self._pos` not found (slot)")
    REM = rem_names[0]
    size_names = [nm for nm in sorted(local_names) if astq.assigns_to(ri.node, nm) and all(v is not None and norm(v) == f"len({bufname})" for _, v in astq.assigns_to(ri.node, nm))]
    SIZES = size_names + [f"len({bufname})"]
    under = [c for c in astq.calls(ri.node) if isinstance(c.func, ast.Attribute) and astq.is_self_attr(c.func.value, "_stream")]
    ctx.floor("R9.2", "underlying call sites", len(under), 2)

    def positive_remaining(g) -> bool:
        return has(g, f"{REM} > 0") or has(g, f"{REM} >= 1") or has(g, f"{REM} < 1", False) or has(g, f"{REM} <= 0", False)

    def fits(g, extra=()) -> bool:
        gg = set(g) | set(extra)
        return any(has(gg, f"{s} <= {REM}") for s in SIZES)

    def bool_name_atoms(name: str, node: Node) -> ast.AST | None:
        defs = rd.reaching(node, name)
        if len(defs) == 1:
            d = next(iter(defs))
            if d.kind == "assign" and d.index is None and isinstance(d.value, (ast.Compare, ast.UnaryOp, ast.BoolOp)):
                return d.value
        return None

    def expand_flags(g: set, node: Node) -> set:
        """a guard on a local boolean whose single definition is a comparison implies that comparison."""
        out = set(g)
        for k, v in list(g):
            if k.isidentifier():
                sub = bool_name_atoms(k, node)
                if sub is not None and not isinstance(sub, ast.BoolOp):
                    kk, pp = canon(sub)
                    out.add((kk, v == pp))
        return out

    def bounded_buffer(e: ast.AST, node: Node, extra: frozenset = frozenset(), depth: int = 0) -> tuple[bool, str]:
        g = expand_flags(guard_set(cfg, node), node)
        if isinstance(e, ast.Call) and dotted(e.func) == "bytearray" and len(e.args) == 1 and norm(e.args[0]) == REM:
            return True, f"bytearray({REM})"
        if isinstance(e, ast.Name) and e.id == bufname:
            ok = fits(g, extra)
            return ok, f"caller's buffer under size <= {REM}: {ok}"
        if isinstance(e, ast.IfExp):
            t_: ast.AST = e.test
            if isinstance(t_, ast.Name):
                sub = bool_name_atoms(t_.id, node)
                t_ = sub if sub is not None else t_
            k, p = canon(t_)
            a, wa = bounded_buffer(e.body, node, extra | {(k, p)}, depth + 1)
            b, wb = bounded_buffer(e.orelse, node, extra | {(k, not p)}, depth + 1)
            return a and b, f"({wa}) if {norm(e.test)} else ({wb})"
        if isinstance(e, ast.Name) and depth < 4:
            defs = rd.reaching(node, e.id)
            if not defs:
                return False, f"`{e.id}` undefined"
            res = [bounded_buffer(d.value, node, extra, depth + 1) if d.value is not None and d.kind == "assign" and d.index is None else (False, d.kind) for d in defs]
            return all(r[0] for r in res), f"`{e.id}` = " + " | ".join(r[1] for r in res)
        return False, f"unrecognised buffer `{norm(e)}`"

    def bounded_size(e: ast.AST, node: Node, depth: int = 0) -> tuple[bool, str]:
        if isinstance(e, ast.Call) and dotted(e.func) == "min" and any(norm(x) == REM for x in e.args):
            return True, norm(e)
        if norm(e) == REM:
            return True, REM
        if isinstance(e, ast.Name) and depth < 4:
            defs = rd.reaching(node, e.id)
            res = [bounded_size(d.value, d.node or node, depth + 1) if d.value is not None and d.kind == "assign" and d.index is None else (False, d.kind) for d in defs]
            return bool(res) and all(r[0] for r in res), f"`{e.id}` = " + " | ".join(r[1] for r in res)
        return False, f"size `{norm(e)}` not bounded by {REM}"

    # ---------------- R9.2 / R9.5 per underlying call -------------------
    for c in under:
        node = cfg.node_of(c)
        kind = c.func.attr  # type: ignore[attr-defined]
        g = guard_set(cfg, node)
        dom = positive_remaining(g)
        if kind == "readinto" and c.args:
            bounded, why = bounded_buffer(c.args[0], node)
        elif kind == "read" and c.args:
            bounded, why = bounded_size(c.args[0], node)
        else:
            bounded, why = False, f"unrecognised underlying call `{norm(c)}`"
        ctx.ob("R9.2", f"underlying {kind}() reads at most the remaining bytes", bounded and dom, f"`{norm(c)}`: {why}; only when {REM} > 0: {dom}", ri, c, f"bounded underlying {kind} {norm(c)}")
        tr = astq.enclosing(c, (ast.Try,))
        ok5 = False
        fact5 = "not inside a try"
        while isinstance(tr, ast.Try) and not ok5:
            if any(c is x for s in tr.body for x in ast.walk(s)):
                for h in tr.handlers:
                    names = ["BaseException"] if h.type is None else [dotted(e) or "" for e in (h.type.elts if isinstance(h.type, ast.Tuple) else [h.type])]
                    covers = any(nm.rsplit(".", 1)[-1] in ("OSError", "Exception", "BaseException", "IOError", "EnvironmentError") for nm in names)
                    calls_dc = any(isinstance(cc.func, ast.Attribute) and cc.func.attr == "on_disconnect" and (any(kw.arg == "error" for kw in cc.keywords) or len(cc.args) == 1) for cc in astq.calls(h))
                    ends = any(isinstance(s, (ast.Return, ast.Raise)) for s in h.body)
                    fact5 = f"handler {names}: covers OSError={covers}, calls on_disconnect(error=)={calls_dc}, leaves={ends}"
                    if covers and calls_dc and ends:
                        ok5 = True
            tr = astq.enclosing(tr, (ast.Try,))
        ctx.ob("R9.5", f"underlying {kind}() I/O errors routed to on_disconnect", ok5, f"`{norm(c)}`: {fact5}", ri, c, f"error routing underlying {kind} {norm(c)}")
    # with nothing remaining: on_exhausted() is called and the underlying stream is not touched
    k_exh = atom(f"{REM} <= 0")
    outs = simulate(cfg, lambda k: (k_exh[1] if k == k_exh[0] else None))
    exh_ok = bool(outs) and all(any(_calls(n, "on_exhausted") for n in o.passed) and not any(_touches_under(n) for n in o.passed) for o in outs)
    ctx.ob("R9.2", "with nothing remaining, on_exhausted() is called and the underlying stream is not touched", exh_ok, f"paths under `{REM} <= 0`: {len(outs)}", ri, ri.node, "exhausted branch")

    # ---------------- R9.3 -------------------------------------------
    pos_writes = []
    for name, fi in ls.methods.items():
        for n in walk_no_nested(fi.node):
            if isinstance(n, (ast.Assign, ast.AugAssign, ast.AnnAssign)):
                tg = n.targets if isinstance(n, ast.Assign) else [n.target]
                if any(astq.is_self_attr(t_, "_pos") for t_ in tg):
                    pos_writes.append((name, fi, n))
    ok_init = [w for w in pos_writes if w[0] == "__init__" and isinstance(w[2], ast.Assign) and norm(w[2].value) == "0"]
    incs = [w for w in pos_writes if w[0] == "readinto" and isinstance(w[2], ast.AugAssign) and isinstance(w[2].op, ast.Add)]
    ctx.ob("R9.3", "_pos written only by __init__ (0) and one += in readinto", len(ok_init) == 1 and len(incs) == 1 and len(pos_writes) == 2, f"writes: {[(w[0], norm(w[2])) for w in pos_writes]}", ri, ri.node, "_pos writers")
    if incs:
        inc = incs[0][2]
        inc_node = cfg.node_of(inc)
        cnt = inc.value

        def from_underlying(e: ast.AST, node: Node, depth: int = 0) -> bool:
            if isinstance(e, ast.Call) and isinstance(e.func, ast.Attribute) and astq.is_self_attr(e.func.value, "_stream") and e.func.attr == "readinto":
                return True
            if isinstance(e, ast.Call) and dotted(e.func) == "len" and e.args and isinstance(e.args[0], ast.Name) and depth < 4:
                ddefs = rd.reaching(node, e.args[0].id)
                return bool(ddefs) and all(dd.value is not None and isinstance(dd.value, ast.Call) and isinstance(dd.value.func, ast.Attribute) and astq.is_self_attr(dd.value.func.value, "_stream") and dd.value.func.attr == "read" for dd in ddefs)
            if isinstance(e, ast.Name) and depth < 4:
                defs = rd.reaching(node, e.id)
                return bool(defs) and all(d.value is not None and d.index is None and from_underlying(d.value, d.node or node, depth + 1) for d in defs)
            return False

        ctx.ob("R9.3", "_pos advances by the count the underlying call returned", from_underlying(cnt, inc_node), f"increment `{norm(inc)}`", ri, inc, "_pos increment source")
        rets = astq.returns_of(ri.node)
        after = [r for r in rets if cfg.node_of(r) is not None and cfg.node_dominates(inc_node, cfg.node_of(r))]
        others = [r for r in rets if r not in after]
        ok_ret = len(after) >= 1 and all(norm(r.value) == norm(cnt) for r in after) and all(norm(r.value) == "0" for r in others)
        ctx.ob("R9.3", "readinto returns the count it accounted for (0 otherwise)", ok_ret, f"after increment: {[norm(r.value) for r in after]}; other returns: {sorted({norm(r.value) for r in others})}", ri, ri.node, "readinto returns")
        g_inc = guard_set(cfg, inc_node)
        truthy = has(g_inc, norm(cnt)) or has(g_inc, f"{norm(cnt)} > 0") or has(g_inc, f"{norm(cnt)} == 0", False)
        kc = canon(cnt)[0]
        outs0 = simulate(cfg, lambda k: (False if k == kc else (not k_exh[1]) if k == k_exh[0] else None))
        zero_ok = bool(outs0) and all(any(_calls(n, "on_disconnect") for n in o.passed) for o in outs0 if any(_touches_under(n) for n in o.passed))
        ctx.ob("R9.5", "an empty read calls on_disconnect() and does not advance", truthy and zero_ok, f"increment only with a truthy count: {truthy}; every path with a falsy count after an underlying call passes on_disconnect(): {zero_ok}", ri, inc, "empty read routing")

    # ---------------- R9.4 -------------------------------------------
    n94 = 0
    for st in walk_no_nested(ri.node):
        if isinstance(st, ast.Assign) and isinstance(st.targets[0], ast.Subscript) and astq.is_name(st.targets[0].value, bufname) and isinstance(st.targets[0].slice, ast.Slice):
            sl = st.targets[0].slice
            n94 += 1
            ok = False
            fact = norm(st)
            if sl.lower is None and sl.step is None and sl.upper is not None:
                nexpr = sl.upper
                src = st.value
                if isinstance(src, ast.Subscript) and isinstance(src.slice, ast.Slice) and src.slice.lower is None and src.slice.upper is not None and norm(src.slice.upper) == norm(nexpr):
                    ok = True
                    fact += " (source sliced to the same length)"
                elif isinstance(nexpr, ast.Name) and isinstance(src, ast.Name):
                    node = cfg.node_of(st)
                    defs = rd.reaching(node, nexpr.id)
                    ok = bool(defs) and all(d.value is not None and norm(d.value) == f"len({src.id})" for d in defs)
                    fact += f" ({nexpr.id} defined as {[norm(d.value) for d in defs if d.value is not None]})"
                elif isinstance(nexpr, ast.Call) and dotted(nexpr.func) == "len" and norm(nexpr.args[0]) == norm(src):
                    ok = True
            ctx.ob("R9.4", "slice store into the caller's buffer is length-exact", ok, fact, ri, st, f"buffer store {norm(st)}")
    ctx.floor("R9.4", "buffer slice stores", n94, 1)

    # ---------------- R9.5 hooks: decision tables ---------------------------
    oe = ls.methods.get("on_exhausted")
    od = ls.methods.get("on_disconnect")
    if oe is None or od is None:
        raise AnalysisError("on_exhausted / on_disconnect missing")
    ctx.saw(oe, od)
    MAX = atom("self._limit_is_max")[0]
    ERRN = atom("error is None")[0]
    bad = []
    for v, outs_ in decision_table(cfg_of(oe), [MAX]):
        got = {(o.kind == "raise" and _raised(o) == "RequestEntityTooLarge") for o in outs_}
        if got != {v[MAX]}:
            bad.append(f"is_max={v[MAX]} -> {sorted(_desc(o) for o in outs_)}")
    ctx.ob("R9.5", "on_exhausted raises RequestEntityTooLarge iff the limit is a maximum", not bad, "; ".join(bad) or "decision table over {self._limit_is_max} matches", oe, oe.node, "on_exhausted")
    bad = []
    extra = [k for k in test_keys(cfg_of(od)) if k not in (MAX, ERRN)]
    for v, outs_ in decision_table(cfg_of(od), [MAX, ERRN]):
        want = not (v[MAX] and v[ERRN])
        got = {(o.kind == "raise" and _raised(o) == "ClientDisconnected") for o in outs_}
        if got != {want}:
            bad.append(f"is_max={v[MAX]}, error is None={v[ERRN]} -> {sorted(_desc(o) for o in outs_)}")
    ctx.ob("R9.5", "on_disconnect raises ClientDisconnected unless (limit is a maximum and no error)", not bad and not extra, "; ".join(bad) or f"decision table over {{is_max, error is None}} matches; other atoms: {extra}", od, od.node, "on_disconnect")

    # ---------------- R9.7 readall loop -----------------------------------
    ra = ls.methods["readall"]
    cra = cfg_of(ra)
    loops = [n for n in walk_no_nested(ra.node) if isinstance(n, ast.While)]
    if len(loops) != 1:
        raise AnalysisError("readall: expected one while loop")
    lp = loops[0]
    cond_ok = canon(lp.test) == (atom("self.is_exhausted")[0], False)
    breaks = [n for n in walk_no_nested(lp) if isinstance(n, ast.Break)]
    reads = [s for s in walk_no_nested(lp) if isinstance(s, ast.Assign) and isinstance(s.value, ast.Call) and isinstance(s.value.func, ast.Attribute) and s.value.func.attr == "read" and astq.is_name(s.value.func.value, "self")]
    if len(reads) == 1 and isinstance(reads[0].targets[0], ast.Name):
        dname = reads[0].targets[0].id
        inner = {id(x) for s in lp.body for x in ast.walk(s)}
        inner_keys = {canon(t_.ast)[0] for t_ in cra.tests() if t_.kind == "test" and id(t_.ast) in inner}

        def inner_guards(n: Node) -> set:
            return {(k, v) for (k, v) in guard_set(cra, n) if k in inner_keys}

        empty = [{(dname, False)}, {(f"0 == len({dname})", True)}, {(f"len({dname}) == 0", True)}]
        nonempty = [set(), {(dname, True)}, {(f"0 == len({dname})", False)}]
        bad_exit = [(b, inner_guards(cra.node_of(b))) for b in breaks if inner_guards(cra.node_of(b)) not in empty]
        rets_in = [n for n in walk_no_nested(lp) if isinstance(n, (ast.Return, ast.Raise))]
        ok = cond_ok and not bad_exit and not rets_in
        fact = f"loop while `{norm(lp.test)}`; {len(breaks)} break(s), each only under an empty `{dname}`: {not bad_exit}{' ' + str([sorted(g) for _, g in bad_exit]) if bad_exit else ''}; returns/raises inside loop: {len(rets_in)}"
        sites = [c for c in astq.method_calls(lp, "extend") + astq.method_calls(lp, "append") if c.args and norm(c.args[0]) == dname] + [s for s in walk_no_nested(lp) if isinstance(s, ast.AugAssign) and norm(s.value) == dname]
        acc_ok = any(inner_guards(cra.node_of(x)) in nonempty for x in sites if cra.node_of(x) is not None)
        ctx.ob("R9.7", "every non-empty read is appended to the result", acc_ok, f"accumulation of `{dname}` inside the loop guarded by nothing but its non-emptiness: {acc_ok}", ra, lp, "readall accumulates")
    else:
        ok = False
        fact = "no single `<name> = self.read(n)` in the loop"
    ctx.ob("R9.7", "readall loop exits only on exhaustion or an empty read", ok, fact, ra, lp, "readall loop exits")

    # ---------------- R9.6 -------------------------------------------
    _input_stream(ctx)


def input_stream_rule(ctx: Ctx, rule: str) -> None:
    """the same table, reported under another property's rule id (C10 shares it)."""
    _input_stream(ctx, rule)


def _calls(n: Node, method: str) -> bool:
    return n.ast is not None and n.kind in ("stmt", "test") and any(isinstance(c.func, ast.Attribute) and c.func.attr == method for c in astq.calls(n.ast))


def _touches_under(n: Node) -> bool:
    return n.ast is not None and n.kind in ("stmt", "test") and any(isinstance(c.func, ast.Attribute) and astq.is_self_attr(c.func.value, "_stream") for c in astq.calls(n.ast))


def _raised(o) -> str | None:
    e = o.value
    if isinstance(e, ast.Call):
        e = e.func
    d = dotted(e) if e is not None else None
    return d.rsplit(".", 1)[-1] if d else None


def _desc(o) -> str:
    if o.kind == "raise":
        return f"raise {_raised(o)}"
    if o.kind == "return":
        return f"return {norm(o.value) if o.value is not None else None}"
    return o.kind


def _classify_stream(v: ast.AST | None) -> str:
    v = _strip_cast(v)
    if v is None:
        return "None"
    if isinstance(v, ast.Name):
        return f"name:{v.id}"
    if isinstance(v, ast.Call) and (dotted(v.func) or "").endswith("BytesIO") and not v.args:
        return "BytesIO()"
    if isinstance(v, ast.Call) and (dotted(v.func) or "").endswith("LimitedStream"):
        src = norm(v.args[0]) if v.args else "?"
        lim = norm(v.args[1]) if len(v.args) > 1 else norm(astq.kwarg(v, "limit") or ast.Constant(None))
        ismax = astq.arg_or_kw(v, 2, "is_max")
        return f"LimitedStream({src}, {lim}, is_max={norm(ismax) if ismax is not None else 'False'})"
    return f"other:{norm(v)[:40]}"


def _input_stream(ctx: Ctx, RULE: str = "R9.6") -> None:
    repo = ctx.repo
    gi = repo.func("wsgi.get_input_stream")
    ctx.saw(gi)
    cfg = cfg_of(gi)
    TERM = atom("'wsgi.input_terminated' in environ")[0]
    MAXN = atom("max_content_length is None")[0]
    CLN = atom("content_length is None")[0]
    SAFE = atom("safe_fallback")[0]
    GT = atom("content_length > max_content_length")[0]
    known = [TERM, MAXN, CLN, SAFE, GT]
    present = test_keys(cfg)
    unknown = [k for k in present if k not in known]
    missing = [k for k in known if k not in present]
    ctx.ob(RULE, "get_input_stream decides on the documented atoms only", not unknown and not missing, f"atoms found {present}; unknown {unknown}; missing {missing}", gi, gi.node, "input stream atoms")

    def spec(v) -> str:
        if not v[CLN] and not v[MAXN] and v[GT]:
            return "raise RequestEntityTooLarge"
        if v[TERM]:
            return "name:stream" if v[MAXN] else "LimitedStream(stream, max_content_length, is_max=True)"
        if v[CLN]:
            return "BytesIO()" if v[SAFE] else "name:stream"
        return "LimitedStream(stream, content_length, is_max=False)"

    by_expected: dict[str, list[str]] = {}
    rows = decision_table(cfg, known)
    for v, outs in rows:
        want = spec(v)
        got = sorted({("raise " + (_raised(o) or "?")) if o.kind == "raise" else _classify_stream(o.value) if o.kind == "return" else o.kind for o in outs})
        by_expected.setdefault(want, [])
        if got != [want]:
            by_expected[want].append(f"[terminated={v[TERM]}, max is None={v[MAXN]}, length is None={v[CLN]}, safe_fallback={v[SAFE]}, length>max={v[GT]}] -> {got}")
    ctx.floor(RULE, "decision rows of get_input_stream", len(rows), 32)
    for want in ["raise RequestEntityTooLarge", "LimitedStream(stream, max_content_length, is_max=True)", "name:stream", "BytesIO()", "LimitedStream(stream, content_length, is_max=False)"]:
        bad = by_expected.get(want)
        if bad is None:
            bad = ["no row expects this outcome"]
        ctx.ob(RULE, f"input stream table: rows expecting `{want.replace('name:', '')}`", not bad, ("; ".join(bad[:4]) + (f" (+{len(bad) - 4} more rows)" if len(bad) > 4 else "")) if bad else "all rows agree", gi, gi.node, f"input stream table {want}")
    d1 = [norm(v) for _, v in astq.assigns_to(gi.node, "content_length") if v is not None]
    ctx.ob(RULE, "content_length comes from get_content_length(environ)", d1 == ["get_content_length(environ)"], f"{d1}", gi, gi.node, "content_length source")
    d2 = [norm(v) for _, v in astq.assigns_to(gi.node, "stream") if v is not None]
    ctx.ob(RULE, "stream is environ['wsgi.input']", len(d2) == 1 and "environ['wsgi.input']" in d2[0], f"{d2}", gi, gi.node, "stream source")

    # get_content_length (sansio) is total
    gl = repo.func("sansio.utils.get_content_length")
    ctx.saw(gl)
    c2 = cfg_of(gl)
    CH = atom("http_transfer_encoding == 'chunked'")[0]
    HN = atom("http_content_length is None")[0]
    bad = []
    for v, outs in decision_table(c2, [CH, HN]):
        vals = sorted({norm(o.value) if o.kind == "return" and o.value is not None else o.kind for o in outs})
        if v[CH] or v[HN]:
            if vals != ["None"]:
                bad.append(f"chunked={v[CH]}, absent={v[HN]} -> {vals}")
        elif "None" in vals or any(x in ("fall", "raise") for x in vals):
            bad.append(f"chunked={v[CH]}, absent={v[HN]} -> {vals}")
    pis = [c for c in astq.calls(gl.node) if (dotted(c.func) or "").endswith("_plain_int")]
    h_ok = False
    for c in pis:
        tr = astq.enclosing(c, (ast.Try,))
        h_ok = isinstance(tr, ast.Try) and any((dotted(h.type) or "") in ("ValueError", "Exception") and any(isinstance(s, ast.Return) and norm(s.value) == "0" for s in h.body) for h in tr.handlers if h.type is not None)
    clamp = any(dotted(c.func) == "max" and any(norm(a) == "0" for a in c.args) for c in astq.calls(gl.node))
    ctx.ob(RULE, "get_content_length: chunked or absent -> None; otherwise max(0, plain int); ValueError -> 0", not bad and len(pis) == 1 and h_ok and clamp, f"table mismatches {bad}; _plain_int in try with ValueError -> 0: {h_ok}; clamped at 0: {clamp}", gl, gl.node, "get_content_length table")
    pi = repo.func("_internal._plain_int")
    ctx.saw(pi)
    folder = Folder(repo)
    fm = [c for c in astq.method_calls(pi.node, "fullmatch")]
    ok = False
    fact = "no fullmatch"
    if len(fm) == 1:
        rx = folder.name(pi.module, dotted(fm[0].func.value) or "")  # type: ignore[attr-defined]
        if isinstance(rx, RegexConst):
            digits_only = bool(rx.flags & re.A) and all(c in b"-0123456789" for cls in classes_in(rx, 256) for c in cls)
            raises_ve = any(astq.raised_name(r) == "ValueError" for r in astq.raises_of(pi.node))
            ok = digits_only and raises_ve
            fact = f"pattern {rx.pattern!r} flags={rx.flags}: ASCII digits only={digits_only}; raises ValueError on mismatch={raises_ve}"
    ctx.ob(RULE, "_plain_int accepts only ASCII digits (optional sign) and raises ValueError otherwise", ok, fact, pi, pi.node, "_plain_int pattern")
    wg = repo.func("wsgi.get_content_length")
    ctx.saw(wg)
    s = norm(wg.node)
    ctx.ob(RULE, "wsgi.get_content_length reads CONTENT_LENGTH and HTTP_TRANSFER_ENCODING", "environ.get('CONTENT_LENGTH')" in s and "environ.get('HTTP_TRANSFER_ENCODING')" in s, "", wg, wg.node, "environ keys")
