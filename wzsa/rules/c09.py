"""C09 - the request body stream never over-reads, truncates or hangs (structural clauses).

Every rule is decided on *paths with a symbolic store* over a normalised copy of the function
(wzsa/rules/_c09_helpers.py): helpers of the class / module and properties are expanded in place, conditional
expressions are if/else, every condition and every value is expressed over the values at the start of the path and
comparisons are canonical integer linear atoms.  A rule therefore asks "on every path that performs the operation, do
the path conditions guarantee the bound / has the event happened", not "does the code look like this".
"""

from __future__ import annotations

import ast
import itertools
import re
import typing as t

from .. import astq
from ..fold import Folder, RegexConst, classes_in
from ..loader import AnalysisError, ClassInfo, FuncInfo, dotted, norm, walk_no_nested
from ..report import Ctx
from ._c09_helpers import Cond, Ev, Lin, NFunc, Path, Sym, canon_atom, class_writes, ieval, implies_ge0, implies_le, lin, normalise, symname, truth_of, vername

LEVEL_TEXT = (
    "Static decision of structural clauses of C09 on /repo's current source, on all paths of a normalised form of each "
    "function (helpers and properties expanded, conditional expressions as branches, conditions as canonical integer "
    "linear atoms over the values at the start of the path): (R9.1) the underlying stream is touched only inside "
    "LimitedStream.readinto (and helpers used by it alone), and the class overrides none of RawIOBase's derived readers; "
    "(R9.2) on every path to an underlying read the conditions guarantee limit - position >= 1 and the read is bounded by "
    "limit - position; with nothing remaining on_exhausted() is called and the stream is not touched; (R9.3) on every "
    "path the position moves exactly by the count the underlying call returned, which is also what readinto returns; "
    "(R9.4) every slice store into the caller's buffer is length-exact; (R9.5) I/O errors, empty reads and exhaustion are "
    "routed to on_disconnect / on_exhausted, whose decision tables are the documented ones (ClientDisconnected unless "
    "maximum-limited and error-free; RequestEntityTooLarge iff maximum-limited); (R9.6) the outcome of every path of "
    "get_input_stream agrees with the documented table over its five condition atoms (declared length above the maximum "
    "refused first; maximum-limited stream / raw stream / empty stream / length-limited stream), and get_content_length "
    "is total (digits-only ASCII pattern, ValueError -> 0, chunked/absent -> None, clamped at 0 - checked by evaluating "
    "each path over sample integers); (R9.7) readall reads only under a test that the limit is not reached (first and later "
    "rounds), leaves its loop only on exhaustion or an empty read, never loops on an empty read, and accumulates every "
    "non-empty read (directly or through a chunk generator it joins). Byte-exact prefix equality follows from these clauses plus "
    "io.RawIOBase's contract and is not itself checked."
)
TRUSTED = ["CPython ast and re._parser", "io.RawIOBase routes read/readline/readlines/iteration through readinto/readall", "the underlying stream honours its own read(n)/readinto(b) contract"]
ASSUMPTIONS = [
    "positive-size or unbounded reads (as the property states)",
    "compared quantities (lengths, positions, limits, counts) are ints, so a > b is a >= b + 1; an int-or-None value is falsy exactly when it is None or 0",
    "expanding a helper of the same class / module in place preserves its meaning (no recursion deeper than three levels, no generator helpers)",
    "a callable kept in an instance attribute does not modify the instance",
]

HOOKS = {"on_exhausted", "on_disconnect"}
READERS = {"read", "readall", "readinto", "readline", "readlines", "__next__", "__iter__", "read1", "exhaust"}
OS_FULL = {"OSError", "IOError", "EnvironmentError", "Exception", "BaseException"}
OS_PART = {"BlockingIOError", "ConnectionError", "BrokenPipeError", "ConnectionAbortedError", "ConnectionRefusedError", "ConnectionResetError", "TimeoutError", "InterruptedError", "FileNotFoundError", "PermissionError"}


class _Roles:
    """the four attributes of LimitedStream, found by what __init__ stores in them (not by their names)."""

    stream = "self._stream"
    pos = "self._pos"
    limit = "self.limit"
    is_max = "self._limit_is_max"

    @staticmethod
    def attr(term: str) -> str:
        return term.split(".", 1)[1]


_R = _Roles()


def _find_roles(repo, ls: ClassInfo) -> None:
    init = ls.methods.get("__init__")
    if init is None or len(init.params) < 4:
        raise AnalysisError("LimitedStream.__init__(self, stream, limit, is_max) not found")
    sn, p_stream, p_limit, p_max = init.params[:4]
    paths = [p for p in Sym(normalise(repo, init, lambda h: False), repo=repo).paths() if p.outcome in ("return", "fall")]
    if not paths:
        raise AnalysisError("LimitedStream.__init__: no normal path")
    found: dict[str, set[str]] = {"stream": set(), "limit": set(), "is_max": set(), "pos": set()}
    for i, p in enumerate(paths):
        cur: dict[str, set[str]] = {k: set() for k in found}
        # attributes of self, and the fields of a state object that __init__ builds and keeps in an attribute of self
        flat: list[tuple[str, ast.AST]] = []
        for key, v in p.env.items():
            if key.startswith(sn + "."):
                flat.append((key, v))
                if isinstance(v, ast.Name):
                    flat.extend((f"{key}.{k2.split('.', 1)[1]}", v2) for k2, v2 in p.env.items() if k2.startswith(v.id + "."))
        for key, v in flat:
            term = "self." + key.split(".", 1)[1]
            if isinstance(v, ast.Name) and v.id == p_stream:
                cur["stream"].add(term)
            elif isinstance(v, ast.Name) and v.id == p_limit:
                cur["limit"].add(term)
            elif isinstance(v, ast.Name) and v.id == p_max:
                cur["is_max"].add(term)
            elif isinstance(v, ast.Constant) and v.value == 0 and not isinstance(v.value, bool):
                cur["pos"].add(term)
        for k in found:
            found[k] = cur[k] if i == 0 else found[k] & cur[k]
    if len(found["pos"]) > 1:
        # several attributes start at 0: the position is the one that is written again outside __init__
        rewritten = set()
        for name, fi in ls.methods.items():
            if name == "__init__":
                continue
            s2 = fi.params[0] if fi.params else "self"
            for x in ast.walk(fi.node):
                if isinstance(x, ast.Attribute) and isinstance(x.ctx, ast.Store) and isinstance(x.value, ast.Name) and x.value.id == s2:
                    rewritten.add("self." + x.attr)
        found["pos"] &= rewritten
    if len(found["is_max"]) != 1:
        found["is_max"] = {"self.<is_max>"}  # kept in another representation: the hooks are analysed through __init__ anyway
    for k, v in found.items():
        if len(v) != 1:
            raise AnalysisError(f"LimitedStream.__init__: the attribute holding the {k} is not unique ({sorted(v)})")
    _R.stream, _R.limit, _R.is_max, _R.pos = (next(iter(found[k])) for k in ("stream", "limit", "is_max", "pos"))


def _role_nodes(fi: FuncInfo, term: str) -> list[ast.Attribute]:
    """the places in a method that name the attribute (chain) `term` = self.a[.b], also through `x = self.a`."""
    sn = fi.params[0] if fi.params else "self"
    path = term.split(".", 1)[1]
    counts: dict[str, int] = {}
    for x in ast.walk(fi.node):
        if isinstance(x, ast.Name) and isinstance(x.ctx, ast.Store):
            counts[x.id] = counts.get(x.id, 0) + 1
    alias: dict[str, str] = {}
    for x in ast.walk(fi.node):
        if isinstance(x, ast.Assign) and len(x.targets) == 1 and isinstance(x.targets[0], ast.Name) and counts.get(x.targets[0].id) == 1 and isinstance(x.value, ast.Attribute):
            d_ = dotted(x.value)
            if d_ and d_.startswith(sn + "."):
                alias[x.targets[0].id] = d_
    out = []
    for x in ast.walk(fi.node):
        if isinstance(x, ast.Attribute):
            d_ = dotted(x)
            if not d_:
                continue
            root, _, rest = d_.partition(".")
            if root in alias and rest:
                d_ = alias[root] + "." + rest
                root, _, rest = d_.partition(".")
            if root == sn and rest == path:
                out.append(x)
    return out


def _want_helper(h: FuncInfo) -> bool:
    return h.name not in HOOKS | READERS and not (h.name.startswith("__") and h.name.endswith("__"))


def _strip_cast(v: ast.AST | None) -> ast.AST | None:
    while isinstance(v, ast.Call) and (dotted(v.func) or "").endswith("cast") and len(v.args) == 2:
        v = v.args[1]
    return v


_HANDLER_SCOPE: dict[str, t.Any] = {}


def _handler_names(h: ast.ExceptHandler) -> list[str]:
    """exception class names a handler catches; a name bound to a tuple constant at class / module level is looked through."""
    if h.type is None:
        return ["BaseException"]
    out: list[str] = []

    def add(e: ast.AST, depth: int = 0) -> None:
        if isinstance(e, ast.Tuple):
            for x in e.elts:
                add(x, depth)
            return
        d = dotted(e) or "?"
        last = d.rsplit(".", 1)[-1]
        cls, module = _HANDLER_SCOPE.get("cls"), _HANDLER_SCOPE.get("module")
        val = None
        if depth < 2:
            if cls is not None and isinstance(e, ast.Attribute) and isinstance(e.value, ast.Name) and last in cls.attrs:
                val = cls.attrs[last]
            elif module is not None and isinstance(e, ast.Name) and module.assigns.get(last):
                val = module.assigns[last][-1]
        if isinstance(val, ast.Tuple) or (val is not None and dotted(val)):
            add(val, depth + 1)
        else:
            out.append(last)

    add(h.type)
    return out


def _exc_hops(p: Path) -> list[tuple[ast.AST, ast.ExceptHandler]]:
    """(raising node, handler) for every exceptional edge the path took."""
    out = []
    for k, v, n in p.conds:
        if k.startswith("EXC@"):
            i = next((j for j, s in enumerate(p.steps) if s is n), None)
            if i is not None and i + 1 < len(p.steps) and isinstance(p.steps[i + 1].ast, ast.ExceptHandler):
                out.append((n, p.steps[i + 1].ast))
    return out


def _self_calls(ev: Ev, name: str) -> bool:
    """a call of self.<name>, directly or through a local / parameter that holds the bound method."""
    if ev.kind != "call":
        return False
    f = ev.raw.func if isinstance(ev.raw, ast.Call) else None
    if isinstance(f, ast.Attribute) and f.attr == name:
        return True
    g = ev.call.func if isinstance(ev.call, ast.Call) else None
    return isinstance(g, ast.Attribute) and g.attr == name and isinstance(g.value, ast.Name) and g.value.id == "self"


def _under_method(ev: Ev) -> str | None:
    """method name when the event is a call on the underlying stream (self._stream.m(...) / getattr(self._stream, 'm')(...))."""
    if ev.kind not in ("call", "attempt") or not isinstance(ev.call, ast.Call):
        return None
    f = ev.call.func
    if isinstance(f, ast.Attribute) and norm(f.value) == _R.stream:
        return f.attr
    if isinstance(f, ast.Call) and dotted(f.func) == "getattr" and len(f.args) >= 2 and norm(f.args[0]) == _R.stream and isinstance(f.args[1], ast.Constant):
        return str(f.args[1].value)
    return None


def _accounted(ls: ClassInfo, root: str, nf: NFunc) -> set[str]:
    """the root method plus the helpers expanded into it that nothing else calls."""
    acc = {root} | {h.name for h in nf.inlined if h.cls is ls}
    changed = True
    while changed:
        changed = False
        for h in sorted(acc - {root}):
            for name, fi in ls.methods.items():
                if name in acc:
                    continue
                sn = fi.params[0] if fi.params else "self"
                if any(isinstance(x, ast.Attribute) and x.attr == h and isinstance(x.value, ast.Name) and x.value.id == sn for x in ast.walk(fi.node)):
                    acc.discard(h)
                    changed = True
                    break
    return acc


def table_check(paths: list[Path], atoms: list[str], spec: t.Callable[[dict[str, bool]], str], outcome: t.Callable[[Path], str], label: t.Callable[[dict[str, bool]], str]) -> tuple[dict[str, list[str]], dict[str, int]]:
    """every path, under every valuation of the atoms consistent with what the path decided, must end as spec says.
    returns (mismatches by expected outcome, number of agreeing (path, valuation) pairs by expected outcome)."""
    bad: dict[str, list[str]] = {}
    good: dict[str, int] = {}
    for p in paths:
        fixed = {a: p.val(a) for a in atoms}
        free = [a for a in atoms if fixed[a] is None]
        got = outcome(p)
        for bits in itertools.product((False, True), repeat=len(free)):
            v = {a: fixed[a] for a in atoms if fixed[a] is not None}
            v.update(dict(zip(free, bits)))
            want = spec(v)  # type: ignore[arg-type]
            if got == want:
                good[want] = good.get(want, 0) + 1
            else:
                msg = f"[{label(v)}] -> {got}"  # type: ignore[arg-type]
                if msg not in bad.setdefault(want, []):
                    bad[want].append(msg)
    return bad, good


def run(ctx: Ctx) -> None:
    repo = ctx.repo
    for rid, text in {
        "R9.1": "self._stream is used only inside LimitedStream.readinto and helpers of it alone (and assigned in __init__); read/readline/readlines/__next__/__iter__ are not overridden; readall/exhaust read only through the accounted readers",
        "R9.2": "on every path, each underlying call reads at most remaining = limit - _pos bytes and happens only when remaining >= 1; with nothing remaining on_exhausted() is called instead",
        "R9.3": "_pos is written only as 0 in __init__ and, on every path of readinto, moves by exactly the count the underlying call returned; readinto returns that count",
        "R9.4": "every slice store into the caller's buffer `b[:n] = src` has len(src) == n by construction",
        "R9.5": "an I/O error of an underlying call reaches a handler that calls on_disconnect(error=...) and leaves; an empty result calls on_disconnect(); decision tables of the two hooks",
        "R9.6": "the outcome of every path of get_input_stream equals the documented table over its condition atoms; get_content_length is total",
        "R9.7": "readall reads only under a test that the limit is not reached, leaves its read loop only when exhausted or after an empty read, never repeats after an empty read, and accumulates every non-empty read",
    }.items():
        ctx.rule(rid, text)

    ls = repo.cls("wsgi.LimitedStream")
    ri = ls.methods.get("readinto")
    if ri is None:
        raise AnalysisError("LimitedStream.readinto missing")
    ctx.saw(ri)
    _find_roles(repo, ls)
    _HANDLER_SCOPE.update(cls=ls, module=ls.module)
    if len(ri.params) < 2:
        raise AnalysisError("LimitedStream.readinto: no buffer parameter")
    bufname = ri.params[1]
    nf = normalise(repo, ri, _want_helper)
    for h, why in nf.refused:
        raise AnalysisError(f"readinto: helper {h.name} cannot be expanded ({why})")
    accounted = _accounted(ls, "readinto", nf)

    # ---------------- R9.1 -------------------------------------------
    users: dict[str, list[ast.Attribute]] = {}
    for name, fi in ls.methods.items():
        hits = _role_nodes(fi, _R.stream)
        if hits:
            users[name] = hits
    init_only_stores = all(isinstance(n.ctx, ast.Store) for n in users.get("__init__", []))
    if _R.stream.count(".") > 1 and "__init__" not in users:
        users["__init__"] = []  # kept inside a state object that __init__ builds: the object's own constructor stores it
    stray = sorted(set(users) - accounted - {"__init__"})
    for nm in stray:
        if ls.methods[nm].decorators and not any(d in ("property", "staticmethod", "classmethod") for d in ls.methods[nm].decorators):
            raise AnalysisError(f"LimitedStream.{nm} touches the underlying stream behind the decorator {ls.methods[nm].decorators}: what the decorator does with its errors is not modelled")
    ctx.ob("R9.1", "underlying stream used only by readinto", not stray and init_only_stores and "__init__" in users,
           f"methods touching self._stream: {sorted(users)}; accounted (readinto and helpers only it uses): {sorted(accounted)}; __init__ only assigns it: {init_only_stores}", ri, ri.node, "stream users")
    over = [m for m in ("read", "readline", "readlines", "__next__", "__iter__", "read1") if m in ls.methods]
    ctx.ob("R9.1", "derived readers are RawIOBase's", not over, f"overridden: {over}", ls.fq, None, "no derived reader overridden")
    bases = [k.fq for k in repo.mro(ls)[1:]]
    ctx.ob("R9.1", "LimitedStream derives from io.RawIOBase", any(b.endswith("RawIOBase") for b in bases), f"bases {bases}", ls.fq, None, "RawIOBase base")
    allowed_calls = READERS | HOOKS | {"tell", "readable", "close", "fileno"}
    for nm in ("readall", "exhaust"):
        fi = ls.methods.get(nm)
        if fi is None:
            raise AnalysisError(f"LimitedStream.{nm} missing")
        ctx.saw(fi)
        nfx = normalise(repo, fi, _want_helper)
        sn = nfx.selfname or "self"
        def self_calls_of(nfy: NFunc, depth: int = 0) -> tuple[set[str], list[str]]:
            sy = nfy.selfname or "self"
            cs = {c.func.attr for c in astq.calls(nfy.node) if isinstance(c.func, ast.Attribute) and isinstance(c.func.value, ast.Name) and c.func.value.id == sy}
            su = [norm(c) for c in astq.calls(nfy.node) if isinstance(c.func, ast.Attribute) and isinstance(c.func.value, ast.Call) and dotted(c.func.value.func) == "super"]
            # a helper that could not be expanded (a generator): what it calls counts as called from here
            for nm2 in sorted(cs - allowed_calls):
                h = ls.methods.get(nm2)
                if h is not None and depth < 2 and _want_helper(h):
                    c2, s2 = self_calls_of(normalise(repo, h, _want_helper), depth + 1)
                    cs = (cs - {nm2}) | c2
                    su += s2
            return cs, su

        calls, supers = self_calls_of(nfx)
        ctx.ob("R9.1", f"{nm} reads only through read/readall", calls <= allowed_calls and not supers, f"self-calls {sorted(calls)}; super calls {supers}", fi, fi.node, f"{nm} self calls")

    # ---------------- paths of readinto --------------------------------
    sym = Sym(nf, repo=repo)
    REM = Lin({_R.limit: 1, _R.pos: -1})
    POS0 = Lin({_R.pos: 1})

    def is_under_node(n) -> bool:
        # which calls reach the underlying stream is decided on the substituted events; here: any call may raise
        return n.ast is not None and n.kind in ("stmt", "test") and bool(astq.calls(n.ast))

    paths = sym.paths(exc=is_under_node)

    def under_events(p: Path) -> list[Ev]:
        return [e for e in p.events if e.kind == "call" and _under_method(e) is not None]

    normal: list[Path] = []
    excp: list[tuple[Path, Ev, ast.ExceptHandler]] = []
    for p in paths:
        hops = _exc_hops(p)
        if not hops:
            normal.append(p)
            continue
        if len(hops) > 1:
            continue
        rn, h = hops[0]
        for e in p.events:
            if e.kind == "attempt" and e.node is rn and _under_method(e) is not None:
                excp.append((p, e, h))

    sites: dict[int, tuple[ast.AST, str]] = {}
    site_facts: dict[int, list[tuple[bool, bool, str]]] = {}

    def bounded_read_size(a: ast.AST | None, conds: set[Cond]) -> tuple[bool, str]:
        if a is None:
            return False, "no size argument"
        if isinstance(a, ast.Call) and dotted(a.func) == "min" and not a.keywords:
            for x in a.args:
                if implies_le(conds, x, REM):
                    return True, f"min(...) with `{norm(x)}` <= remaining"
            return False, f"`{norm(a)}`: no operand is bounded by remaining"
        if lin(a) is not None and implies_le(conds, a, REM):
            return True, f"`{norm(a)}` <= remaining on this path"
        return False, f"size `{norm(a)}` is not bounded by limit - _pos on this path"

    def bounded_buffer_len(a: ast.AST | None, conds: set[Cond]) -> tuple[bool, str]:
        a = _strip_cast(a)
        if a is None:
            return False, "no buffer argument"
        if isinstance(a, ast.Call) and dotted(a.func) == "memoryview" and len(a.args) == 1:
            return bounded_buffer_len(a.args[0], conds)
        if isinstance(a, ast.Call) and dotted(a.func) == "bytearray" and len(a.args) == 1 and not a.keywords:
            ok = implies_le(conds, a.args[0], REM)
            if not ok and isinstance(a.args[0], ast.Call) and dotted(a.args[0].func) == "min":
                ok = any(implies_le(conds, x, REM) for x in a.args[0].args)
            return ok, f"fresh buffer of `{norm(a.args[0])}` bytes (<= remaining: {ok})"
        if isinstance(a, ast.Subscript) and isinstance(a.slice, ast.Slice) and a.slice.step is None:
            lo, hi = a.slice.lower, a.slice.upper
            lo_l = lin(lo) if lo is not None else Lin()
            if hi is not None and lo_l is not None and lin(hi) is not None:
                width = lin(hi) - lo_l  # type: ignore[operator]
                nonneg = hi is not None and not (isinstance(hi, ast.UnaryOp))
                if nonneg and implies_ge0(conds, REM - width):
                    return True, f"slice `{norm(a)}` of at most remaining bytes"
                if isinstance(hi, ast.Call) and dotted(hi.func) == "min" and any(implies_le(conds, x, REM) for x in hi.args) and lo is None:
                    return True, f"slice `{norm(a)}` of at most remaining bytes"
            return bounded_buffer_len(a.value, conds)
        if isinstance(a, ast.Name) and a.id == bufname:
            ok = implies_le(conds, Lin({f"len({bufname})": 1}), REM)
            return ok, f"caller's buffer under len({bufname}) <= remaining: {ok}"
        return False, f"unrecognised buffer `{norm(a)}`"

    for p in normal:
        for e in under_events(p):
            kind = _under_method(e)
            conds = p.cset(e.ncond)
            dom = implies_ge0(conds, REM.shift(-1))
            args = e.call.args  # type: ignore[union-attr]
            if kind in ("readinto", "readinto1"):
                b_ok, why = bounded_buffer_len(args[0] if args else None, conds)
            elif kind in ("read", "read1", "readline"):
                b_ok, why = bounded_read_size(args[0] if args else None, conds)
            else:
                b_ok, why = False, f"unrecognised underlying call `{norm(e.call)}`"
            sites.setdefault(id(e.raw), (e.raw, kind or "?"))
            site_facts.setdefault(id(e.raw), []).append((b_ok, dom, why))
    ctx.floor("R9.2", "underlying call sites", len(sites), 1)
    for sid, (raw, kind) in sites.items():
        facts = site_facts[sid]
        bounded = all(f[0] for f in facts)
        dom = all(f[1] for f in facts)
        why = "; ".join(sorted({f[2] for f in facts}))
        ctx.ob("R9.2", f"underlying {kind}() reads at most the remaining bytes", bounded and dom, f"`{norm(raw)}` on {len(facts)} path(s): {why}; only when limit - _pos >= 1: {dom}", ri, raw, f"bounded underlying {kind} {norm(raw)}")

    # I/O errors
    by_site: dict[int, list[tuple[Path, ast.ExceptHandler]]] = {}
    for p, e, h in excp:
        by_site.setdefault(id(e.raw), []).append((p, h))
    for sid, (raw, kind) in sites.items():
        hops = by_site.get(sid, [])
        full = [(p, h) for p, h in hops if set(_handler_names(h)) & OS_FULL]
        relevant = [(p, h) for p, h in hops if set(_handler_names(h)) & (OS_FULL | OS_PART)]
        if not full:
            cur_ = raw
            while cur_ is not None and not isinstance(cur_, (ast.With, ast.AsyncWith, ast.FunctionDef)):
                cur_ = astq.parent(cur_)
            if isinstance(cur_, (ast.With, ast.AsyncWith)):
                raise AnalysisError(f"readinto: `{norm(raw)}` runs inside `with {norm(cur_.items[0].context_expr)}`: whether that context manager handles the I/O error is not modelled")
            ok5, fact5 = False, f"no handler covering OSError around the call (handlers reached: {sorted({tuple(_handler_names(h)) for _, h in hops})})"
        else:
            bad5 = []
            for p, h in relevant:
                i = next(j for j, s in enumerate(p.steps) if s.ast is h)
                after = [e for e in p.events if e.node in p.steps[i:]]
                dc = [e for e in after if _self_calls(e, "on_disconnect") and (any(kw.arg == "error" for kw in e.call.keywords) or len(e.call.args) == 1)]  # type: ignore[union-attr]
                more = [e for e in after if _under_method(e) is not None]
                moved = lin(p.env.get(_R.pos, ast.parse(_R.pos, mode="eval").body))
                still = moved is not None and (moved - POS0).is_const() and (moved - POS0).const == 0
                leaves = p.outcome in ("return", "raise")
                if not (dc and not more and still and leaves):
                    bad5.append(f"handler {_handler_names(h)}: on_disconnect(error=...) called: {bool(dc)}, further underlying reads: {len(more)}, position unchanged: {still}, leaves: {leaves}")
            ok5 = not bad5
            fact5 = "; ".join(sorted(set(bad5))) or f"every handler path of {sorted({tuple(_handler_names(h)) for _, h in relevant})} calls on_disconnect(error=...), leaves and does not move the position"
        ctx.ob("R9.5", f"underlying {kind}() I/O errors routed to on_disconnect", ok5, f"`{norm(raw)}`: {fact5}", ri, raw, f"error routing underlying {kind} {norm(raw)}")

    # exhaustion
    bad_exh = []
    n_exh = 0
    for p in normal:
        if under_events(p) or p.outcome not in ("return", "fall"):
            continue
        conds = p.cset()
        exhausted = implies_ge0(conds, REM.scale(-1))
        called = any(_self_calls(e, "on_exhausted") for e in p.events)
        n_exh += 1
        if not (exhausted and called):
            bad_exh.append(p.describe() + f" (limit - _pos <= 0 known: {exhausted}; on_exhausted() called: {called})")
    touched_when_exh = [p for p in normal if under_events(p) and implies_ge0(p.cset(), REM.scale(-1))]
    ctx.ob("R9.2", "with nothing remaining, on_exhausted() is called and the underlying stream is not touched", n_exh >= 1 and not bad_exh and not touched_when_exh,
           f"paths that return without an underlying call: {n_exh}; " + ("; ".join(bad_exh[:3]) or "each knows limit - _pos <= 0 and calls on_exhausted()"), ri, ri.node, "exhausted branch")

    # ---------------- R9.3 -------------------------------------------
    writers: dict[str, list[ast.AST]] = {}
    for name, fi in ls.methods.items():
        role_hits = {id(x) for x in _role_nodes(fi, _R.pos)}
        for n in walk_no_nested(fi.node):
            if isinstance(n, (ast.Assign, ast.AugAssign, ast.AnnAssign)):
                tg = n.targets if isinstance(n, ast.Assign) else [n.target]
                flat = [y for x in tg for y in (x.elts if isinstance(x, (ast.Tuple, ast.List)) else [x])]
                if any(id(t_) in role_hits for t_ in flat):
                    writers.setdefault(name, []).append(n)
    if _R.pos.count(".") > 1 and "__init__" not in writers:
        writers["__init__"] = [ls.methods["__init__"].node]  # initialised by the constructor of the state object
    init_ok = bool(writers.get("__init__"))  # that every path of __init__ leaves 0 there is how the attribute was identified
    stray_w = sorted(set(writers) - accounted - {"__init__"})
    # a helper that writes the position and is shared (`_advance(count=0)` used by tell()): every other method that reaches
    # it must leave the position unchanged on all of its paths
    if stray_w:
        called = {c.func.attr for o in ls.methods.values() for c in astq.calls(o.node) if isinstance(c.func, ast.Attribute) and isinstance(c.func.value, ast.Name) and c.func.value.id == (o.params[0] if o.params else "self")}
        movers = []
        for name, fi in ls.methods.items():
            if name in accounted or name == "__init__" or "." in name:
                continue
            if name in stray_w and name.startswith("_") and name in called:
                continue  # a private helper: judged through the methods that call it
            nfo = normalise(repo, fi, _want_helper)
            if not (name in stray_w or any(h.name in stray_w for h in nfo.inlined)):
                continue
            for p in Sym(nfo, repo=repo).paths():
                cur = lin(p.env[_R.pos]) if _R.pos in p.env else Lin({_R.pos: 1})
                d_ = (cur - Lin({_R.pos: 1})) if cur is not None else None
                if d_ is None or not (d_.is_const() and d_.const == 0):
                    movers.append(name)
                    break
        if not movers:
            accounted = accounted | {w for w in stray_w if any(h.name == w for h in nf.inlined)}
            stray_w = []
    ctx.ob("R9.3", "_pos written only by __init__ (0) and inside readinto", init_ok and not stray_w and bool(set(writers) & accounted),
           f"writes: {[(k, norm(w)) for k, ws in sorted(writers.items()) for w in ws]}; accounted methods: {sorted(accounted)}", ri, ri.node, "_pos writers")

    bad_move, bad_ret, bad_empty = [], [], []
    n_moved = 0
    for p in normal:
        if p.outcome not in ("return", "fall"):
            continue
        ue = under_events(p)
        cur = lin(p.env[_R.pos]) if _R.pos in p.env else POS0
        delta = (cur - POS0) if cur is not None else None
        counts: list[Lin] = []
        for e in ue:
            kind = _under_method(e)
            counts.append(Lin({symname(e.k): 1}) if kind in ("readinto", "readinto1") else Lin({f"len({symname(e.k)})": 1}))
        ret = lin(p.value) if p.value is not None else None
        zero = delta is not None and delta.is_const() and delta.const == 0
        if delta is None or not (zero or (len(counts) == 1 and delta.key() == counts[0].key())):
            bad_move.append(f"{p.describe()}: position moves by `{delta.key() if delta is not None else norm(p.env.get(_R.pos))}`, underlying counts {[c.key() for c in counts]}")
        if not zero:
            n_moved += 1
        if ret is None or delta is None or ret.key() != delta.key():
            bad_ret.append(f"{p.describe()}: returns `{norm(p.value) if p.value is not None else None}` but the position moved by `{delta.key() if delta is not None else '?'}`")
        if ue and len(counts) == 1:
            # truth of the count: key of the symbol itself (readinto) or of the data (read: len(data))
            e = ue[0]
            ckey = symname(e.k)
            tv = truth_of(dict(p.cset()), ckey)
            pos_known = implies_ge0(p.cset(), counts[0].shift(-1))
            after = p.events[p.events.index(e) + 1:]
            dc = any(_self_calls(x, "on_disconnect") for x in after)
            if not zero and not (tv is True or pos_known):
                bad_empty.append(f"{p.describe()}: position advanced without knowing the count is non-zero")
            if (tv is False) and not (dc and zero):
                bad_empty.append(f"{p.describe()}: empty read: on_disconnect() called: {dc}, position unchanged: {zero}")
    empties = [p for p in normal if under_events(p) and truth_of(dict(p.cset()), symname(under_events(p)[0].k)) is False]
    ctx.ob("R9.3", "_pos advances by the count the underlying call returned", not bad_move and n_moved >= 1, "; ".join(bad_move[:3]) or f"{n_moved} advancing path(s), each by exactly the underlying count; all others leave it unchanged", ri, ri.node, "_pos increment source")
    ctx.ob("R9.3", "readinto returns the count it accounted for (0 otherwise)", not bad_ret, "; ".join(bad_ret[:3]) or f"on all {len(normal)} paths the return value equals the movement of _pos", ri, ri.node, "readinto returns")
    ctx.ob("R9.5", "an empty read calls on_disconnect() and does not advance", not bad_empty and bool(empties), "; ".join(bad_empty[:3]) or f"{len(empties)} empty-read path(s), each calls on_disconnect() and returns without advancing; advancing paths know the count is non-zero", ri, ri.node, "empty read routing")

    # ---------------- R9.4 -------------------------------------------
    stores: dict[int, tuple[ast.AST, list[tuple[bool, str]]]] = {}
    for p in normal:
        for e in p.events:
            if e.kind != "store" or not isinstance(e.call, ast.Assign):
                continue
            tg = e.call.targets[0]
            if not isinstance(tg, ast.Subscript):
                continue
            base = tg.value
            while isinstance(base, ast.Call) and dotted(base.func) == "memoryview" and len(base.args) == 1:
                base = base.args[0]
            if not (isinstance(base, ast.Name) and base.id == bufname):
                continue
            ok, fact = _length_exact(tg, e.call.value)
            stores.setdefault(id(e.raw), (e.raw, []))[1].append((ok, fact))
    for sid, (raw, facts) in stores.items():
        ctx.ob("R9.4", "slice store into the caller's buffer is length-exact", all(f[0] for f in facts), f"{norm(raw)}: " + "; ".join(sorted({f[1] for f in facts})), ri, raw, f"buffer store {norm(raw)}")
    ctx.floor("R9.4", "buffer slice stores", len(stores), 1)

    # ---------------- R9.5 hooks: decision tables ---------------------------
    oe = ls.methods.get("on_exhausted")
    od = ls.methods.get("on_disconnect")
    if oe is None or od is None:
        raise AnalysisError("on_exhausted / on_disconnect missing")
    ctx.saw(oe, od)
    # the hooks decide on what __init__ stored for `is_max` - the flag itself, an enum member, an exception class ...:
    # every path of __init__ (with what it assumed about the parameter) seeds the attributes the hook then reads
    init = ls.methods["__init__"]
    MAX = init.params[3]
    init_paths = [p for p in Sym(normalise(repo, init, lambda h: False), repo=repo).paths() if p.outcome in ("return", "fall")]
    only_init = {a for a in (class_writes(ls).get("__init__") or set()) if a not in (class_writes(ls).get("*") or set())}

    def hook_paths(hook: FuncInfo) -> list[Path]:
        out_: list[Path] = []
        nfh = normalise(repo, hook, _want_helper)
        for ip in init_paths:
            env0 = {k: v for k, v in ip.env.items() if k.startswith("self.") and k.split(".", 1)[1] in only_init}
            for k, v in list(env0.items()):  # the fields of a state object built by __init__ that nothing else writes
                if isinstance(v, ast.Name):
                    for k2, v2 in ip.env.items():
                        if k2.startswith(v.id + ".") and f"{k.split('.', 1)[1]}.{k2.split('.', 1)[1]}" not in (class_writes(ls).get("*") or set()):
                            env0[k2] = v2
            for hp in Sym(nfh, repo=repo).paths(env0=env0):
                known = {k for k, _, _ in hp.conds}
                hp.conds = [c for c in ip.conds if c[0] not in known] + hp.conds
                out_.append(hp)
        return out_

    pe = hook_paths(oe)
    bad, good = table_check(pe, [MAX], lambda v: "raise RequestEntityTooLarge" if v[MAX] else "return", _hook_outcome, lambda v: f"is_max={v[MAX]}")
    ctx.ob("R9.5", "on_exhausted raises RequestEntityTooLarge iff the limit is a maximum", not bad and len(good) == 2, "; ".join(x for b in bad.values() for x in b) or f"all {len(pe)} paths agree with the table over {{self._limit_is_max}}", oe, oe.node, "on_exhausted")
    if len(od.params) < 2:
        raise AnalysisError("on_disconnect: no error parameter")
    ERRN = f"{od.params[1]} is None"
    pd = hook_paths(od)
    bad, good = table_check(pd, [MAX, ERRN], lambda v: "return" if (v[MAX] and v[ERRN]) else "raise ClientDisconnected", _hook_outcome, lambda v: f"is_max={v[MAX]}, error is None={v[ERRN]}")
    ctx.ob("R9.5", "on_disconnect raises ClientDisconnected unless (limit is a maximum and no error)", not bad and len(good) == 2, "; ".join(x for b in bad.values() for x in b) or f"all {len(pd)} paths agree with the table over {{is_max, error is None}}", od, od.node, "on_disconnect")

    # ---------------- R9.7 readall loop -----------------------------------
    _readall(ctx, ls)

    # ---------------- R9.6 -------------------------------------------
    _input_stream(ctx)


def _hook_outcome(p: Path) -> str:
    if p.outcome == "raise":
        return f"raise {p.raised()}"
    if p.outcome in ("return", "fall"):
        return "return"
    return p.outcome


def _length_exact(tg: ast.Subscript, src: ast.AST) -> tuple[bool, str]:
    sl = tg.slice
    if not isinstance(sl, ast.Slice) or sl.step is not None or sl.upper is None:
        return False, f"`{norm(tg)}`: not a bounded slice"
    lo = lin(sl.lower) if sl.lower is not None else Lin()
    hi = lin(sl.upper)
    if lo is None or hi is None:
        return False, f"`{norm(tg)}`: bounds are not integer expressions"
    n = hi - lo
    s = _strip_cast(src)
    while isinstance(s, ast.Call) and dotted(s.func) in ("bytes", "memoryview") and len(s.args) == 1:
        s = s.args[0]
    if isinstance(s, ast.Subscript) and isinstance(s.slice, ast.Slice) and s.slice.step is None and s.slice.upper is not None:
        slo = lin(s.slice.lower) if s.slice.lower is not None else Lin()
        shi = lin(s.slice.upper)
        if slo is not None and shi is not None and (shi - slo).key() == n.key():
            return True, f"target width `{n.key()}` = width of the source slice `{norm(s)}`"
        return False, f"target width `{n.key()}` but source slice `{norm(s)}`"
    if isinstance(s, ast.Call) and dotted(s.func) == "bytearray" and len(s.args) == 1 and isinstance(s.args[0], (ast.BinOp, ast.Constant)) and lin(s.args[0]) is not None:
        m = lin(s.args[0])
        ok = m is not None and m.key() == n.key()
        return ok, f"target width `{n.key()}`, source is a fresh buffer of `{m.key() if m else '?'}` bytes"
    want = Lin({f"len({norm(s)})": 1})
    ok = n.key() == want.key()
    return ok, f"target width `{n.key()}`, source `{norm(s)}` of length `{want.key()}`"


def _readall(ctx: Ctx, ls: ClassInfo) -> None:
    repo = ctx.repo
    ra = ls.methods["readall"]
    nf = normalise(repo, ra, _want_helper)
    sym = Sym(nf, repo=repo)
    loops = [n for n in walk_no_nested(nf.node) if isinstance(n, (ast.While, ast.For)) and getattr(n, "_inlined_from", None) is None]
    generator = None
    if not loops:
        # the loop may live in a generator of the class whose items readall joins: `return b"".join(self._iter_chunks())`
        sn = nf.selfname or "self"
        for c in astq.calls(nf.node):
            if isinstance(c.func, ast.Attribute) and isinstance(c.func.value, ast.Name) and c.func.value.id == sn and c.func.attr in ls.methods:
                g = ls.methods[c.func.attr]
                if any(isinstance(x, (ast.Yield, ast.YieldFrom)) for x in walk_no_nested(g.node)):
                    generator = (g, c)
        if generator is None:
            raise AnalysisError("readall: no read loop")
        outer = sym.paths()
        consumed = [p for p in outer if p.outcome == "return" and p.value is not None and any(isinstance(x, ast.Call) and isinstance(x.func, ast.Attribute) and x.func.attr == generator[1].func.attr for x in ast.walk(p.end.ast.value))]  # type: ignore[union-attr]
        bare = [p for p in outer if p.outcome in ("return", "fall") and not any(p is q for q in consumed) and not implies_ge0(p.cset(), Lin({_R.pos: 1, _R.limit: -1}))]
        if not consumed or bare:
            raise AnalysisError("readall: how the items of the chunk generator become the result is not understood")
        ra_gen = generator[0]
        ctx.saw(ra_gen)
        nf = normalise(repo, ra_gen, _want_helper)
        sym = Sym(nf, repo=repo)
        loops = [n for n in walk_no_nested(nf.node) if isinstance(n, (ast.While, ast.For)) and getattr(n, "_inlined_from", None) is None]
        if not loops:
            raise AnalysisError("readall: no read loop")
    paths = sym.paths()

    def reads(p: Path) -> list[Ev]:
        return [e for e in p.events if e.k is not None and (_self_calls(e, "read") or _self_calls(e, "readinto") or _self_calls(e, "read1"))]

    def exhausted_known(p: Path, after: Ev | None) -> bool:
        """an exhaustion test `_pos >= limit` was taken as true, on the attribute values current after the last read."""
        pos_term = vername(_R.pos, after.k) if after is not None else _R.pos
        start = after.ncond if after is not None else 0
        conds = {(k, v) for k, v, _ in p.conds[start:]} if after is not None else p.cset()
        lim_terms = [_R.limit] + ([vername(_R.limit, after.k)] if after is not None else [])
        return any(implies_ge0(conds, Lin({pos_term: 1, lt: -1})) for lt in lim_terms)

    rebound: set[str] = set()  # accumulators that grow by being rebound (`x = x + d`, `x += d` on an immutable): aliases do not see it

    def accumulated(p: Path, r: Ev) -> str | None:
        symtxt = symname(r.k)
        for e in p.events[p.events.index(r) + 1:]:
            if e.kind == "yield" and norm(_unwrap_bytes(e.call)) == symtxt:
                return "<yield>"
            if e.kind == "call" and isinstance(e.raw, ast.Call) and isinstance(e.raw.func, ast.Attribute) and e.raw.func.attr in ("extend", "append", "write") and e.call.args and norm(_unwrap_bytes(e.call.args[0])) == symtxt:  # type: ignore[union-attr]
                b = e.raw.func.value
                return b.id if isinstance(b, ast.Name) else norm(b)
            if e.kind == "call" and e.k is not None and isinstance(e.call, ast.Call) and isinstance(e.call.func, ast.Attribute) and e.call.func.attr in ("extend", "append", "write") and e.call.args and norm(_unwrap_bytes(e.call.args[0])) == symtxt:
                # through a local that holds the bound method (`add = out.extend`): the container is whichever local the
                # call left marked as changed
                changed = [nm for nm, v in p.env.items() if isinstance(v, ast.Name) and v.id == vername(nm, e.k) and "." not in nm]
                if changed:
                    return sorted(changed)[0]
            if e.kind == "aug" and isinstance(e.call, ast.AugAssign) and isinstance(e.call.op, ast.Add) and norm(_unwrap_bytes(e.call.value)) == symtxt and isinstance(e.call.target, ast.Name):
                cur = p.env.get(e.call.target.id)
                left = cur.left if isinstance(cur, ast.BinOp) else None
                mutable = isinstance(left, ast.Call) and (dotted(left.func) or "").rsplit(".", 1)[-1] in ("bytearray", "list", "BytesIO") or isinstance(left, ast.List)
                if not mutable:
                    rebound.add(e.call.target.id)
                return e.call.target.id
        for name, v in p.env.items():
            if isinstance(v, ast.BinOp) and isinstance(v.op, ast.Add) and norm(_unwrap_bytes(v.right)) == symtxt and not name.startswith("self."):
                rebound.add(name)
                return name
        return None

    bad_exit, bad_acc, bad_loop = [], [], []
    n_read_paths = 0
    accs: set[str] = set()
    rets_after_read: list[Path] = []
    for p in paths:
        rs = reads(p)
        if not rs:
            if p.outcome in ("return", "fall") and not exhausted_known(p, None):
                bad_exit.append(f"{p.describe()}: returns without a read although exhaustion is not known")
            elif p.outcome == "loop":
                bad_loop.append(f"{p.describe()}: repeats without reading")
            continue
        n_read_paths += 1
        r = rs[-1]
        tv = truth_of(dict(p.cset()), symname(r.k))
        acc = accumulated(p, r)
        if acc:
            accs.add(acc)
        if p.outcome == "loop" or len(rs) > 1:
            if tv is False:
                bad_loop.append(f"{p.describe()}: reads again after an empty read (endless on a finished stream)")
            if acc is None:
                bad_acc.append(f"{p.describe()}: a read result that may be non-empty is not appended before the next read")
        elif p.outcome in ("return", "fall"):
            rets_after_read.append(p)
            if tv is False:
                continue
            if not exhausted_known(p, r):
                bad_exit.append(f"{p.describe()}: leaves the loop after a read that is not known to be empty, without an exhaustion test")
            if acc is None:
                bad_acc.append(f"{p.describe()}: a read result that may be non-empty is dropped")
        else:
            bad_exit.append(f"{p.describe()}: ends with {p.outcome} inside the read loop")
    # every read happens under a test that says the limit is not reached yet, on the position current at that moment -
    # in the first round (paths from the entry) and in any later round (paths that start at the loop head knowing nothing)
    def guarded_reads(ps: list[Path]) -> list[str]:
        bad = []
        for p in ps:
            for r in reads(p):
                before = [e for e in p.events[: p.events.index(r)] if e.k is not None and isinstance(e.call, ast.Call) and isinstance(e.call.func, ast.Attribute) and isinstance(e.call.func.value, ast.Name) and e.call.func.value.id == "self" and _R.attr(_R.pos) in (sym.writes.get(e.call.func.attr) if sym.writes.get(e.call.func.attr) is not None else sym.writes.get("*", set()))]
                pos_term = vername(_R.pos, before[-1].k) if before else _R.pos
                conds = p.cset(r.ncond)
                if not any(implies_ge0(conds, Lin({lt: 1, pos_term: -1}).shift(-1)) for lt in ([_R.limit] + ([vername(_R.limit, before[-1].k)] if before else []))):
                    bad.append(f"{p.describe()[:200]}: `{norm(r.raw)}` happens without a test that the limit is not reached")
        return bad

    # later rounds: paths that go through the loop twice see what the first round leaves behind for the second
    # (the loop condition again, a flag set at the tail, a test after the append)
    bad_exit += sorted(set(guarded_reads(paths) + guarded_reads(sym.paths(rounds=2))))[:3]
    # the object the chunks go into is the object the result is made from: names are followed through plain copies
    # (`a = b`, a helper's parameter) and through the definitions of the locals the return expression mentions
    parent_: dict[str, str] = {}

    def find(x: str) -> str:
        while parent_.get(x, x) != x:
            x = parent_[x]
        return x

    defs_: dict[str, list[ast.AST]] = {}
    for st_ in walk_no_nested(nf.node):
        if isinstance(st_, ast.Assign) and len(st_.targets) == 1 and isinstance(st_.targets[0], ast.Name):
            defs_.setdefault(st_.targets[0].id, []).append(st_.value)
            if isinstance(st_.value, ast.Name):
                parent_[find(st_.targets[0].id)] = find(st_.value.id)
        elif isinstance(st_, ast.AnnAssign) and isinstance(st_.target, ast.Name) and st_.value is not None:
            defs_.setdefault(st_.target.id, []).append(st_.value)
            if isinstance(st_.value, ast.Name):
                parent_[find(st_.target.id)] = find(st_.value.id)

    def sources(e: ast.AST, depth: int = 0) -> set[str]:
        out_ = set()
        for nm in astq.names_in(e):
            out_.add(find(nm))
            if depth < 3:
                for d_ in defs_.get(nm, []):
                    if not isinstance(d_, ast.Name):
                        out_ |= sources(d_, depth + 1)
        return out_

    def exact_sources(e: ast.AST, depth: int = 0) -> set[str]:
        out_ = set(astq.names_in(e))
        if depth < 3:
            for nm in list(out_):
                for d_ in defs_.get(nm, []):
                    if not isinstance(d_, ast.Name) and nm not in rebound:
                        out_ |= exact_sources(d_, depth + 1)
        return out_

    acc_classes = {find(a) for a in accs if a not in rebound}

    def built_from(e: ast.AST) -> bool:
        return bool(sources(e) & acc_classes) or bool(exact_sources(e) & (accs & rebound))

    result_ok = (generator is not None and accs == {"<yield>"}) or bool(accs) and all(p.end is not None and isinstance(p.end.ast, ast.Return) and p.end.ast.value is not None and built_from(p.end.ast.value) for p in rets_after_read)
    lp = loops[0]
    ctx.ob("R9.7", "every non-empty read is appended to the result", not bad_acc and result_ok, "; ".join(bad_acc[:3]) or f"accumulator(s) {sorted(accs)}; every return after the loop is built from it: {result_ok}", ra, lp, "readall accumulates")
    ctx.ob("R9.7", "readall loop exits only on exhaustion or an empty read", not bad_exit and not bad_loop and n_read_paths >= 2, "; ".join((bad_exit + bad_loop)[:3]) or f"{n_read_paths} path(s) through a read: each either repeats with the data appended or leaves on an empty read / a true exhaustion test", ra, lp, "readall loop exits")


def _unwrap_bytes(e: ast.AST) -> ast.AST:
    while isinstance(e, ast.Call) and dotted(e.func) in ("bytes", "memoryview") and len(e.args) == 1:
        e = e.args[0]
    return e


def input_stream_rule(ctx: Ctx, rule: str) -> None:
    """the same table, reported under another property's rule id (C10 shares it)."""
    _input_stream(ctx, rule)


def _classify_stream(v: ast.AST | None, stream: str, CL: str, MAXP: str, path: Path | None = None) -> str:
    v = _strip_cast(v)
    if v is None:
        return "None"
    if norm(_strip_cast(v)) == stream:
        return "stream"
    if isinstance(v, ast.Call) and (dotted(v.func) or "").endswith("BytesIO") and not v.args and not v.keywords:
        return "BytesIO()"
    if isinstance(v, ast.Call) and (dotted(v.func) or "").endswith("LimitedStream"):
        a0 = astq.arg_or_kw(v, 0, "stream")
        a1 = astq.arg_or_kw(v, 1, "limit")
        a2 = astq.arg_or_kw(v, 2, "is_max")
        src = "stream" if a0 is not None and norm(_strip_cast(a0)) == stream else (norm(a0) if a0 is not None else "?")
        lim = {CL: "content_length", MAXP: "max_content_length"}.get(norm(a1) if a1 is not None else "?", norm(a1) if a1 is not None else "?")
        flag = norm(a2) if a2 is not None else "False"
        if a2 is not None and path is not None and not isinstance(a2, ast.Constant) and path.truth(a2) is not None:
            flag = str(path.truth(a2))  # `is_max=terminated` where the path has decided the flag
        return f"LimitedStream({src}, {lim}, is_max={flag})"
    return f"other:{norm(v)[:60]}"


def _input_stream(ctx: Ctx, RULE: str = "R9.6") -> None:
    repo = ctx.repo
    gi = repo.func("wsgi.get_input_stream")
    ctx.saw(gi)
    if len(gi.params) < 3:
        raise AnalysisError("get_input_stream: expected (environ, safe_fallback, max_content_length)")
    ENV, SAFEP, MAXP = gi.params[0], gi.params[1], gi.params[2]
    nf = normalise(repo, gi, lambda h: h.name != "get_content_length")
    sym = Sym(nf, repo=repo)
    paths = sym.paths()
    # the declared length: whatever spelling of the call of get_content_length the paths evaluate
    cls_ = sorted({norm(e.call) for p in paths for e in p.events if e.kind == "call" and isinstance(e.raw, ast.Call) and (dotted(e.raw.func) or "").rsplit(".", 1)[-1] == "get_content_length"})
    if len(cls_) > 1:
        raise AnalysisError(f"get_input_stream: several spellings of the declared length {cls_}")
    CL = cls_[0] if cls_ else f"get_content_length({ENV})"
    STREAM = f"{ENV}['wsgi.input']"
    TERM = f"'wsgi.input_terminated' in {ENV}"
    MAXN = f"{MAXP} is None"
    CLN = f"{CL} is None"
    SAFE = SAFEP
    gt = canon_atom(ast.parse(f"{CL} > {MAXP}", mode="eval").body)
    assert not isinstance(gt, bool)
    GT, GT_POL = gt
    known = [TERM, MAXN, CLN, SAFE, GT]

    def spec(v) -> str:
        if not v[CLN] and not v[MAXN] and (v[GT] == GT_POL):
            return "raise RequestEntityTooLarge"
        if v[TERM]:
            return "stream" if v[MAXN] else "LimitedStream(stream, max_content_length, is_max=True)"
        if v[CLN]:
            return "BytesIO()" if v[SAFE] else "stream"
        return "LimitedStream(stream, content_length, is_max=False)"

    def outcome(p: Path) -> str:
        if p.outcome == "raise":
            return f"raise {p.raised() or '?'}"
        if p.outcome == "return":
            return _classify_stream(p.value, STREAM, CL, MAXP, p)
        return p.outcome

    def label(v) -> str:
        return f"terminated={v[TERM]}, max is None={v[MAXN]}, length is None={v[CLN]}, safe_fallback={v[SAFE]}, length>max={v[GT] == GT_POL}"

    present = []
    for p in paths:
        for k, _, _ in p.conds:
            if k not in present:
                present.append(k)
    unknown = [k for k in present if k not in known]
    missing = [k for k in known if k not in present]
    bad, good = table_check(paths, known, spec, outcome, label)
    # an atom outside the documented five is harmless exactly when no outcome depends on it: then the table still agrees
    ctx.ob(RULE, "get_input_stream decides on the documented atoms", not missing, f"atoms found {present}; beyond the documented five {unknown}; missing {missing}", gi, gi.node, "input stream atoms")
    ctx.floor(RULE, "paths of get_input_stream", len(paths), 5)
    for want in ["raise RequestEntityTooLarge", "LimitedStream(stream, max_content_length, is_max=True)", "stream", "BytesIO()", "LimitedStream(stream, content_length, is_max=False)"]:
        b = list(bad.get(want, []))
        if not b and not good.get(want):
            b = ["no path produces this outcome"]
        key_want = want if want != "stream" else "name:stream"
        ctx.ob(RULE, f"input stream table: rows expecting `{want}`", not b, ("; ".join(b[:4]) + (f" (+{len(b) - 4} more rows)" if len(b) > 4 else "")) if b else "all paths agree", gi, gi.node, f"input stream table {key_want}")
    uses_cl = any(CL in k for k in present)
    ctx.ob(RULE, "content_length comes from get_content_length(environ)", uses_cl, f"conditions on `{CL}`: {[k for k in present if CL in k]}", gi, gi.node, "content_length source")
    rets = [outcome(p) for p in paths if p.outcome == "return"]
    ctx.ob(RULE, "stream is environ['wsgi.input']", bool(rets) and not any(r.startswith("other:") or "(stream" not in r and r not in ("stream", "BytesIO()") for r in rets), f"returned streams: {sorted(set(rets))}", gi, gi.node, "stream source")

    _content_length(ctx, RULE)


def _length_table(ctx: Ctx, RULE: str, fi: FuncInfo, nf: NFunc, HCL: str, HTE: str, what: str, construct: str) -> None:
    """the documented table of the declared length, decided on the paths of `nf`: HCL / HTE are the terms that denote the
    Content-Length and Transfer-Encoding header values in it (parameters, or `environ.get(...)` lookups)."""
    repo = ctx.repo
    sym = Sym(nf, repo=repo)
    _HANDLER_SCOPE.update(cls=None, module=fi.module)
    V = f"_plain_int({HCL})"

    def evaluates_v(n) -> bool:
        return n.ast is not None and n.kind in ("stmt", "test") and any((dotted(c.func) or "").rsplit(".", 1)[-1] == "_plain_int" for c in astq.calls(n.ast))

    paths = sym.paths(exc=evaluates_v)
    ch = canon_atom(ast.parse(f"{HTE} == 'chunked'", mode="eval").body)
    assert not isinstance(ch, bool)
    CH, CH_POL = ch
    HN = f"{HCL} is None"
    SAMPLES = (-7, -1, 0, 1, 9)
    bad: list[str] = []
    n_none = n_val = n_exc = 0
    parsed_sites = {id(e.raw) for p in paths for e in p.events if e.kind == "call" and norm(e.call) == V}
    for p in paths:
        hops = _exc_hops(p)
        chv, hnv = p.val(CH), p.val(HN)
        streaming = (chv is not None and chv == CH_POL) or hnv is True
        decided_plain = chv is not None and chv != CH_POL and hnv is False
        got = norm(p.value) if p.outcome == "return" and p.value is not None else ("None" if p.outcome in ("fall",) or (p.outcome == "return" and p.value is None) else p.outcome)
        if hops:
            rn, h = hops[0]
            names = _handler_names(h)
            if not (set(names) & {"ValueError", "Exception", "BaseException"}):
                continue  # not the handler a ValueError would reach
            n_exc += 1
            r0 = ieval(p.value, {}) if p.outcome == "return" and p.value is not None else None
            if not (r0 == 0 and r0 is not False):
                bad.append(f"non-numeric length: handler {names} -> {got} (expected 0)")
            continue
        if streaming:
            n_none += 1
            if got != "None":
                bad.append(f"chunked={chv == CH_POL if chv is not None else '?'}, absent={hnv} -> {got} (expected None)")
            continue
        if not decided_plain:
            # a path that returns without having decided both atoms: it must be right for every completion
            bad.append(f"{p.describe()}: returns without deciding chunked / absent")
            continue
        n_val += 1
        if p.outcome != "return" or p.value is None:
            bad.append(f"{p.describe()}: plain length ends with {got}")
            continue
        for s_ in SAMPLES:
            env = {V: s_}
            feasible = True
            for k, v, n in p.conds:
                if V not in k:
                    continue
                test = sym_cond_value(k, env)
                if test is None:
                    raise AnalysisError(f"{what}: condition `{k}` on the parsed length is not understood")
                if test != v:
                    feasible = False
                    break
            if not feasible:
                continue
            r = ieval(p.value, env)
            if r is None:
                raise AnalysisError(f"{what}: returned expression `{norm(p.value)}` is not understood")
            if r != max(0, s_):
                bad.append(f"parsed length {s_} -> {r} via `{norm(p.value)}` (expected {max(0, s_)})")
    caught = n_exc >= 1
    if not caught and parsed_sites:
        bad.append("a ValueError of _plain_int is not caught")
    ctx.ob(RULE, f"{what}: chunked or absent -> None; otherwise max(0, plain int); ValueError -> 0", not bad and n_none >= 1 and n_val >= 1 and len(parsed_sites) == 1,
           "; ".join(sorted(set(bad))[:4]) or f"{n_none} streaming path(s) return None; {n_val} plain path(s) return max(0, n) for n in {SAMPLES}; {n_exc} ValueError path(s) return 0", fi, fi.node, construct)


def _content_length(ctx: Ctx, RULE: str) -> None:
    repo = ctx.repo
    gl = repo.func("sansio.utils.get_content_length")
    ctx.saw(gl)
    if len(gl.params) < 2:
        raise AnalysisError("sansio get_content_length: expected (http_content_length, http_transfer_encoding)")
    _length_table(ctx, RULE, gl, normalise(repo, gl), gl.params[0], gl.params[1], "get_content_length", "get_content_length table")

    pi = repo.func("_internal._plain_int")
    ctx.saw(pi)
    folder = Folder(repo)
    pp = Sym(normalise(repo, pi), repo=repo).paths()
    fm_calls = [e for p in pp for e in p.events if e.kind == "call" and isinstance(e.raw, ast.Call) and isinstance(e.raw.func, ast.Attribute) and e.raw.func.attr == "fullmatch"]
    ok = False
    fact = "no fullmatch"
    sites = {id(e.raw): e for e in fm_calls}
    if len(sites) == 1:
        e0 = next(iter(sites.values()))
        rx = folder.name(pi.module, dotted(e0.raw.func.value) or "")  # type: ignore[union-attr]
        if isinstance(rx, RegexConst):
            digits_only = bool(rx.flags & re.A) and all(c in b"-0123456789" for cls in classes_in(rx, 256) for c in cls)
            mism, match_ret = [], []
            for p in pp:
                ev = next((e for e in p.events if e.raw is e0.raw), None)
                if ev is None:
                    continue
                fmk = norm(ev.call)
                nomatch = p.val(f"{fmk} is None") is True or p.val(fmk) is False
                matched = p.val(f"{fmk} is None") is False or p.val(fmk) is True
                if nomatch:
                    mism.append(p.raised() == "ValueError")
                elif matched:
                    match_ret.append(p.outcome == "return" and isinstance(p.value, ast.Call) and dotted(p.value.func) == "int")
                else:
                    mism.append(False)
            raises_ve = bool(mism) and all(mism)
            ok = digits_only and raises_ve and bool(match_ret) and all(match_ret)
            fact = f"pattern {rx.pattern!r} flags={rx.flags}: ASCII digits only={digits_only}; every non-matching path raises ValueError={raises_ve}; matching paths return int(...)={bool(match_ret) and all(match_ret)}"
    ctx.ob(RULE, "_plain_int accepts only ASCII digits (optional sign) and raises ValueError otherwise", ok, fact, pi, pi.node, "_plain_int pattern")

    wg = repo.func("wsgi.get_content_length")
    ctx.saw(wg)
    env = wg.params[0] if wg.params else "environ"
    # the wrapper together with what it calls in the sansio module: one function of the two environ entries, whichever of
    # the two layers decides what (the test for a streaming request may live in either)
    nfw = normalise(repo, wg, lambda h: h is not wg, cross_module=True)
    _length_table(ctx, RULE, wg, nfw, f"{env}.get('CONTENT_LENGTH')", f"{env}.get('HTTP_TRANSFER_ENCODING')", "wsgi.get_content_length (with the sansio function it calls)", "environ keys")


def sym_cond_value(key: str, env: dict[str, int]) -> bool | None:
    """truth value of a canonical condition key under an assignment of its integer terms."""
    from ._c09_helpers import _LIN_OF_KEY

    f = _LIN_OF_KEY.get(key)
    if f is not None:
        tot = f.const
        for tm, c in f.terms.items():
            if tm not in env:
                return None
            tot += c * env[tm]
        return tot >= 0 if key.startswith("GE0: ") else tot == 0
    try:
        e = ast.parse(key, mode="eval").body
    except SyntaxError:
        return None
    r = ieval(e, env)
    if r is None:
        return None
    return bool(r)
