"""C09 - the request body stream never over-reads, truncates or hangs (structural clauses)."""

from __future__ import annotations

import ast

from .. import astq
from ..cfg import CFG, Node, cfg_of
from ..dataflow import ReachingDefs
from ..fold import Folder, RegexConst, classes_in, single_class
from ..loader import AnalysisError, FuncInfo, dotted, norm, walk_no_nested
from ..report import Ctx

LEVEL_TEXT = (
    "Static decision of structural clauses of C09 on /repo's current source: (R9.1) the underlying stream is touched only "
    "inside LimitedStream.readinto, and the class overrides none of RawIOBase's derived readers; (R9.2) every underlying "
    "read is bounded by limit - position and is dominated by the exhausted test; (R9.3) the position moves only by the "
    "count the underlying call returned, which is also what readinto returns; (R9.4) every slice store into the caller's "
    "buffer is length-exact; (R9.5) I/O errors, empty reads and exhaustion are routed to on_disconnect / on_exhausted, "
    "which raise ClientDisconnected / RequestEntityTooLarge under exactly the documented conditions; (R9.6) "
    "get_input_stream's returns, by dominating guards, are the documented table, the declared-length test dominates "
    "every return, and get_content_length is total (digits-only ASCII pattern, ValueError -> 0, chunked/absent -> None); "
    "(R9.7) readall leaves its loop only on exhaustion or an empty read. It decides these clauses on all paths; "
    "byte-exact prefix equality follows from them plus io.RawIOBase's contract and is not itself checked."
)
TRUSTED = ["CPython ast and re._parser", "io.RawIOBase routes read/readline/readlines/iteration through readinto/readall", "the underlying stream honours its own read(n)/readinto(b) contract"]
ASSUMPTIONS = ["positive-size or unbounded reads (as the property states)"]


def _guards(cfg: CFG, node: Node) -> set[str]:
    return {f"{norm(t.ast)}:{l}" for t, l in cfg.guards(node)}


def run(ctx: Ctx) -> None:
    repo = ctx.repo
    for rid, text in {
        "R9.1": "self._stream is used only inside LimitedStream.readinto (and assigned in __init__); read/readline/readlines/__next__/__iter__ are not overridden; readall/exhaust read only through self.read/self.readall",
        "R9.2": "each underlying call reads at most remaining = limit - _pos bytes and is dominated by the false edge of `remaining <= 0`",
        "R9.3": "_pos is written only as 0 in __init__ and by += <count returned by the underlying call>; readinto returns that count",
        "R9.4": "every slice store into the caller's buffer `b[:n] = src` has len(src) == n by construction",
        "R9.5": "each underlying call sits in a try whose handler covers OSError and calls on_disconnect(error=...); an empty result calls on_disconnect(); exhaustion calls on_exhausted(); the two hooks raise under the documented conditions",
        "R9.6": "get_input_stream returns only: LimitedStream(stream, max, is_max=True) under terminated & max; raw stream under terminated & no max, or no length & not safe_fallback; BytesIO() under no length & safe_fallback; LimitedStream(stream, content_length) otherwise; the > max_content_length test dominates every return; get_content_length is total",
        "R9.7": "readall leaves its read loop only when exhausted or after an empty read",
    }.items():
        ctx.rule(rid, text)

    ls = repo.cls("wsgi.LimitedStream")
    ri = ls.methods.get("readinto")
    if ri is None:
        raise AnalysisError("LimitedStream.readinto missing")
    ctx.saw(ri)
    cfg = cfg_of(ri)
    rd = ReachingDefs(cfg, ri.params)
    bufname = ri.params[1]

    # ---------------- R9.1 -------------------------------------------
    users = []
    for name, fi in ls.methods.items():
        if any(astq.is_self_attr(n, "_stream") for n in ast.walk(fi.node)):
            users.append(name)
    ctx.ob("R9.1", "underlying stream used only by readinto", sorted(users) == ["__init__", "readinto"], f"methods touching self._stream: {sorted(users)}", ri, ri.node, "stream users")
    for fi in repo.all_functions():
        if fi.cls is ls:
            continue
        for n in ast.walk(fi.node):
            if isinstance(n, ast.Attribute) and n.attr == "_stream" and isinstance(n.value, ast.Name) and fi.module.name == "werkzeug.wsgi" and fi.cls is not None and fi.cls.name == "LimitedStream":
                ctx.ob("R9.1", "no other user of the private stream", False, fi.fq, fi, n, f"{fi.fq} uses _stream")
    over = [m for m in ("read", "readline", "readlines", "__next__", "__iter__", "read1") if m in ls.methods]
    ctx.ob("R9.1", "derived readers are RawIOBase's", not over, f"overridden: {over}", ls.fq, None, "no derived reader overridden")
    bases = [k.fq for k in repo.mro(ls)[1:]]
    ctx.ob("R9.1", "LimitedStream derives from io.RawIOBase", any(b.endswith("RawIOBase") for b in bases), f"bases {bases}", ls.fq, None, "RawIOBase base")
    for nm in ("readall", "exhaust"):
        fi = ls.methods.get(nm)
        if fi is None:
            raise AnalysisError(f"LimitedStream.{nm} missing")
        ctx.saw(fi)
        calls = {c.func.attr for c in astq.calls(fi.node) if isinstance(c.func, ast.Attribute) and isinstance(c.func.value, ast.Name) and c.func.value.id == "self"}
        ctx.ob("R9.1", f"{nm} reads only through read/readall", calls <= {"read", "readall", "on_exhausted"}, f"self-calls {sorted(calls)}", fi, fi.node, f"{nm} self calls")

    # ---------------- slots in readinto --------------------------------
    rem_defs = [(s, v) for s, v in astq.assigns_to(ri.node, "remaining")]
    if len(rem_defs) != 1 or norm(rem_defs[0][1]) not in ("self.limit - self._pos",):
        raise AnalysisError("readinto: `remaining = self.limit - self._pos` not found (slot)")
    rem_node = cfg.node_of(rem_defs[0][0])
    exh_tests = [t for t in cfg.tests() if t.kind == "test" and norm(t.ast) in ("remaining <= 0", "remaining < 1", "0 >= remaining")]
    if len(exh_tests) != 1:
        raise AnalysisError("readinto: exhausted test `remaining <= 0` not found (slot)")
    exh = exh_tests[0]
    under = [c for c in astq.calls(ri.node) if isinstance(c.func, ast.Attribute) and astq.is_self_attr(c.func.value, "_stream")]
    ctx.floor("R9.2", "underlying call sites", len(under), 3)
    size_names = {n for n, in [(s,) for s in []]}
    size_vars = [nm for nm in ("size",) if any(norm(v) == f"len({bufname})" for _, v in astq.assigns_to(ri.node, nm) if v is not None)]

    # ---------------- R9.2 / R9.5 per underlying call -------------------
    for c in under:
        node = cfg.node_of(c)
        kind = c.func.attr  # type: ignore[attr-defined]
        g = _guards(cfg, node)
        dom = cfg.edge_dominates(exh, "F", node)
        bounded = False
        why = ""
        if kind == "readinto" and c.args:
            a = c.args[0]
            if astq.is_name(a, bufname):
                want = {f"{sv} <= remaining:T" for sv in size_vars} | {f"len({bufname}) <= remaining:T", "remaining >= size:T"}
                bounded = bool(g & want)
                why = f"buffer is the caller's; dominating guards {sorted(x for x in g if 'remaining' in x)}"
            elif isinstance(a, ast.Name):
                defs = rd.reaching(node, a.id)
                bounded = bool(defs) and all(d.value is not None and norm(d.value) == "bytearray(remaining)" for d in defs)
                why = f"buffer `{a.id}` defined as {[norm(d.value) for d in defs if d.value is not None]}"
        elif kind == "read" and c.args:
            a = c.args[0]
            bounded = isinstance(a, ast.Call) and dotted(a.func) == "min" and any(astq.is_name(x, "remaining") for x in a.args)
            why = f"size argument `{norm(a)}`"
        else:
            why = f"unrecognised underlying call `{norm(c)}`"
        ctx.ob("R9.2", f"`{norm(c)}` reads at most the remaining bytes", bounded and dom, why + f"; dominated by not-exhausted: {dom}", ri, c, f"bounded {norm(c)}")
        # R9.5: inside try with OSError handler -> on_disconnect(error=e); return
        tr = astq.enclosing(c, (ast.Try,))
        ok5 = False
        fact5 = "not inside a try"
        if isinstance(tr, ast.Try) and any(c is x for s in tr.body for x in ast.walk(s)):
            for h in tr.handlers:
                names = []
                if h.type is None:
                    names = ["BaseException"]
                elif isinstance(h.type, ast.Tuple):
                    names = [dotted(e) or "" for e in h.type.elts]
                else:
                    names = [dotted(h.type) or ""]
                covers = any(nm.rsplit(".", 1)[-1] in ("OSError", "Exception", "BaseException", "IOError", "EnvironmentError") for nm in names)
                calls_dc = any(isinstance(cc.func, ast.Attribute) and cc.func.attr == "on_disconnect" and any(kw.arg == "error" for kw in cc.keywords) for cc in astq.calls(h))
                ends = any(isinstance(s, (ast.Return, ast.Raise)) for s in h.body)
                if covers and calls_dc and ends:
                    ok5 = True
                fact5 = f"handler {names}: covers OSError={covers}, calls on_disconnect(error=)={calls_dc}, leaves={ends}"
        ctx.ob("R9.5", f"`{norm(c)}` I/O errors routed to on_disconnect", ok5, fact5, ri, c, f"error routing {norm(c)}")
    # remaining is computed before anything else that reads
    ctx.ob("R9.2", "exhausted branch calls on_exhausted and returns", _branch_calls(cfg, exh, "T", "on_exhausted") and not _reaches_underlying(cfg, exh, "T", under), "true edge of `remaining <= 0`", ri, exh.ast, "exhausted branch")

    # ---------------- R9.3 -------------------------------------------
    pos_writes = []
    for name, fi in ls.methods.items():
        for n in walk_no_nested(fi.node):
            if isinstance(n, (ast.Assign, ast.AugAssign, ast.AnnAssign)):
                tg = n.targets if isinstance(n, ast.Assign) else [n.target]
                if any(astq.is_self_attr(t_, "_pos") for t_ in tg):
                    pos_writes.append((name, fi, n))
    ok_init = [w for w in pos_writes if w[0] == "__init__" and isinstance(w[2], ast.Assign) and norm(w[2].value) == "0"]
    incs = [w for w in pos_writes if w[0] == "readinto" and isinstance(w[2], ast.AugAssign) and isinstance(w[2].op, ast.Add)]
    ctx.ob("R9.3", "_pos written only by __init__ (0) and one += in readinto", len(ok_init) == 1 and len(incs) == 1 and len(pos_writes) == 2, f"writes: {[(w[0], norm(w[2])) for w in pos_writes]}", ri, ri.node, "_pos writers")
    if incs:
        inc = incs[0][2]
        inc_node = cfg.node_of(inc)
        cnt = inc.value
        ok_cnt = False
        fact = norm(cnt)
        if isinstance(cnt, ast.Name):
            defs = rd.reaching(inc_node, cnt.id)
            good = []
            for d in defs:
                v = d.value
                if v is None:
                    good.append(False)
                    continue
                if isinstance(v, ast.Call) and isinstance(v.func, ast.Attribute) and astq.is_self_attr(v.func.value, "_stream") and v.func.attr == "readinto":
                    good.append(True)
                elif isinstance(v, ast.Call) and dotted(v.func) == "len" and isinstance(v.args[0], ast.Name):
                    ddefs = rd.reaching(d.node, v.args[0].id) if d.node is not None else set()
                    good.append(bool(ddefs) and all(dd.value is not None and isinstance(dd.value, ast.Call) and isinstance(dd.value.func, ast.Attribute) and astq.is_self_attr(dd.value.func.value, "_stream") and dd.value.func.attr == "read" for dd in ddefs))
                else:
                    good.append(False)
            ok_cnt = bool(good) and all(good)
            fact = f"`{cnt.id}` defined by {[norm(d.value) for d in defs if d.value is not None]}"
        ctx.ob("R9.3", "_pos advances by the count the underlying call returned", ok_cnt, fact, ri, inc, "_pos increment source")
        # value returned after the increment is the same count; every other return is 0
        rets = astq.returns_of(ri.node)
        after = [r for r in rets if cfg.node_of(r) is not None and inc_node is not None and cfg.node_dominates(inc_node, cfg.node_of(r))]
        others = [r for r in rets if r not in after]
        ok_ret = len(after) >= 1 and all(norm(r.value) == norm(cnt) for r in after) and all(norm(r.value) == "0" for r in others)
        ctx.ob("R9.3", "readinto returns the count it accounted for (0 otherwise)", ok_ret, f"after increment: {[norm(r.value) for r in after]}; other returns: {sorted({norm(r.value) for r in others})}", ri, ri.node, "readinto returns")
        # zero count never advances: `if not out_size: on_disconnect(); return 0` dominates the increment
        zero_tests = [t for t in cfg.tests() if t.kind == "test" and norm(t.ast) == norm(cnt)]
        zok = any(cfg.edge_dominates(t, "T", inc_node) and _branch_calls(cfg, t, "F", "on_disconnect") for t in zero_tests)
        ctx.ob("R9.5", "an empty read calls on_disconnect() and does not advance", zok, f"test on `{norm(cnt)}` before the increment", ri, inc, "empty read routing")

    # ---------------- R9.4 -------------------------------------------
    n94 = 0
    for st in walk_no_nested(ri.node):
        if isinstance(st, ast.Assign) and isinstance(st.targets[0], ast.Subscript) and astq.is_name(st.targets[0].value, bufname) and isinstance(st.targets[0].slice, ast.Slice):
            sl = st.targets[0].slice
            n94 += 1
            ok = False
            fact = norm(st)
            if sl.lower is None and sl.step is None and sl.upper is not None:
                nexpr = sl.upper
                src = st.value
                # src sliced to the same bound
                if isinstance(src, ast.Subscript) and isinstance(src.slice, ast.Slice) and src.slice.lower is None and src.slice.upper is not None and norm(src.slice.upper) == norm(nexpr):
                    ok = True
                    fact += " (source sliced to the same length)"
                elif isinstance(nexpr, ast.Name) and isinstance(src, ast.Name):
                    node = cfg.node_of(st)
                    defs = rd.reaching(node, nexpr.id)
                    ok = bool(defs) and all(d.value is not None and norm(d.value) == f"len({src.id})" for d in defs)
                    fact += f" ({nexpr.id} defined as {[norm(d.value) for d in defs if d.value is not None]})"
            ctx.ob("R9.4", f"`{norm(st)}` is length-exact", ok, fact, ri, st, norm(st))
    ctx.floor("R9.4", "buffer slice stores", n94, 2)

    # ---------------- R9.5 hooks ----------------------------------------
    oe = ls.methods.get("on_exhausted")
    od = ls.methods.get("on_disconnect")
    if oe is None or od is None:
        raise AnalysisError("on_exhausted / on_disconnect missing")
    ctx.saw(oe, od)
    ce = cfg_of(oe)
    raises = [n for n in ce.nodes if isinstance(n.ast, ast.Raise)]
    ok = len(raises) == 1 and astq.raised_name(raises[0].ast) == "RequestEntityTooLarge" and _guards(ce, raises[0]) == {"self._limit_is_max:T"}
    ctx.ob("R9.5", "on_exhausted raises RequestEntityTooLarge iff the limit is a maximum", ok, f"raise guards {[sorted(_guards(ce, r)) for r in raises]}", oe, oe.node, "on_exhausted")
    cd = cfg_of(od)
    raises = [n for n in cd.nodes if isinstance(n.ast, ast.Raise)]
    ok = len(raises) == 1 and astq.raised_name(raises[0].ast) == "ClientDisconnected"
    if ok:
        # no-raise path exactly: _limit_is_max true and error is None
        tests = {norm(t.ast) for t in cd.tests()}
        ok = tests == {"self._limit_is_max", "error is not None"}
        if ok:
            quiet = cd.reach(avoid_nodes=raises)
            # exit reachable without raise only via _limit_is_max:T and error is not None:F
            t1 = [t for t in cd.tests() if norm(t.ast) == "self._limit_is_max"][0]
            t2 = [t for t in cd.tests() if norm(t.ast) == "error is not None"][0]
            ok = cd.exit.id in quiet and cd.exit.id not in cd.reach(avoid_nodes=raises, avoid_edges=[(t1, "T")]) and cd.exit.id not in cd.reach(avoid_nodes=raises, avoid_edges=[(t2, "F")])
    ctx.ob("R9.5", "on_disconnect raises ClientDisconnected unless (limit is a maximum and no error)", ok, "", od, od.node, "on_disconnect")

    # ---------------- R9.7 readall loop -----------------------------------
    ra = ls.methods["readall"]
    cra = cfg_of(ra)
    loops = [n for n in walk_no_nested(ra.node) if isinstance(n, ast.While)]
    if len(loops) != 1:
        raise AnalysisError("readall: expected one while loop")
    lp = loops[0]
    cond_ok = norm(lp.test) in ("not self.is_exhausted",)
    breaks = [n for n in walk_no_nested(lp) if isinstance(n, ast.Break)]
    reads = [s for s in walk_no_nested(lp) if isinstance(s, ast.Assign) and isinstance(s.value, ast.Call) and isinstance(s.value.func, ast.Attribute) and s.value.func.attr == "read" and astq.is_name(s.value.func.value, "self")]
    bad_exit = []
    if len(reads) == 1 and isinstance(reads[0].targets[0], ast.Name):
        dname = reads[0].targets[0].id
        for b in breaks:
            bn = cra.node_of(b)
            dtests = [t for t in cra.tests() if t.kind == "test" and norm(t.ast) == dname]
            if not any(cra.edge_dominates(t, "F", bn) and len(_loop_guards(cra, bn, lp)) == 1 for t in dtests):
                bad_exit.append(b)
        rets_in = [n for n in walk_no_nested(lp) if isinstance(n, (ast.Return, ast.Raise))]
        ok = cond_ok and not bad_exit and not rets_in
        fact = f"loop while `{norm(lp.test)}`; {len(breaks)} break(s), all under `not {dname}` only: {not bad_exit}; returns/raises inside loop: {len(rets_in)}"
    else:
        ok = False
        fact = "no single `data = self.read(n)` in the loop"
    ctx.ob("R9.7", "readall loop exits only on exhaustion or an empty read", ok, fact, ra, lp, "readall loop exits")
    ext = [c for c in astq.method_calls(lp, "extend")]
    ctx.ob("R9.7", "every non-empty read is appended to the result", len(ext) == 1 and len(reads) == 1 and norm(ext[0].args[0]) == norm(reads[0].targets[0]), "out.extend(data)", ra, lp, "readall accumulates")

    # ---------------- R9.6 -------------------------------------------
    _input_stream(ctx)


def input_stream_rule(ctx: Ctx, rule: str) -> None:
    """the same table, reported under another property's rule id (C10 shares it)."""
    _input_stream(ctx, rule)


def _loop_guards(cfg: CFG, node: Node, loop: ast.AST) -> set[str]:
    """guards of node that are tests located inside the loop body (not the loop condition)."""
    out = set()
    inner = {id(x) for s in loop.body for x in ast.walk(s)}  # type: ignore[attr-defined]
    for t, l in cfg.guards(node):
        if id(t.ast) in inner:
            out.add(f"{norm(t.ast)}:{l}")
    return out


def _branch_calls(cfg: CFG, test: Node, label: str, method: str) -> bool:
    """the first statements on the `label` side of test call self.<method>() before anything else leaves."""
    for s in cfg.succ(test, label):
        cur = s
        seen = set()
        while cur is not None and cur.id not in seen:
            seen.add(cur.id)
            if cur.ast is not None and any(isinstance(c.func, ast.Attribute) and c.func.attr == method for c in astq.calls(cur.ast)):
                return True
            nxt = [x for x, l in cur.succs if l in (None,)]
            cur = nxt[0] if len(nxt) == 1 else None
    return False


def _reaches_underlying(cfg: CFG, test: Node, label: str, under: list[ast.Call]) -> bool:
    starts = cfg.succ(test, label)
    r: set[int] = set()
    for s in starts:
        r |= cfg.reach(s)
    return any((cfg.node_of(c).id in r) for c in under if cfg.node_of(c) is not None)


def _input_stream(ctx: Ctx, RULE: str = "R9.6") -> None:
    repo = ctx.repo
    gi = repo.func("wsgi.get_input_stream")
    ctx.saw(gi)
    cfg = cfg_of(gi)
    rets = astq.returns_of(gi.node)
    rows = []
    for r in rets:
        node = cfg.node_of(r)
        g = _guards(cfg, node)
        v = r.value
        while isinstance(v, ast.Call) and (dotted(v.func) or "").endswith("cast") and len(v.args) == 2:
            v = v.args[1]
        if isinstance(v, ast.IfExp):
            rows.append((r, v.body, g | {f"{norm(v.test)}:T"}))
            rows.append((r, v.orelse, g | {f"{norm(v.test)}:F"}))
        else:
            rows.append((r, v, g))
    ctx.floor(RULE, "return rows", len(rows), 4)
    TERM = "'wsgi.input_terminated' in environ"
    for r, v, g in rows:
        vs = norm(v)
        term = f"{TERM}:T" in g
        noterm = f"{TERM}:F" in g
        has_max = "max_content_length is not None:T" in g
        no_max = "max_content_length is not None:F" in g
        no_len = "content_length is None:T" in g
        has_len = "content_length is None:F" in g
        if isinstance(v, ast.Call) and (dotted(v.func) or "").endswith("LimitedStream"):
            lim = norm(v.args[1]) if len(v.args) > 1 else norm(astq.kwarg(v, "limit") or ast.Constant(None))
            ismax = astq.arg_or_kw(v, 2, "is_max")
            ismax_v = norm(ismax) if ismax is not None else "False"
            src = norm(v.args[0]) if v.args else "?"
            if ismax_v == "True":
                ok = term and has_max and lim == "max_content_length" and src == "stream"
                exp = "is_max=True only under terminated & max, with limit max_content_length"
            else:
                ok = ismax_v == "False" and noterm and has_len and lim == "content_length" and src == "stream"
                exp = "plain LimitedStream only on a non-terminated input with a length, with limit content_length"
        elif vs == "stream":
            ok = (term and no_max) or (noterm and no_len and "safe_fallback:F" in g)
            exp = "raw stream only under terminated & no max, or no length & not safe_fallback"
        elif isinstance(v, ast.Call) and (dotted(v.func) or "").endswith("BytesIO") and not v.args:
            ok = noterm and no_len and "safe_fallback:T" in g
            exp = "empty stream under no usable length & safe_fallback"
        else:
            ok = False
            exp = "unexpected return value"
        ctx.ob(RULE, f"return `{vs}`", ok, f"{exp}; dominating guards {sorted(g)}", gi, r, f"return {vs} under {sorted(g)}")
    # the declared-length test: raise RequestEntityTooLarge under content_length > max; every return avoids its true edge
    raises = [n for n in cfg.nodes if isinstance(n.ast, ast.Raise) and astq.raised_name(n.ast) == "RequestEntityTooLarge"]
    ok = False
    fact = "no raise RequestEntityTooLarge"
    if len(raises) == 1:
        g = _guards(cfg, raises[0])
        need = {"content_length is not None:T", "max_content_length is not None:T"}
        cmp_ok = bool(g & {"content_length > max_content_length:T", "max_content_length < content_length:T"})
        tests = [t for t in cfg.tests() if norm(t.ast) in ("content_length > max_content_length", "max_content_length < content_length")]
        # the comparison is evaluated on every path to a return whenever both are not None: returns are not reachable avoiding the test when both conjuncts hold
        both = [t for t, l in cfg.guards(raises[0]) if l == "T" and norm(t.ast) in ("content_length is not None", "max_content_length is not None")]
        dominated = len(tests) == 1 and len(both) == 2 and all(
            cfg.node_of(r).id not in cfg.reach(avoid_nodes=tests, avoid_edges=[(b, "F") for b in both]) for r in rets
        )
        ok = need <= g and cmp_ok and dominated and g == need | (g & {"content_length > max_content_length:T", "max_content_length < content_length:T"})
        fact = f"raise guards {sorted(g)}; comparison precedes every return when both values are present: {dominated}"
    ctx.ob(RULE, "declared length above the maximum is refused before any stream is returned", ok, fact, gi, raises[0].ast if raises else gi.node, "declared length test")
    # slots: stream / content_length definitions
    d1 = [norm(v) for _, v in astq.assigns_to(gi.node, "content_length") if v is not None]
    ctx.ob(RULE, "content_length comes from get_content_length(environ)", d1 == ["get_content_length(environ)"], f"{d1}", gi, gi.node, "content_length source")
    d2 = [norm(v) for _, v in astq.assigns_to(gi.node, "stream") if v is not None]
    ctx.ob(RULE, "stream is environ['wsgi.input']", len(d2) == 1 and "environ['wsgi.input']" in d2[0], f"{d2}", gi, gi.node, "stream source")

    # get_content_length (sansio) is total
    gl = repo.func("sansio.utils.get_content_length")
    ctx.saw(gl)
    c2 = cfg_of(gl)
    rr = astq.returns_of(gl.node)
    table = {}
    for r in rr:
        table[norm(r.value)] = _guards(c2, c2.node_of(r))
    none_ok = "None" in table and any("== 'chunked'" in x or "is None" in x for x in table["None"] | {norm(t.ast) for t in c2.tests()})
    maxes = [k for k in table if k.startswith("max(0, _plain_int(")]
    tr = [n for n in ast.walk(gl.node) if isinstance(n, ast.Try)]
    h_ok = bool(tr) and any((dotted(h.type) or "") == "ValueError" and any(isinstance(s, ast.Return) and norm(s.value) == "0" for s in h.body) for h in tr[0].handlers)
    first_if = [n for n in gl.node.body if isinstance(n, ast.If)]
    cond = norm(first_if[0].test) if first_if else ""
    cond_ok = "http_transfer_encoding == 'chunked'" in cond and "http_content_length is None" in cond and " or " in cond
    ctx.ob(RULE, "get_content_length: chunked or absent -> None; max(0, plain int); ValueError -> 0", none_ok and len(maxes) == 1 and h_ok and cond_ok, f"returns {sorted(table)}; first test `{cond}`", gl, gl.node, "get_content_length table")
    pi = repo.func("_internal._plain_int")
    ctx.saw(pi)
    folder = Folder(repo)
    fm = [c for c in astq.method_calls(pi.node, "fullmatch")]
    ok = False
    fact = "no fullmatch"
    if len(fm) == 1:
        rx = folder.name(pi.module, dotted(fm[0].func.value) or "")  # type: ignore[attr-defined]
        if isinstance(rx, RegexConst):
            import re

            cre = rx.parsed()
            items = list(cre)
            digits_only = bool(rx.flags & re.A) and all(c in b"-0123456789" for cls in classes_in(rx, 256) for c in cls)
            raises_ve = any(astq.raised_name(r) == "ValueError" for r in astq.raises_of(pi.node))
            ok = digits_only and raises_ve
            fact = f"pattern {rx.pattern!r} flags={rx.flags}: ASCII digits only={digits_only}; raises ValueError on mismatch={raises_ve}"
    ctx.ob(RULE, "_plain_int accepts only ASCII digits (optional sign) and raises ValueError otherwise", ok, fact, pi, pi.node, "_plain_int pattern")
    # wsgi.get_content_length forwards the two environ variables
    wg = repo.func("wsgi.get_content_length")
    ctx.saw(wg)
    s = norm(wg.node)
    ctx.ob(RULE, "wsgi.get_content_length reads CONTENT_LENGTH and HTTP_TRANSFER_ENCODING", "environ.get('CONTENT_LENGTH')" in s and "environ.get('HTTP_TRANSFER_ENCODING')" in s, "", wg, wg.node, "environ keys")
