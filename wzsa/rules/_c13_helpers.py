"""Abstract interpreter used by the C13 rules.

The rules of C13 are statements about *values*: "the string returned by
dump_cookie is the pair followed by the attributes joined with '; '", "the value
stored by the parser is the unescaped text between the quotes".  Deciding them on
the shape of the statements (which local is called ``buf``, whether the loop uses
``continue`` or ``elif``, whether a helper was extracted) makes the rules trip on
every harmless refactoring.  This module therefore evaluates the function bodies
*abstractly*:

* parameters are symbols (:class:`Sym`) carrying a type tag, or one of a finite
  set of constants the rule enumerates (``None`` / ``False`` / ``True`` / ...);
* every operation whose operands are known constants is folded (constant
  propagation); every other operation builds a symbolic term, so the result of a
  run is a term such as ``f"{$key...}={$value}; Path={quote($path, safe=...)}"``;
* a branch on a symbolic condition is decided by the rule's oracle (the case
  under analysis, e.g. "the fast path matches") or else *both* edges are explored
  (decision replay), so a result holds for every path;
* calls to private helpers of the same module, nested functions and lambdas are
  followed; everything else (``quote``, ``http_date``, regex methods, ...) stays an
  opaque term - the ``re`` engine is never run on anything but constants folded
  from the source, and werkzeug is never imported or executed.

Anything outside the modelled subset raises :class:`Unsupported` (an
``AnalysisError``: exit 2, never a finding).
"""

from __future__ import annotations

import ast
import typing as t

from ..fold import Folder, RegexConst, Unfoldable
from ..loader import AnalysisError, FuncInfo, Module, Repo


class Unsupported(AnalysisError):
    pass


class _NeedDecision(Exception):
    pass


class PyRaise(Exception):
    """the interpreted code raises"""

    def __init__(self, name: str, value: t.Any = None, node: ast.AST | None = None):
        super().__init__(name)
        self.name = name
        self.value = value
        self.node = node

    @property
    def mro(self) -> list[str]:
        import builtins

        c = getattr(builtins, self.name, None)
        if isinstance(c, type) and issubclass(c, BaseException):
            return [k.__name__ for k in c.__mro__]
        return [self.name, "Exception", "BaseException"]


class _Return(Exception):
    def __init__(self, value: t.Any):
        self.value = value


class _Break(Exception):
    pass


class _OpaqueComp(Exception):
    """a comprehension over a symbolic iterable: the whole comprehension stays a symbol"""

    def __init__(self, src: t.Any):
        self.src = src


class _Continue(Exception):
    pass


# ---------------------------------------------------------------------
# values


def show(v: t.Any) -> str:
    if isinstance(v, Sym):
        return repr(v)
    if isinstance(v, RegexConst):
        return f"re({v.pattern!r})"
    if isinstance(v, (Ref, Closure, FakeMatch)):
        return repr(v)
    if isinstance(v, list):
        return "[" + ", ".join(show(x) for x in v) + "]"
    if isinstance(v, tuple):
        return "(" + ", ".join(show(x) for x in v) + ("," if len(v) == 1 else "") + ")"
    if isinstance(v, (set, frozenset)):
        return "{" + ", ".join(sorted(show(x) for x in v)) + "}"
    if isinstance(v, dict):
        return "{" + ", ".join(f"{show(k)}: {show(x)}" for k, x in v.items()) + "}"
    return repr(v)


class Sym:
    """symbolic term.  op / args:
    param (name,) | call (callee, args, kwargs) | method (recv, name, args, kwargs) | attr (recv, name) |
    item (recv, index) | cmp (op, left, right) | not (x,) | binop (op, left, right) | cat (parts...) |
    format (x, conv, spec) | isinstance (x, names) | slice (lo, hi, step)"""

    __slots__ = ("op", "args", "typ", "node", "_r")

    def __init__(self, op: str, args: tuple, typ: str = "any", node: ast.AST | None = None):
        self.op = op
        self.args = args
        self.typ = typ
        self.node = node
        self._r: str | None = None

    def __repr__(self) -> str:
        if self._r is None:
            self._r = self._show()
        return self._r

    def _show(self) -> str:
        o, a = self.op, self.args
        if o == "param":
            return f"${a[0]}"
        if o == "call":
            return f"{show(a[0])}({_show_args(a[1], a[2])})"
        if o == "method":
            return f"{show(a[0])}.{a[1]}({_show_args(a[2], a[3])})"
        if o == "attr":
            return f"{show(a[0])}.{a[1]}"
        if o == "item":
            return f"{show(a[0])}[{show(a[1])}]"
        if o == "cmp":
            return f"({show(a[1])} {a[0]} {show(a[2])})"
        if o == "binop":
            return f"({show(a[1])} {a[0]} {show(a[2])})"
        if o == "not":
            return f"not {show(a[0])}"
        if o == "cat":
            return "f'" + "".join(p if isinstance(p, str) else "{" + show(p) + "}" for p in a) + "'"
        if o == "format":
            return f"format({show(a[0])}, {a[1]!r}, {show(a[2])})"
        if o == "isinstance":
            return f"isinstance({show(a[0])}, {a[1]})"
        if o == "slice":
            return f"{'' if a[0] is None else show(a[0])}:{'' if a[1] is None else show(a[1])}" + ("" if a[2] is None else f":{show(a[2])}")
        return f"{o}({', '.join(show(x) for x in a)})"

    def __eq__(self, other: object) -> bool:
        return isinstance(other, Sym) and repr(self) == repr(other)

    def __ne__(self, other: object) -> bool:
        return not self.__eq__(other)

    def __hash__(self) -> int:
        return hash(repr(self))


def _show_args(args: tuple, kwargs: tuple) -> str:
    return ", ".join([show(x) for x in args] + [f"{k}={show(v)}" for k, v in kwargs])


class Ref:
    """a named thing that is not interpreted: external callable / class / module, or a public werkzeug function"""

    def __init__(self, fq: str, fi: FuncInfo | None = None):
        self.fq = fq
        self.fi = fi

    def __repr__(self) -> str:
        return self.fq

    def __eq__(self, other: object) -> bool:
        return isinstance(other, Ref) and other.fq == self.fq

    def __hash__(self) -> int:
        return hash(self.fq)


class Frame:
    def __init__(self, module: Module, parent: "Frame | None" = None, limports: dict[str, str] | None = None, fi: FuncInfo | None = None):
        self.vars: dict[str, t.Any] = {}
        self.module = module
        self.parent = parent
        self.limports = limports or {}
        self.fi = fi

    def lookup(self, name: str) -> tuple[bool, t.Any]:
        f: Frame | None = self
        while f is not None:
            if name in f.vars:
                return True, f.vars[name]
            f = f.parent
        return False, None

    def is_local(self, name: str) -> bool:
        return self.lookup(name)[0]


class Closure:
    def __init__(self, node: ast.AST, frame: Frame | None, module: Module, fi: FuncInfo | None = None):
        self.node = node  # FunctionDef | Lambda
        self.frame = frame
        self.module = module
        self.fi = fi

    @property
    def name(self) -> str:
        return getattr(self.node, "name", "<lambda>")

    def __repr__(self) -> str:
        return f"<fn {self.fi.fq if self.fi else self.name}>"


class FakeMatch:
    """a regex match whose groups are known constants"""

    def __init__(self, groups: tuple, whole: t.Any = None, names: dict[str, int] | None = None):
        self.groups = tuple(groups)
        self.whole = whole
        self.names = names or {}

    def __repr__(self) -> str:
        return f"<match {self.whole!r} {self.groups!r}>"

    def group(self, *idx: int) -> t.Any:
        if not idx:
            idx = (0,)
        out = []
        for i in idx:
            if isinstance(i, str) and i in self.names:
                i = self.names[i]
            if not isinstance(i, int) or isinstance(i, bool):
                raise PyRaise("IndexError")
            if i == 0:
                if self.whole is None:
                    raise Unsupported("group(0) of a synthetic match")
                out.append(self.whole)
            else:
                if i > len(self.groups):
                    raise PyRaise("IndexError")
                out.append(self.groups[i - 1])
        return out[0] if len(out) == 1 else tuple(out)


class GenList(list):
    """materialised generator / iterator (``next`` consumes from the front)"""


def has_sym(v: t.Any, depth: int = 0) -> bool:
    if isinstance(v, Sym):
        return True
    if depth > 6:
        return False
    if isinstance(v, (list, tuple, set, frozenset)):
        return any(has_sym(x, depth + 1) for x in v)
    if isinstance(v, dict):
        return any(has_sym(k, depth + 1) or has_sym(x, depth + 1) for k, x in v.items())
    return False


def opaque(v: t.Any) -> bool:
    """a value python operators must not be applied to"""
    return isinstance(v, (Sym, Ref, Closure, RegexConst, FakeMatch))


def has_opaque(v: t.Any, depth: int = 0) -> bool:
    if opaque(v):
        return True
    if depth > 6:
        return False
    if isinstance(v, (list, tuple, set, frozenset)):
        return any(has_opaque(x, depth + 1) for x in v)
    if isinstance(v, dict):
        return any(has_opaque(k, depth + 1) or has_opaque(x, depth + 1) for k, x in v.items())
    return False


def walk_terms(v: t.Any) -> t.Iterator["Sym"]:
    """every Sym nested in a value"""
    stack = [v]
    while stack:
        x = stack.pop()
        if isinstance(x, Sym):
            yield x
            stack.extend(x.args)
        elif isinstance(x, (list, tuple, set, frozenset)):
            stack.extend(x)
        elif isinstance(x, dict):
            stack.extend(x.keys())
            stack.extend(x.values())


def params_in(v: t.Any) -> set[str]:
    return {s.args[0] for s in walk_terms(v) if s.op == "param"}


def mkcat(parts: t.Iterable[t.Any]) -> t.Any:
    out: list[t.Any] = []
    for p in parts:
        if isinstance(p, Sym) and p.op == "cat":
            items: t.Iterable[t.Any] = p.args
        else:
            items = [p]
        for q in items:
            if isinstance(q, str):
                if not q:
                    continue
                if out and isinstance(out[-1], str):
                    out[-1] += q
                else:
                    out.append(q)
            else:
                out.append(q)
    if not out:
        return ""
    if len(out) == 1 and (isinstance(out[0], str) or (isinstance(out[0], Sym) and out[0].typ == "str")):
        return out[0]
    return Sym("cat", tuple(out), "str")


def cat_parts(v: t.Any) -> list[t.Any]:
    """a str-valued term as a list of literal pieces and symbolic pieces"""
    if isinstance(v, str):
        return [v] if v else []
    if isinstance(v, Sym) and v.op == "cat":
        return list(v.args)
    return [v]


STR_TYPES = ("str",)
_NOT_SINGLETON_TYPES = {"str", "bytes", "int", "float", "timedelta", "datetime", "list", "tuple", "dict", "tuple:str", "list:str", "iter", "match"}
_PYTYPES: dict[str, type] = {"str": str, "bytes": bytes, "int": int, "bool": bool, "dict": dict, "list": list, "tuple": tuple, "float": float, "set": set, "frozenset": frozenset}

_STR_TO_STR = {"strip", "lstrip", "rstrip", "lower", "upper", "title", "replace", "casefold", "capitalize", "format", "join", "removeprefix", "removesuffix", "zfill", "swapcase", "expandtabs", "translate", "center", "ljust", "rjust"}
_TO_BOOL = {"startswith", "endswith", "isdigit", "isascii", "isalpha", "isalnum", "isspace", "islower", "isupper", "isidentifier", "isdecimal", "isnumeric", "istitle", "isprintable"}
_TO_INT = {"find", "rfind", "index", "rindex", "count"}

_SAFE_METHODS: dict[type, set[str]] = {
    str: _STR_TO_STR | _TO_BOOL | _TO_INT | {"encode", "split", "rsplit", "partition", "rpartition", "splitlines"},
    bytes: {"decode", "join", "lower", "upper", "strip", "lstrip", "rstrip", "split", "rsplit", "partition", "rpartition", "replace", "hex", "startswith", "endswith", "isdigit", "find", "rfind", "index", "count", "title"},
    int: {"to_bytes", "bit_length"},
    float: {"is_integer"},
    list: {"append", "extend", "insert", "pop", "copy", "index", "count", "clear", "remove", "reverse", "sort"},
    dict: {"get", "keys", "values", "items", "setdefault", "pop", "update", "copy", "clear"},
    tuple: {"index", "count"},
    set: {"add", "discard", "remove", "union", "difference", "intersection", "copy", "update", "issubset", "issuperset"},
    frozenset: {"union", "difference", "intersection", "issubset", "issuperset"},
}

_BUILTINS: dict[str, t.Any] = {
    "len": len, "int": int, "str": str, "bytes": bytes, "bool": bool, "list": list, "tuple": tuple, "dict": dict, "set": set, "frozenset": frozenset,
    "sorted": sorted, "min": min, "max": max, "any": any, "all": all, "chr": chr, "ord": ord, "repr": repr, "range": range, "zip": zip,
    "enumerate": enumerate, "reversed": reversed, "abs": abs, "sum": sum, "float": float, "isinstance": isinstance, "next": next, "iter": iter, "format": format,
    "divmod": divmod, "round": round, "hex": hex, "oct": oct, "bin": bin, "map": map, "filter": filter,
}
_BUILTIN_RET = {"len": "int", "int": "int", "str": "str", "bytes": "bytes", "bool": "bool", "repr": "str", "chr": "str", "ord": "int", "float": "float", "abs": "int", "format": "str", "hex": "str", "oct": "str"}

_EXT_RET = {
    "urllib.parse.quote": "str", "urllib.parse.unquote": "str", "urllib.parse.quote_plus": "str", "re.sub": None, "re.escape": None,
}
_PY_ERRORS = (KeyError, IndexError, AttributeError, TypeError, ValueError, StopIteration, ZeroDivisionError, OverflowError, LookupError)


class Builtin:
    def __init__(self, name: str):
        self.name = name

    def __repr__(self) -> str:
        return self.name

    def __eq__(self, other: object) -> bool:
        return isinstance(other, Builtin) and other.name == self.name

    def __hash__(self) -> int:
        return hash(("builtin", self.name))


class Outcome(t.NamedTuple):
    kind: str  # 'return' | 'raise'
    value: t.Any  # returned value / raised value
    exc: str | None  # exception class name for 'raise'
    decisions: list  # [(Sym, bool, node)]
    effects: list  # [Sym] every opaque call evaluated, in order
    node: ast.AST | None
    forks: list = []  # the decisions that were not answered by the oracle (both edges were explored)


def class_name(v: t.Any) -> str | None:
    if isinstance(v, Builtin):
        return v.name
    if isinstance(v, Ref):
        return v.fq.rsplit(".", 1)[-1]
    return None


# ---------------------------------------------------------------------
# the interpreter


class Interp:
    def __init__(
        self,
        repo: Repo,
        folder: Folder,
        oracle: t.Callable[[Sym], bool | None] | None = None,
        iter_hook: t.Callable[[Sym], list | None] | None = None,
        script: t.Sequence[bool] = (),
        on_enter: t.Callable[[FuncInfo], None] | None = None,
        max_steps: int = 40000,
        atoms: t.Iterable[str] = (),
    ):
        self.repo = repo
        self.folder = folder
        self.oracle = oracle
        self.iter_hook = iter_hook
        self.script = list(script)
        self.pos = 0
        self.on_enter = on_enter
        self.decisions: list[tuple[Sym, bool, ast.AST | None]] = []
        self.effects: list[Sym] = []
        self.forks: list[tuple[Sym, bool, ast.AST | None]] = []
        self._memo: dict[str, bool] = {}
        self.steps = 0
        self.max_steps = max_steps
        self.depth = 0
        self.atoms: set[str] = set(atoms)
        self._modules: list[Module] = []

    # -- decisions -------------------------------------------------------
    def truth(self, v: t.Any, node: ast.AST | None = None) -> bool:
        if isinstance(v, Sym):
            if v.op == "not":
                return not self.truth(v.args[0], node)
            if v.op == "cat" and any(isinstance(p, str) and p for p in v.args):
                return True
            k = repr(v)
            if k in self._memo:
                return self._memo[k]
            ans = self.oracle(v) if self.oracle is not None else None
            if ans is None:
                i = self.pos
                self.pos += 1
                if i >= len(self.script):
                    raise _NeedDecision()
                ans = self.script[i]
                self.forks.append((v, ans, node))
            self._memo[k] = ans
            self.decisions.append((v, ans, node))
            return ans
        if isinstance(v, (Ref, Closure, RegexConst, FakeMatch, Builtin)):
            return True
        return bool(v)

    def _tick(self) -> None:
        self.steps += 1
        if self.steps > self.max_steps:
            raise Unsupported("abstract interpretation did not terminate")

    # -- names ------------------------------------------------------------
    def from_fq(self, fq: str) -> t.Any:
        if fq.startswith("builtins."):
            nm = fq[len("builtins."):]
            if nm in _BUILTINS:
                return Builtin(nm)
            if nm in ("True", "False", "None"):
                return {"True": True, "False": False, "None": None}[nm]
            return Ref(fq)
        if fq.startswith("werkzeug"):
            fq = self.repo.canonical(fq)
            fi = self.repo.try_func(fq)
            if fi is not None:
                return Closure(fi.node, None, fi.module, fi)
            mn, _, nm = fq.rpartition(".")
            m = self.repo.modules.get(mn)
            if m is not None and nm in m.assigns and nm not in m.classes and nm not in m.functions:
                try:
                    return self.folder.name(m, nm)
                except (Unfoldable, AnalysisError):
                    return Ref(fq)
                except Exception:
                    return Ref(fq)
        return Ref(fq)

    def global_name(self, frame: Frame, name: str) -> t.Any:
        f: Frame | None = frame
        limports: dict[str, str] = {}
        while f is not None:
            for k, v in f.limports.items():
                limports.setdefault(k, v)
            f = f.parent
        fq = self.repo.resolve(frame.module, name, limports)
        if fq is None:
            raise Unsupported(f"cannot resolve {name}")
        return self.from_fq(fq)

    # -- expressions ------------------------------------------------------
    def ev(self, n: ast.AST, fr: Frame) -> t.Any:
        self._tick()
        m = getattr(self, "_e_" + type(n).__name__, None)
        if m is None:
            raise Unsupported(f"expression {type(n).__name__}: {ast.unparse(n)[:60]}")
        return m(n, fr)

    def _e_Constant(self, n: ast.Constant, fr: Frame) -> t.Any:
        return n.value

    def _e_Name(self, n: ast.Name, fr: Frame) -> t.Any:
        ok, v = fr.lookup(n.id)
        if ok:
            if v is _UNBOUND:
                raise PyRaise("UnboundLocalError", node=n)
            return v
        return self.global_name(fr, n.id)

    def _e_Attribute(self, n: ast.Attribute, fr: Frame) -> t.Any:
        v = self.ev(n.value, fr)
        return self.getattr(v, n.attr, n)

    def getattr(self, v: t.Any, attr: str, node: ast.AST | None) -> t.Any:
        if isinstance(v, Ref):
            return self.from_fq(f"{v.fq}.{attr}")
        if isinstance(v, Sym):
            return Sym("attr", (v, attr), "any", node)
        if isinstance(v, RegexConst) and attr in ("pattern", "flags"):
            return getattr(v, attr)
        raise Unsupported(f"attribute .{attr} of {show(v)[:40]}")

    def _seq(self, elts: list[ast.expr], fr: Frame) -> list:
        out: list[t.Any] = []
        for e in elts:
            if isinstance(e, ast.Starred):
                out.extend(self.iterate(self.ev(e.value, fr), e))
            else:
                out.append(self.ev(e, fr))
        return out

    def _e_Tuple(self, n: ast.Tuple, fr: Frame) -> t.Any:
        return tuple(self._seq(n.elts, fr))

    def _e_List(self, n: ast.List, fr: Frame) -> t.Any:
        return self._seq(n.elts, fr)

    def _e_Set(self, n: ast.Set, fr: Frame) -> t.Any:
        return set(self._seq(n.elts, fr))

    def _e_Dict(self, n: ast.Dict, fr: Frame) -> t.Any:
        d: dict[t.Any, t.Any] = {}
        for k, v in zip(n.keys, n.values):
            if k is None:
                x = self.ev(v, fr)
                if not isinstance(x, dict):
                    raise Unsupported("** of a non-constant mapping")
                d.update(x)
            else:
                d[self.ev(k, fr)] = self.ev(v, fr)
        return d

    def _e_JoinedStr(self, n: ast.JoinedStr, fr: Frame) -> t.Any:
        parts: list[t.Any] = []
        for v in n.values:
            if isinstance(v, ast.Constant):
                parts.append(str(v.value))
            elif isinstance(v, ast.FormattedValue):
                val = self.ev(v.value, fr)
                spec = self.ev(v.format_spec, fr) if v.format_spec is not None else ""
                parts.append(self.fmt(val, v.conversion, spec, v))
        return mkcat(parts)

    def fmt(self, val: t.Any, conv: int = -1, spec: t.Any = "", node: ast.AST | None = None) -> t.Any:
        if not has_opaque(val) and not has_opaque(spec):
            x = val
            if conv == 114:
                x = repr(x)
            elif conv == 115:
                x = str(x)
            elif conv == 97:
                x = ascii(x)
            try:
                return format(x, spec)
            except _PY_ERRORS as e:
                raise PyRaise(type(e).__name__, node=node)
        if isinstance(val, Sym) and val.typ == "str" and conv in (-1, 115) and spec == "":
            return val
        return Sym("format", (val, conv, spec), "str", node)

    def _e_FormattedValue(self, n: ast.FormattedValue, fr: Frame) -> t.Any:
        return self.fmt(self.ev(n.value, fr), n.conversion, self.ev(n.format_spec, fr) if n.format_spec is not None else "", n)

    def _e_BoolOp(self, n: ast.BoolOp, fr: Frame) -> t.Any:
        v: t.Any = None
        for i, e in enumerate(n.values):
            v = self.ev(e, fr)
            if i == len(n.values) - 1:
                return v
            tv = self.truth(v, e)
            if isinstance(n.op, ast.And) and not tv:
                return v
            if isinstance(n.op, ast.Or) and tv:
                return v
        return v

    def _e_UnaryOp(self, n: ast.UnaryOp, fr: Frame) -> t.Any:
        v = self.ev(n.operand, fr)
        if isinstance(n.op, ast.Not):
            return self.negate(v, n)
        if opaque(v):
            return Sym("call", (Builtin(type(n.op).__name__), (v,), ()), getattr(v, "typ", "any"), n)
        try:
            if isinstance(n.op, ast.USub):
                return -v
            if isinstance(n.op, ast.UAdd):
                return +v
            if isinstance(n.op, ast.Invert):
                return ~v
        except _PY_ERRORS as e:
            raise PyRaise(type(e).__name__, node=n)
        raise Unsupported("unary operator")

    def negate(self, v: t.Any, node: ast.AST | None = None) -> t.Any:
        if isinstance(v, Sym):
            if v.op == "not":
                return _Bool(v.args[0], node)
            return Sym("not", (v,), "bool", node)
        return not self.truth(v, node)

    def _e_IfExp(self, n: ast.IfExp, fr: Frame) -> t.Any:
        return self.ev(n.body if self.truth(self.ev(n.test, fr), n.test) else n.orelse, fr)

    def _e_NamedExpr(self, n: ast.NamedExpr, fr: Frame) -> t.Any:
        v = self.ev(n.value, fr)
        self.assign(n.target, v, fr)
        return v

    def _e_Lambda(self, n: ast.Lambda, fr: Frame) -> t.Any:
        return Closure(n, fr, fr.module, None)

    def _e_Compare(self, n: ast.Compare, fr: Frame) -> t.Any:
        left = self.ev(n.left, fr)
        res: t.Any = True
        for i, (op, c) in enumerate(zip(n.ops, n.comparators)):
            right = self.ev(c, fr)
            res = self.compare(op, left, right, n)
            if i < len(n.ops) - 1 and not self.truth(res, n):
                return res
            left = right
        return res

    def compare(self, op: ast.cmpop, a: t.Any, b: t.Any, node: ast.AST | None = None) -> t.Any:
        name = type(op).__name__
        if isinstance(op, (ast.Is, ast.IsNot)):
            r = self._is(a, b, node)
            return self.negate(r, node) if isinstance(op, ast.IsNot) else r
        if isinstance(op, (ast.NotIn, ast.NotEq)):
            pos = ast.In() if isinstance(op, ast.NotIn) else ast.Eq()
            return self.negate(self.compare(pos, a, b, node), node)
        if isinstance(op, ast.Eq):
            # a constant compared with a typed symbol of another kind is decidable
            for x, y in ((a, b), (b, a)):
                if isinstance(y, Sym) and not opaque(x):
                    if x is None and y.typ in _NOT_SINGLETON_TYPES:
                        return False
                    if y.typ in ("str", "bytes") and not isinstance(x, (str, bytes)):
                        return False
                    if y.typ in ("int", "float", "bool") and isinstance(x, (str, bytes)):
                        return False
        if isinstance(op, ast.In) and isinstance(b, (tuple, list, set, frozenset)) and isinstance(a, Sym) and not has_opaque(b):
            # membership in a constant collection: decided when every element comparison is
            res = [self.compare(ast.Eq(), a, x, node) for x in b]
            if all(r is False for r in res):
                return False
            if any(r is True for r in res):
                return True
        if has_opaque(a) or has_opaque(b):
            if isinstance(op, ast.Eq) and isinstance(a, Sym) and isinstance(b, Sym) and a == b and a.typ in ("str", "int", "bytes"):
                return True
            return Sym("cmp", (_OPS.get(name, name), a, b), "bool", node)
        try:
            if isinstance(op, ast.Eq):
                return a == b
            if isinstance(op, ast.Lt):
                return a < b
            if isinstance(op, ast.LtE):
                return a <= b
            if isinstance(op, ast.Gt):
                return a > b
            if isinstance(op, ast.GtE):
                return a >= b
            if isinstance(op, ast.In):
                return a in b
        except _PY_ERRORS as e:
            raise PyRaise(type(e).__name__, node=node)
        raise Unsupported(f"comparison {name}")

    def _is(self, a: t.Any, b: t.Any, node: ast.AST | None) -> t.Any:
        def single(x: t.Any) -> bool:
            return x is None or x is True or x is False

        if single(a) or single(b):
            if not opaque(a) and not opaque(b):
                return a is b
            s, c = (a, b) if opaque(a) else (b, a)
            if not single(c):
                raise Unsupported("identity test between two non-constants")
            if not isinstance(s, Sym):
                return False  # a function / class / regex / match object is not None / True / False
            if s.typ == "optmatch" and c is None:
                return Sym("not", (s,), "bool", node)
            if s.typ in _NOT_SINGLETON_TYPES:
                return False
            if s.typ == "bool" and c is None:
                return False
            return Sym("cmp", ("is", s, c), "bool", node)
        if isinstance(a, Sym) and isinstance(b, Sym) and a == b:
            return True
        raise Unsupported("identity test between two non-singletons")

    def _e_BinOp(self, n: ast.BinOp, fr: Frame) -> t.Any:
        return self.binop(n.op, self.ev(n.left, fr), self.ev(n.right, fr), n)

    def binop(self, op: ast.operator, a: t.Any, b: t.Any, node: ast.AST | None = None) -> t.Any:
        name = type(op).__name__
        if isinstance(op, ast.Add):
            if _is_strish(a) and _is_strish(b):
                return mkcat([a, b])
            if isinstance(a, list) and isinstance(b, list):
                return a + b
            if isinstance(a, tuple) and isinstance(b, tuple):
                return a + b
        if isinstance(op, ast.Mod) and isinstance(a, str) and has_sym(b):
            return self.percent(a, b, node)
        if has_opaque(a) or has_opaque(b):
            ta, tb = _typ(a), _typ(b)
            typ = ta if ta == tb and ta in ("int", "str", "bytes", "float") else "any"
            if isinstance(op, ast.Add) and "str" in (ta, tb) and "any" in (ta, tb):
                typ = "str"
            return Sym("binop", (_OPS.get(name, name), a, b), typ, node)
        try:
            return Folder._binop(op, a, b) if not isinstance(op, (ast.Div, ast.Pow)) else (a / b if isinstance(op, ast.Div) else a**b)
        except Unfoldable:
            raise Unsupported(f"operator {name}")
        except _PY_ERRORS as e:
            raise PyRaise(type(e).__name__, node=node)

    def percent(self, fmt_: str, arg: t.Any, node: ast.AST | None) -> t.Any:
        args = list(arg) if isinstance(arg, tuple) else [arg]
        parts: list[t.Any] = []
        i = 0
        lit = ""
        k = 0
        while i < len(fmt_):
            ch = fmt_[i]
            if ch == "%" and i + 1 < len(fmt_):
                c2 = fmt_[i + 1]
                if c2 == "%":
                    lit += "%"
                    i += 2
                    continue
                if c2 in "sd" and k < len(args):
                    parts.append(lit)
                    lit = ""
                    parts.append(self.fmt(args[k], -1, "", node))
                    k += 1
                    i += 2
                    continue
                return Sym("binop", ("%", fmt_, arg), "str", node)
            lit += ch
            i += 1
        parts.append(lit)
        if k != len(args):
            raise PyRaise("TypeError", node=node)
        return mkcat(parts)

    def str_format(self, fmt_: str, args: list, kwargs: dict, node: ast.AST | None) -> t.Any:
        import string

        parts: list[t.Any] = []
        auto = 0
        try:
            for lit, field, spec, conv in string.Formatter().parse(fmt_):
                parts.append(lit)
                if field is None:
                    continue
                if spec or (conv and conv != "s"):
                    return Sym("method", (fmt_, "format", tuple(args), tuple(kwargs.items())), "str", node)
                if field == "":
                    v = args[auto]
                    auto += 1
                elif field.isdigit():
                    v = args[int(field)]
                elif field.isidentifier():
                    v = kwargs[field]
                else:
                    return Sym("method", (fmt_, "format", tuple(args), tuple(kwargs.items())), "str", node)
                parts.append(self.fmt(v, -1, "", node))
        except (IndexError, KeyError, ValueError) as e:
            raise PyRaise(type(e).__name__, node=node)
        return mkcat(parts)

    def _e_Subscript(self, n: ast.Subscript, fr: Frame) -> t.Any:
        v = self.ev(n.value, fr)
        idx = self._index(n.slice, fr)
        return self.getitem(v, idx, n)

    def _index(self, s: ast.AST, fr: Frame) -> t.Any:
        if isinstance(s, ast.Slice):
            lo = self.ev(s.lower, fr) if s.lower is not None else None
            hi = self.ev(s.upper, fr) if s.upper is not None else None
            st = self.ev(s.step, fr) if s.step is not None else None
            if has_opaque(lo) or has_opaque(hi) or has_opaque(st):
                return Sym("slice", (lo, hi, st), "slice", s)
            return slice(lo, hi, st)
        return self.ev(s, fr)

    def getitem(self, v: t.Any, idx: t.Any, node: ast.AST | None) -> t.Any:
        if isinstance(v, FakeMatch):
            if has_opaque(idx):
                raise Unsupported("symbolic group index")
            return v.group(idx)
        if isinstance(v, Sym) or (has_opaque(idx) and not isinstance(v, dict)):
            ity = "any"
            vt = _typ(v)
            if vt in ("str", "tuple:str", "list:str"):
                ity = "str"
            elif vt == "bytes":
                ity = "bytes" if isinstance(idx, slice) or (isinstance(idx, Sym) and idx.op == "slice") else "int"
            if isinstance(idx, slice):
                idx = Sym("slice", (idx.start, idx.stop, idx.step), "slice", node)
            return Sym("item", (v, idx), ity, node)
        if opaque(v):
            raise Unsupported(f"subscript of {show(v)[:40]}")
        try:
            return v[idx]
        except _PY_ERRORS as e:
            raise PyRaise(type(e).__name__, node=node)

    # comprehensions
    def _comp(self, n: t.Any, fr: Frame, emit: t.Callable[[Frame], None]) -> None:
        inner = Frame(fr.module, fr, None, fr.fi)

        def rec(i: int) -> None:
            if i == len(n.generators):
                emit(inner)
                return
            g = n.generators[i]
            src = self.ev(g.iter, inner)
            if i == 0 and isinstance(src, Sym) and (self.iter_hook is None or self.iter_hook(src) is None):
                raise _OpaqueComp(src)
            for item in self.iterate(src, g.iter):
                self._tick()
                self.assign(g.target, item, inner)
                if all(self.truth(self.ev(c, inner), c) for c in g.ifs):
                    rec(i + 1)

        rec(0)

    def _e_ListComp(self, n: ast.ListComp, fr: Frame) -> t.Any:
        out: list[t.Any] = []
        try:
            self._comp(n, fr, lambda f: out.append(self.ev(n.elt, f)))
        except _OpaqueComp as e:
            return Sym("comp", (e.src, ast.unparse(n)), "iter", n)
        return out

    def _e_GeneratorExp(self, n: ast.GeneratorExp, fr: Frame) -> t.Any:
        out = GenList()
        try:
            self._comp(n, fr, lambda f: out.append(self.ev(n.elt, f)))
        except _OpaqueComp as e:
            return Sym("comp", (e.src, ast.unparse(n)), "iter", n)
        return out

    def _e_SetComp(self, n: ast.SetComp, fr: Frame) -> t.Any:
        out: set[t.Any] = set()
        try:
            self._comp(n, fr, lambda f: out.add(self.ev(n.elt, f)))
        except _OpaqueComp as e:
            return Sym("comp", (e.src, ast.unparse(n)), "iter", n)
        return out

    def _e_DictComp(self, n: ast.DictComp, fr: Frame) -> t.Any:
        out: dict[t.Any, t.Any] = {}

        def emit(f: Frame) -> None:
            k = self.ev(n.key, f)
            out[k] = self.ev(n.value, f)

        try:
            self._comp(n, fr, emit)
        except _OpaqueComp as e:
            return Sym("comp", (e.src, ast.unparse(n)), "any", n)
        return out

    def iterate(self, v: t.Any, node: ast.AST | None) -> list:
        if isinstance(v, (list, tuple)):
            return list(v)
        if isinstance(v, (set, frozenset)):
            if has_opaque(v):
                raise Unsupported("iteration over a set of symbols")
            return sorted(v, key=repr)
        if isinstance(v, dict):
            return list(v.keys())
        if isinstance(v, (str,)):
            return list(v)
        if isinstance(v, bytes):
            return list(v)
        if isinstance(v, range):
            if len(v) > 5000:
                raise Unsupported("long range")
            return list(v)
        if isinstance(v, Sym):
            if self.iter_hook is not None:
                r = self.iter_hook(v)
                if r is not None:
                    return list(r)
            raise Unsupported(f"iteration over {show(v)[:80]}")
        if v is None:
            raise PyRaise("TypeError", node=node)
        raise Unsupported(f"iteration over {type(v).__name__}")

    # -- calls --------------------------------------------------------------
    def _e_Call(self, n: ast.Call, fr: Frame) -> t.Any:
        f = n.func
        args: list[t.Any] = []
        for a in n.args:
            if isinstance(a, ast.Starred):
                args.extend(self.iterate(self.ev(a.value, fr), a))
            else:
                args.append(self.ev(a, fr))
        kwargs: dict[str, t.Any] = {}
        for kw in n.keywords:
            if kw.arg is None:
                d = self.ev(kw.value, fr)
                if not isinstance(d, dict):
                    raise Unsupported("** of a non-constant mapping in a call")
                kwargs.update(d)
            else:
                kwargs[kw.arg] = self.ev(kw.value, fr)
        if isinstance(f, ast.Attribute):
            recv = self.ev(f.value, fr)
            if isinstance(recv, Ref):
                return self.call(self.getattr(recv, f.attr, f), args, kwargs, n)
            return self.call_method(recv, f.attr, args, kwargs, n)
        return self.call(self.ev(f, fr), args, kwargs, n)

    def inline_mode(self, c: Closure) -> str:
        """'yes': followed; 'try': followed when the interpreter can, else an opaque call; 'no': always an opaque call"""
        if c.fi is None:
            return "yes"  # lambda / nested function
        if c.fi.fq in self.atoms or c.fi.cls is not None or c.fi.name.startswith("__"):
            return "no"
        if c.fi.name.startswith("_"):
            return "yes"  # private helper
        if self._modules and c.fi.module is self._modules[-1]:
            return "try"  # public function of the same module: a helper that was extracted without an underscore
        return "no"

    def opaque_call(self, callee: t.Any, args: list, kwargs: dict, node: ast.AST | None, typ: str = "any") -> Sym:
        s = Sym("call", (callee, tuple(args), tuple(kwargs.items())), typ, node)
        self.effects.append(s)
        return s

    def call(self, fn: t.Any, args: list, kwargs: dict, node: ast.AST | None) -> t.Any:
        if isinstance(fn, Closure):
            mode = self.inline_mode(fn)
            if mode == "yes":
                return self.apply(fn, args, kwargs, node)
            if mode == "try":
                snap = (len(self.effects), len(self.decisions), len(self.forks), dict(self._memo), self.pos)
                try:
                    return self.apply(fn, args, kwargs, node)
                except Unsupported:
                    del self.effects[snap[0]:], self.decisions[snap[1]:], self.forks[snap[2]:]
                    self._memo, self.pos = snap[3], snap[4]
            typ = "any"
            ret = getattr(fn.node, "returns", None)
            if ret is not None:
                rt = ast.unparse(ret)
                if rt in ("str", "bytes", "int", "bool", "float"):
                    typ = rt
            return self.opaque_call(Ref(fn.fi.fq, fn.fi) if fn.fi else fn, args, kwargs, node, typ)
        if isinstance(fn, Builtin):
            return self.call_builtin(fn.name, args, kwargs, node)
        if isinstance(fn, Ref):
            if fn.fq in ("typing.cast", "typing_extensions.cast") and len(args) == 2:
                return args[1]
            typ = _EXT_RET.get(fn.fq) or "any"
            if fn.fq == "re.compile":
                raise Unsupported("re.compile inside a function body")
            if fn.fq == "re.sub" and len(args) >= 3:
                typ = _typ(args[2]) if _typ(args[2]) in ("str", "bytes") else "any"
            if fn.fq in ("re.fullmatch", "re.match", "re.search"):
                typ = "optmatch"
            return self.opaque_call(fn, args, kwargs, node, typ)
        if isinstance(fn, Sym):
            return self.opaque_call(fn, args, kwargs, node)
        raise PyRaise("TypeError", node=node)

    def apply(self, c: Closure, args: list, kwargs: dict, node: ast.AST | None) -> t.Any:
        if self.depth > 12:
            raise Unsupported("helper recursion too deep")
        if c.fi is not None and self.on_enter is not None:
            self.on_enter(c.fi)
        a: ast.arguments = c.node.args  # type: ignore[attr-defined]
        limports = c.module.local_imports(c.node) if not isinstance(c.node, ast.Lambda) else {}
        fr = Frame(c.module, c.frame, limports, c.fi)
        mod_frame = Frame(c.module, c.frame)
        pos = list(a.posonlyargs) + list(a.args)
        defaults = [None] * (len(pos) - len(a.defaults)) + list(a.defaults)
        kwargs = dict(kwargs)
        if len(args) > len(pos) and a.vararg is None:
            raise PyRaise("TypeError", node=node)
        for i, p in enumerate(pos):
            if i < len(args):
                if p.arg in kwargs:
                    raise PyRaise("TypeError", node=node)
                fr.vars[p.arg] = args[i]
            elif p.arg in kwargs and p not in a.posonlyargs:
                fr.vars[p.arg] = kwargs.pop(p.arg)
            elif defaults[i] is not None:
                fr.vars[p.arg] = self.ev(defaults[i], mod_frame)
            else:
                raise PyRaise("TypeError", node=node)
        if a.vararg is not None:
            fr.vars[a.vararg.arg] = tuple(args[len(pos):])
        for p, dflt in zip(a.kwonlyargs, a.kw_defaults):
            if p.arg in kwargs:
                fr.vars[p.arg] = kwargs.pop(p.arg)
            elif dflt is not None:
                fr.vars[p.arg] = self.ev(dflt, mod_frame)
            else:
                raise PyRaise("TypeError", node=node)
        if a.kwarg is not None:
            fr.vars[a.kwarg.arg] = kwargs
        elif kwargs:
            raise PyRaise("TypeError", node=node)
        if isinstance(c.node, ast.Lambda):
            self.depth += 1
            self._modules.append(c.module)
            try:
                return self.ev(c.node.body, fr)
            finally:
                self.depth -= 1
                self._modules.pop()
        # locals that are assigned somewhere are unbound until then
        for nm in _assigned_names(c.node):
            fr.vars.setdefault(nm, _UNBOUND)
        from ..loader import walk_no_nested

        is_gen = any(isinstance(x, (ast.Yield, ast.YieldFrom)) for x in walk_no_nested(c.node))
        if is_gen:
            fr.vars["$yield"] = GenList()  # generators are evaluated eagerly: the interpreted code is pure
        self.depth += 1
        self._modules.append(c.module)
        try:
            self.block(c.node.body, fr)  # type: ignore[attr-defined]
        except _Return as r:
            return fr.vars["$yield"] if is_gen else r.value
        finally:
            self.depth -= 1
            self._modules.pop()
        return fr.vars["$yield"] if is_gen else None

    def call_builtin(self, name: str, args: list, kwargs: dict, node: ast.AST | None) -> t.Any:
        if name == "isinstance" and len(args) == 2:
            return self._isinstance(args[0], args[1], node)
        if name == "bool" and len(args) == 1:
            v = args[0]
            return _Bool(v, node) if isinstance(v, Sym) else self.truth(v, node)
        if name == "str" and len(args) == 1 and not kwargs:
            return self.fmt(args[0], -1, "", node)
        if name == "str" and args and isinstance(args[0], Sym) and (len(args) > 1 or kwargs):
            return self.call_method(args[0], "decode", args[1:], kwargs, node)  # str(b, enc) is b.decode(enc)
        if name == "bytes" and args and isinstance(args[0], Sym) and args[0].typ == "str" and (len(args) > 1 or kwargs):
            return self.call_method(args[0], "encode", args[1:], kwargs, node)
        if name in ("map", "filter") and len(args) == 2 and not kwargs:
            items = self.iterate(args[1], node)
            if name == "map":
                return GenList(self.call(args[0], [x], {}, node) for x in items)
            if args[0] is None:
                return GenList(x for x in items if self.truth(x, node))
            return GenList(x for x in items if self.truth(self.call(args[0], [x], {}, node), node))
        if name == "len" and len(args) == 1:
            if isinstance(args[0], (list, tuple, dict, set, frozenset)):
                return len(args[0])
        if name == "next":
            it = args[0] if args else None
            if isinstance(it, GenList):
                if it:
                    return it.pop(0)
                if len(args) > 1:
                    return args[1]
                raise PyRaise("StopIteration", node=node)
            if isinstance(it, Sym):
                return self.opaque_call(Builtin(name), args, kwargs, node)
            raise PyRaise("TypeError", node=node)
        if name == "iter" and len(args) == 1:
            if isinstance(args[0], Sym):
                return self.opaque_call(Builtin(name), args, kwargs, node)
            return GenList(self.iterate(args[0], node))
        if name in ("list", "tuple") and len(args) == 1 and isinstance(args[0], (list, tuple, GenList)):
            return list(args[0]) if name == "list" else tuple(args[0])
        if name == "dict" and not has_opaque([a for a in args if not isinstance(a, (list, dict))]):
            try:
                return dict(*args, **kwargs)
            except _PY_ERRORS as e:
                raise PyRaise(type(e).__name__, node=node)
        if name in ("zip", "enumerate", "reversed") and all(isinstance(a, (list, tuple, str, bytes, range)) for a in args):
            return GenList(_BUILTINS[name](*args, **kwargs))
        if has_opaque(args) or has_opaque(kwargs):
            return self.opaque_call(Builtin(name), args, kwargs, node, _BUILTIN_RET.get(name, "any"))
        try:
            r = _BUILTINS[name](*args, **kwargs)
        except _PY_ERRORS as e:
            raise PyRaise(type(e).__name__, node=node)
        if isinstance(r, (zip, enumerate, reversed)):
            r = GenList(r)
        return r

    def _isinstance(self, v: t.Any, cls: t.Any, node: ast.AST | None) -> t.Any:
        classes = list(cls) if isinstance(cls, tuple) else [cls]
        names = [class_name(c) for c in classes]
        if any(nm is None for nm in names):
            raise Unsupported("isinstance against a computed class")
        if isinstance(v, Sym):
            if v.typ in ("any", "optmatch") or ":" in v.typ:
                return Sym("isinstance", (v, tuple(names)), "bool", node)
            base = v.typ
            return any(nm == base or (nm == "int" and base == "bool") or (nm == "date" and base == "datetime") for nm in names)
        if opaque(v):
            return False
        for nm in names:
            ty = _PYTYPES.get(nm or "")
            if ty is not None and isinstance(v, ty):
                return True
        return False

    def call_method(self, recv: t.Any, name: str, args: list, kwargs: dict, node: ast.AST | None) -> t.Any:
        if isinstance(recv, FakeMatch):
            if has_opaque(args):
                raise Unsupported("symbolic group index")
            if name == "group":
                return recv.group(*args)
            if name == "groups":
                dflt = args[0] if args else kwargs.get("default")
                return tuple(dflt if g is None else g for g in recv.groups)
            raise Unsupported(f"match.{name}")
        if isinstance(recv, RegexConst):
            is_b = isinstance(recv.pattern, bytes)
            typ = {"fullmatch": "optmatch", "match": "optmatch", "search": "optmatch", "sub": "bytes" if is_b else "str", "findall": "iter", "finditer": "iter", "split": "iter"}.get(name, "any")
            s = Sym("method", (recv, name, tuple(args), tuple(kwargs.items())), typ, node)
            self.effects.append(s)
            if name in ("findall", "finditer") and self.iter_hook is not None:
                items = self.iter_hook(s)  # the rule supplies the captured groups it wants evaluated
                if items is not None:
                    return list(items) if name == "findall" else GenList(items)
            return s
        if isinstance(recv, Sym):
            typ = "any"
            rt = recv.typ
            if rt == "str":
                if name in _STR_TO_STR:
                    typ = "str"
                elif name == "encode":
                    typ = "bytes"
                elif name in ("partition", "rpartition"):
                    typ = "tuple:str"
                elif name in ("split", "rsplit", "splitlines"):
                    typ = "list:str"
                elif name in _TO_BOOL:
                    typ = "bool"
                elif name in _TO_INT:
                    typ = "int"
            elif rt == "bytes":
                if name == "decode":
                    typ = "str"
                elif name in ("strip", "lstrip", "rstrip", "lower", "upper", "replace", "join"):
                    typ = "bytes"
            elif rt == "timedelta" and name == "total_seconds":
                typ = "float"
            elif rt == "optmatch" or rt == "match":
                pass
            s = Sym("method", (recv, name, tuple(args), tuple(kwargs.items())), typ, node)
            self.effects.append(s)
            return s
        if opaque(recv):
            raise Unsupported(f"method .{name} of {show(recv)[:40]}")
        if recv is None:
            raise PyRaise("AttributeError", node=node)
        # concrete receiver
        if isinstance(recv, str) and name == "join" and len(args) == 1:
            if isinstance(args[0], Sym):
                s = Sym("method", (recv, name, tuple(args), ()), "str", node)
                self.effects.append(s)
                return s
            items = self.iterate(args[0], node)
            if has_opaque(items):
                if not all(_is_strish(x) for x in items):
                    if any(not opaque(x) and not isinstance(x, str) for x in items):
                        raise PyRaise("TypeError", node=node)
                    raise Unsupported("join over untyped symbols")
                parts: list[t.Any] = []
                for i, x in enumerate(items):
                    if i:
                        parts.append(recv)
                    parts.append(x)
                return mkcat(parts)
            args = [items]
        if isinstance(recv, str) and name == "format" and (has_opaque(args) or has_opaque(kwargs)):
            return self.str_format(recv, args, kwargs, node)
        ok = False
        for ty, names in _SAFE_METHODS.items():
            if isinstance(recv, ty) and name in names:
                ok = True
        if not ok:
            if not hasattr(recv, name):
                raise PyRaise("AttributeError", node=node)
            raise Unsupported(f"method {type(recv).__name__}.{name}")
        if isinstance(recv, (str, bytes, int, float)) and (has_opaque(args) or has_opaque(kwargs)):
            s = Sym("method", (recv, name, tuple(args), tuple(kwargs.items())), "any", node)
            self.effects.append(s)
            return s
        if isinstance(recv, list) and name == "extend" and len(args) == 1:
            args = [self.iterate(args[0], node)]
        if isinstance(recv, list) and name == "sort" and has_opaque(recv):
            raise Unsupported("sorting symbols")
        if isinstance(recv, dict) and name == "update" and args:
            args = [a if isinstance(a, dict) else [tuple(self.iterate(p, node)) for p in self.iterate(a, node)] for a in args]
        try:
            r = getattr(recv, name)(*args, **kwargs)
        except _PY_ERRORS as e:
            raise PyRaise(type(e).__name__, node=node)
        if isinstance(recv, dict) and name in ("keys", "values", "items"):
            r = list(r)
        return r

    # -- statements ---------------------------------------------------------
    def assign(self, tg: ast.AST, v: t.Any, fr: Frame) -> None:
        if isinstance(tg, ast.Name):
            fr.vars[tg.id] = v
            return
        if isinstance(tg, (ast.Tuple, ast.List)):
            n = len(tg.elts)
            if any(isinstance(e, ast.Starred) for e in tg.elts):
                raise Unsupported("starred assignment target")
            if isinstance(v, Sym):
                ity = "str" if v.typ in ("tuple:str", "list:str") else "any"
                for i, e in enumerate(tg.elts):
                    self.assign(e, Sym("item", (v, i), ity, tg), fr)
                return
            items = self.iterate(v, tg)
            if len(items) != n:
                raise PyRaise("ValueError", node=tg)
            for e, x in zip(tg.elts, items):
                self.assign(e, x, fr)
            return
        if isinstance(tg, ast.Subscript):
            recv = self.ev(tg.value, fr)
            idx = self._index(tg.slice, fr)
            if isinstance(recv, (dict, list)):
                try:
                    recv[idx] = v
                except _PY_ERRORS as e:
                    raise PyRaise(type(e).__name__, node=tg)
                return
            if isinstance(recv, Sym):
                self.effects.append(Sym("method", (recv, "__setitem__", (idx, v), ()), "any", tg))
                return
            raise Unsupported("subscript assignment")
        if isinstance(tg, ast.Attribute):
            recv = self.ev(tg.value, fr)
            if isinstance(recv, Sym):
                self.effects.append(Sym("method", (recv, "__setattr__", (tg.attr, v), ()), "any", tg))
                return
            raise Unsupported("attribute assignment")
        raise Unsupported(f"assignment target {type(tg).__name__}")

    def block(self, stmts: list[ast.stmt], fr: Frame) -> None:
        for st in stmts:
            self.stmt(st, fr)

    def stmt(self, st: ast.stmt, fr: Frame) -> None:
        self._tick()
        if isinstance(st, ast.Expr):
            self.ev(st.value, fr)
        elif isinstance(st, ast.Assign):
            v = self.ev(st.value, fr)
            for tg in st.targets:
                self.assign(tg, v, fr)
        elif isinstance(st, ast.AnnAssign):
            if st.value is not None:
                self.assign(st.target, self.ev(st.value, fr), fr)
        elif isinstance(st, ast.AugAssign):
            cur = self.ev(ast.copy_location(_as_load(st.target), st.target), fr)
            v = self.ev(st.value, fr)
            if isinstance(cur, list) and isinstance(st.op, ast.Add):
                cur.extend(self.iterate(v, st))
                self.assign(st.target, cur, fr)
            else:
                self.assign(st.target, self.binop(st.op, cur, v, st), fr)
        elif isinstance(st, ast.If):
            if self.truth(self.ev(st.test, fr), st.test):
                self.block(st.body, fr)
            else:
                self.block(st.orelse, fr)
        elif isinstance(st, ast.For):
            broke = False
            for item in self.iterate(self.ev(st.iter, fr), st.iter):
                self._tick()
                self.assign(st.target, item, fr)
                try:
                    self.block(st.body, fr)
                except _Continue:
                    continue
                except _Break:
                    broke = True
                    break
            if not broke:
                self.block(st.orelse, fr)
        elif isinstance(st, ast.While):
            broke = False
            while self.truth(self.ev(st.test, fr), st.test):
                self._tick()
                try:
                    self.block(st.body, fr)
                except _Continue:
                    continue
                except _Break:
                    broke = True
                    break
            if not broke:
                self.block(st.orelse, fr)
        elif isinstance(st, ast.Return):
            raise _Return(self.ev(st.value, fr) if st.value is not None else None)
        elif isinstance(st, ast.Continue):
            raise _Continue()
        elif isinstance(st, ast.Break):
            raise _Break()
        elif isinstance(st, ast.Pass):
            pass
        elif isinstance(st, ast.Raise):
            v = self.ev(st.exc, fr) if st.exc is not None else None
            nm = None
            if isinstance(v, Sym) and v.op == "call":
                nm = class_name(v.args[0])
            elif isinstance(v, (Ref, Builtin)):
                nm = class_name(v)
            raise PyRaise(nm or "?", v, st)
        elif isinstance(st, (ast.FunctionDef,)):
            fr.vars[st.name] = Closure(st, fr, fr.module, None)
        elif isinstance(st, (ast.Import, ast.ImportFrom)):
            pass  # resolved through Module.local_imports
        elif isinstance(st, ast.Try):
            self._try(st, fr)
        elif isinstance(st, ast.Assert):
            if not self.truth(self.ev(st.test, fr), st.test):
                raise PyRaise("AssertionError", node=st)
        else:
            raise Unsupported(f"statement {type(st).__name__}")


    def _try(self, st: ast.Try, fr: Frame) -> None:
        try:
            try:
                self.block(st.body, fr)
            except PyRaise as e:
                for h in st.handlers:
                    names: list[str | None]
                    if h.type is None:
                        names = ["BaseException"]
                    else:
                        tv = self.ev(h.type, fr)
                        names = [class_name(c) for c in (tv if isinstance(tv, tuple) else (tv,))]
                        if any(nm is None for nm in names):
                            raise Unsupported("computed exception class in an except clause")
                    if any(nm in e.mro for nm in names):
                        if h.name:
                            fr.vars[h.name] = e.value if e.value is not None else Sym("call", (Ref("builtins." + e.name), (), ()), "any", h)
                        self.block(h.body, fr)
                        break
                else:
                    raise
            else:
                self.block(st.orelse, fr)
        finally:
            if st.finalbody:
                self.block(st.finalbody, fr)

    def _e_Yield(self, n: ast.Yield, fr: Frame) -> t.Any:
        ok, coll = fr.lookup("$yield")
        if not ok:
            raise Unsupported("yield outside an interpreted generator")
        coll.append(self.ev(n.value, fr) if n.value is not None else None)
        return None

    def _e_YieldFrom(self, n: ast.YieldFrom, fr: Frame) -> t.Any:
        ok, coll = fr.lookup("$yield")
        if not ok:
            raise Unsupported("yield outside an interpreted generator")
        coll.extend(self.iterate(self.ev(n.value, fr), n))
        return None


class _Unbound:
    def __repr__(self) -> str:
        return "<unbound>"


_UNBOUND = _Unbound()
_OPS = {"Eq": "==", "NotEq": "!=", "Lt": "<", "LtE": "<=", "Gt": ">", "GtE": ">=", "In": "in", "NotIn": "not in", "Is": "is", "IsNot": "is not", "Add": "+", "Sub": "-", "Mult": "*", "Mod": "%", "Div": "/", "FloorDiv": "//", "BitOr": "|", "BitAnd": "&"}


def _Bool(v: t.Any, node: ast.AST | None) -> Sym:
    """truthiness of a symbol as a boolean-typed symbol (``not not x`` / ``bool(x)``)"""
    if isinstance(v, Sym) and v.typ == "bool":
        return v
    return Sym("not", (Sym("not", (v,), "bool", node),), "bool", node)


def _as_load(tg: ast.AST) -> ast.AST:
    c = ast.parse(ast.unparse(tg), mode="eval").body
    return c


def _assigned_names(fn: ast.AST) -> set[str]:
    """locals of a function: names stored outside comprehensions / nested functions, minus the parameters"""
    from ..loader import walk_no_nested

    comp_targets: set[int] = set()
    for n in walk_no_nested(fn):
        if isinstance(n, ast.comprehension):
            for x in ast.walk(n.target):
                comp_targets.add(id(x))
    out: set[str] = set()
    for n in walk_no_nested(fn):
        if isinstance(n, ast.Name) and isinstance(n.ctx, ast.Store) and id(n) not in comp_targets:
            out.add(n.id)
    a = fn.args  # type: ignore[attr-defined]
    params = {p.arg for p in list(a.posonlyargs) + list(a.args) + list(a.kwonlyargs)}
    if a.vararg:
        params.add(a.vararg.arg)
    if a.kwarg:
        params.add(a.kwarg.arg)
    return out - params


def _typ(v: t.Any) -> str:
    if isinstance(v, Sym):
        return v.typ
    if isinstance(v, bool):
        return "bool"
    for nm, ty in _PYTYPES.items():
        if type(v) is ty:
            return nm
    return "any"


def _is_strish(v: t.Any) -> bool:
    return isinstance(v, str) or (isinstance(v, Sym) and v.typ == "str")


# ---------------------------------------------------------------------
# exploring all paths of one call


def param(name: str, typ: str = "any") -> Sym:
    return Sym("param", (name,), typ)


def explore(
    repo: Repo,
    folder: Folder,
    fi: FuncInfo,
    make_args: t.Callable[[], dict[str, t.Any]],
    oracle: t.Callable[[Sym], bool | None] | None = None,
    iter_hook: t.Callable[[Sym], list | None] | None = None,
    on_enter: t.Callable[[FuncInfo], None] | None = None,
    max_paths: int = 96,
    atoms: t.Iterable[str] = (),
) -> list[Outcome]:
    """all outcomes of calling ``fi`` with the given (symbolic / constant) keyword arguments; parameters not named take
    their default.  Undecided symbolic branches are explored both ways."""
    results: list[Outcome] = []
    stack: list[list[bool]] = [[]]
    while stack:
        script = stack.pop()
        it = Interp(repo, folder, oracle, iter_hook, script, on_enter, atoms=atoms)
        clo = Closure(fi.node, None, fi.module, fi)
        try:
            try:
                v = it.apply(clo, [], make_args(), fi.node)
                results.append(Outcome("return", v, None, it.decisions, it.effects, None, it.forks))
            except PyRaise as e:
                results.append(Outcome("raise", e.value, e.name, it.decisions, it.effects, e.node, it.forks))
            except (_Break, _Continue):
                raise Unsupported("break/continue outside a loop")
        except _NeedDecision:
            stack.append(script + [False])
            stack.append(script + [True])
        except RecursionError:
            raise Unsupported("interpreter recursion")
        if len(results) + len(stack) > max_paths:
            raise Unsupported(f"{fi.fq}: more than {max_paths} symbolic paths")
    return results


def call_closure(repo: Repo, folder: Folder, fn: t.Any, args: list, on_enter: t.Callable[[FuncInfo], None] | None = None) -> t.Any:
    """apply an interpreted callable (lambda / function) to constant arguments; no symbolic branch may occur."""
    it = Interp(repo, folder, None, None, (), on_enter)
    if not isinstance(fn, Closure):
        raise Unsupported(f"callback {show(fn)} is not a function defined in the source")
    try:
        return it.apply(fn, args, {}, fn.node)
    except _NeedDecision:
        raise Unsupported("callback branches on a non-constant")


# ---------------------------------------------------------------------
# term queries


def chain(v: t.Any) -> tuple[t.Any, list[tuple[str, tuple, dict]]]:
    """``root.a(..).b(..)[i]`` -> (root, [(name, args, kwargs), ...]) innermost first; subscripts appear as ('[]', (idx,), {})"""
    out: list[tuple[str, tuple, dict]] = []
    cur = v
    while isinstance(cur, Sym):
        if cur.op == "method":
            out.append((cur.args[1], cur.args[2], dict(cur.args[3])))
            cur = cur.args[0]
        elif cur.op == "item":
            out.append(("[]", (cur.args[1],), {}))
            cur = cur.args[0]
        else:
            break
    out.reverse()
    return cur, out


def as_regex_sub(v: t.Any) -> tuple[RegexConst, t.Any, t.Any, dict] | None:
    """``RX.sub(repl, subject)`` or ``re.sub(RX, repl, subject)`` -> (regex, repl, subject, other arguments)"""
    if not isinstance(v, Sym):
        return None
    if v.op == "method" and v.args[1] == "sub" and isinstance(v.args[0], RegexConst):
        a, kw = list(v.args[2]), dict(v.args[3])
        repl = a[0] if a else kw.pop("repl", None)
        subj = a[1] if len(a) > 1 else kw.pop("string", None)
        extra = dict(kw)
        if len(a) > 2:
            extra["count"] = a[2]
        return v.args[0], repl, subj, extra
    if v.op == "call" and isinstance(v.args[0], Ref) and v.args[0].fq == "re.sub":
        a, kw = list(v.args[1]), dict(v.args[2])
        if a and isinstance(a[0], RegexConst) and len(a) >= 3:
            extra = dict(kw)
            if len(a) > 3:
                extra["count"] = a[3]
            return a[0], a[1], a[2], extra
    return None


def is_call_to(v: t.Any, fq: str) -> bool:
    return isinstance(v, Sym) and v.op == "call" and isinstance(v.args[0], Ref) and v.args[0].fq == fq


def call_args(v: Sym) -> tuple[list, dict]:
    if v.op == "call":
        return list(v.args[1]), dict(v.args[2])
    if v.op == "method":
        return list(v.args[2]), dict(v.args[3])
    raise ValueError(v.op)


def bind_call(fi: FuncInfo, args: list, kwargs: dict, skip_self: bool = False) -> dict[str, t.Any]:
    """positional and keyword arguments of a call -> parameter name -> value (defaults not filled)"""
    a: ast.arguments = fi.node.args  # type: ignore[attr-defined]
    pos = [p.arg for p in list(a.posonlyargs) + list(a.args)]
    if skip_self and pos:
        pos = pos[1:]
    out: dict[str, t.Any] = {}
    for i, v in enumerate(args):
        if i < len(pos):
            out[pos[i]] = v
    out.update(kwargs)
    return out


def const_name(module: Module, folder: Folder, value: t.Any) -> str:
    """the module-level name whose folded value is ``value`` (for messages only)"""
    for nm in module.assigns:
        try:
            v = folder.name(module, nm)
        except Exception:
            continue
        if isinstance(value, RegexConst) and isinstance(v, RegexConst):
            if v.pattern == value.pattern and v.flags == value.flags:
                return nm
        elif v is value:
            return nm
    return show(value)[:40]


# ---------------------------------------------------------------------
# regex languages: for which subjects does ``RX.<method>(subject)`` succeed?
#
# The pattern's re._parser tree is compiled into a nondeterministic automaton over a finite partition of the code
# points ("atoms": maximal intervals on which every character test of the pattern, and every cut the caller asks
# for, is constant).  match / fullmatch / search differ in what may surround the matched text; the anchors ^ $ \A \Z
# (with or without re.M) are zero-width tests on "is this the start of the subject", "was the previous character a
# newline" and on a *promise* about the rest of the subject that later steps have to keep (nothing follows / a newline
# follows / exactly one newline follows and ends the subject).  Success of a backtracking match is the existence of an
# accepting run, so questions about the accepted set are reachability questions on the determinised automaton.
# Constructs whose acceptance is not the existence of a run (possessive / atomic groups) or that need more context
# (look-around, back-references, \b) raise Unfoldable: exit 2, never a finding.

import re  # noqa: E402

from ..fold import sre_c, sre_parse  # noqa: E402

_FUT_ANY, _FUT_NL, _FUT_NL_END, _FUT_END = 0, 1, 2, 3  # promise about the rest of the subject
_REPEAT_COPIES = 64
_NFA_STATES = 4000
_UNI_CACHE: dict[str, t.Any] = {}


def _ascii_category(name: str, c: int) -> bool:
    if name.endswith("DIGIT"):
        return 48 <= c <= 57
    if name.endswith("SPACE"):
        return c in (9, 10, 11, 12, 13, 32)
    if name.endswith("WORD"):
        return 48 <= c <= 57 or 65 <= c <= 90 or 97 <= c <= 122 or c == 95
    raise Unfoldable(f"regex category {name}")


def _unicode_category(name: str, c: int) -> bool:
    ch = chr(c)
    if name.endswith("DIGIT"):
        return ch.isdecimal()
    if name.endswith("SPACE"):
        return ch.isspace()
    if name.endswith("WORD"):
        return ch.isalnum() or c == 95
    raise Unfoldable(f"regex category {name}")


def _unicode_cuts(name: str) -> list[int]:
    """the code points at which a Unicode category changes its value"""
    key = "cuts:" + name.rsplit("_", 1)[-1]
    if key not in _UNI_CACHE:
        cuts, prev = [], False
        for c in range(0x110000):
            cur = _unicode_category(name, c)
            if cur != prev:
                cuts.append(c)
                prev = cur
        _UNI_CACHE[key] = cuts
    return _UNI_CACHE[key]


def _cased() -> dict[int, frozenset[int]]:
    """code point -> the code points re.IGNORECASE identifies it with (simple one-character lower/upper mappings, closed)"""
    if "cased" not in _UNI_CACHE:
        grp: dict[int, set[int]] = {}
        for c in range(0x110000):
            ch = chr(c)
            vs = {c}
            for v in (ch.lower()[:1], ch.upper()):  # (str.lower of U+0130 is two characters; its simple mapping is the first)
                if len(v) == 1:
                    vs.add(ord(v))
                    for w in (v.lower(), v.upper()):
                        if len(w) == 1:
                            vs.add(ord(w))
            if len(vs) > 1:
                for v in vs:
                    grp.setdefault(v, set()).update(vs)
        _UNI_CACHE["cased"] = {c: frozenset(vs) for c, vs in grp.items()}
    return _UNI_CACHE["cased"]


class RegexLang:
    """the subjects accepted by ``rx.<method>(subject)``, ``method`` one of fullmatch / match / search"""

    def __init__(self, rx: RegexConst, method: str, cuts: t.Iterable[int] = ()):
        if method not in ("fullmatch", "match", "search"):
            raise Unfoldable(f"regex method {method}")
        self.rx, self.method = rx, method
        self.is_bytes = isinstance(rx.pattern, bytes)
        self.universe = 256 if self.is_bytes else 0x110000
        tree = sre_parse.parse(rx.pattern, rx.flags)
        flags = int(tree.state.flags)
        if flags & re.L:
            raise Unfoldable("re.LOCALE pattern")
        self._edges: list[list[tuple]] = []
        self._tests: list[t.Callable[[int], bool]] = [lambda c: True]  # test 0: any character
        self._cuts: set[int] = {0, self.universe, 10, 11, *(c for c in cuts if 0 <= c <= self.universe)}
        self.anchors: list[str] = []
        first = self._new()
        start = first
        if method == "search":
            self._edges[first].append(("c", 0, first))
            start = self._new()
            self._edges[first].append(("e", start))
        acc = self._build(tree, flags, start)
        if method != "fullmatch":
            post = self._new()
            self._edges[acc].append(("e", post))
            self._edges[post].append(("c", 0, post))
            acc = post
        self.first, self.final = first, acc
        pts = sorted(self._cuts)
        self.atoms: list[int] = pts[:-1]  # representative (lowest) code point of every atom
        self.bounds: list[int] = pts
        self._sets = [frozenset(i for i, r in enumerate(self.atoms) if test(r)) for test in self._tests]
        self.nl = self.atoms.index(10)
        self._step: dict[tuple[frozenset, int], frozenset] = {}

    # -- construction ---------------------------------------------------
    def _new(self) -> int:
        if len(self._edges) >= _NFA_STATES:
            raise Unfoldable(f"pattern {self.rx.pattern!r}: automaton too large")
        self._edges.append([])
        return len(self._edges) - 1

    def _ascii(self, flags: int) -> bool:
        return self.is_bytes or bool(flags & re.A)

    def _consume(self, cur: int, base: t.Callable[[int], bool], neg: bool, cuts: t.Iterable[int], flags: int) -> int:
        """an edge reading one character c with ``base(c) != neg``; under re.I ``base`` is asked about every case variant of c"""
        self._cuts.update(c for c in cuts if 0 <= c <= self.universe)
        fold = base
        if flags & re.I:
            if self._ascii(flags):
                for c in (*range(65, 91), *range(97, 123)):
                    self._cuts.update((c, c + 1))

                def fold(c: int) -> bool:
                    return base(c) or ((65 <= c <= 90 or 97 <= c <= 122) and base(c ^ 0x20))

            else:
                cased = _cased()
                for c in cased:
                    self._cuts.update((c, c + 1))

                def fold(c: int) -> bool:
                    return base(c) or any(base(v) for v in cased.get(c, ()))

        self._tests.append(lambda c: fold(c) != neg)
        nxt = self._new()
        self._edges[cur].append(("c", len(self._tests) - 1, nxt))
        return nxt

    def _class(self, items: t.Any, flags: int) -> tuple[t.Callable[[int], bool], bool, list[int]]:
        ascii_ = self._ascii(flags)
        neg = False
        tests: list[t.Callable[[int], bool]] = []
        cuts: list[int] = []
        for op, av in items:
            if op is sre_c.NEGATE:
                neg = True
            elif op is sre_c.LITERAL:
                tests.append(lambda c, av=av: c == av)
                cuts += [av, av + 1]
            elif op is sre_c.RANGE:
                lo, hi = av
                tests.append(lambda c, lo=lo, hi=hi: lo <= c <= hi)
                cuts += [lo, hi + 1]
            elif op is sre_c.CATEGORY:
                name = str(av)
                inv = "NOT_" in name
                name = name.replace("NOT_", "")
                if ascii_:
                    tests.append(lambda c, name=name, inv=inv: (c < 128 and _ascii_category(name, c)) != inv)
                    cuts += [c for c in range(129) if (c < 128 and _ascii_category(name, c)) != (c > 0 and _ascii_category(name, c - 1))]
                else:
                    tests.append(lambda c, name=name, inv=inv: _unicode_category(name, c) != inv)
                    cuts += _unicode_cuts(name)
            else:
                raise Unfoldable(f"regex class item {op}")
        return (lambda c: any(f(c) for f in tests)), neg, cuts

    def _build(self, seq: t.Any, flags: int, cur: int) -> int:
        for op, av in seq:
            if op is sre_c.LITERAL:
                cur = self._consume(cur, lambda c, av=av: c == av, False, (av, av + 1), flags)
            elif op is sre_c.NOT_LITERAL:
                cur = self._consume(cur, lambda c, av=av: c == av, True, (av, av + 1), flags)
            elif op is sre_c.ANY:
                cur = self._consume(cur, (lambda c: True) if flags & re.S else (lambda c: c != 10), False, (10, 11), flags & ~re.I)
            elif op is sre_c.IN:
                base, neg, cuts = self._class(av, flags)
                cur = self._consume(cur, base, neg, cuts, flags)
            elif op in (sre_c.MAX_REPEAT, sre_c.MIN_REPEAT):
                lo, hi, sub = av
                inf = hi is sre_c.MAXREPEAT
                if lo > _REPEAT_COPIES or (not inf and hi - lo > _REPEAT_COPIES):
                    raise Unfoldable(f"pattern {self.rx.pattern!r}: repeat count too large to unroll")
                for _ in range(lo):
                    cur = self._build(sub, flags, cur)
                if inf:
                    loop = self._new()
                    self._edges[cur].append(("e", loop))
                    end = self._build(sub, flags, loop)
                    self._edges[end].append(("e", loop))
                    cur = loop
                else:
                    out = self._new()
                    for _ in range(hi - lo):
                        self._edges[cur].append(("e", out))
                        cur = self._build(sub, flags, cur)
                    self._edges[cur].append(("e", out))
                    cur = out
            elif op is sre_c.BRANCH:
                out = self._new()
                for alt in av[1]:
                    s = self._new()
                    self._edges[cur].append(("e", s))
                    self._edges[self._build(alt, flags, s)].append(("e", out))
                cur = out
            elif op is sre_c.SUBPATTERN:
                _group, add, rem, sub = av
                cur = self._build(sub, (flags | add) & ~rem, cur)
            elif op is sre_c.AT:
                code = {sre_c.AT_BEGINNING: "^", sre_c.AT_BEGINNING_STRING: "\\A", sre_c.AT_END: "$", sre_c.AT_END_STRING: "\\Z"}.get(av)
                if code is None:
                    raise Unfoldable(f"regex anchor {av}")
                self.anchors.append(code + ("(re.M)" if flags & re.M and code in "^$" else ""))
                nxt = self._new()
                self._edges[cur].append(("a", code, bool(flags & re.M), nxt))
                cur = nxt
            else:
                raise Unfoldable(f"regex node {op}: the set of subjects accepted by {self.rx.pattern!r} is not computed")
        return cur

    # -- runs ----------------------------------------------------------------
    def _closure(self, seeds: t.Iterable[tuple]) -> frozenset:
        seen = set(seeds)
        work = list(seen)

        def add(x: tuple) -> None:
            if x not in seen:
                seen.add(x)
                work.append(x)

        while work:
            q, st, pn, fut = work.pop()
            for e in self._edges[q]:
                if e[0] == "e":
                    add((e[1], st, pn, fut))
                elif e[0] == "a":
                    _k, code, multi, dst = e
                    if code == "\\A" or (code == "^" and not multi):
                        if st:
                            add((dst, st, pn, fut))
                    elif code == "^":
                        if st or pn:
                            add((dst, st, pn, fut))
                    else:
                        if fut in (_FUT_ANY, _FUT_END):
                            add((dst, st, pn, _FUT_END))  # the subject ends here
                        if code == "$" and fut != _FUT_END:
                            if multi:  # ... or a newline follows
                                add((dst, st, pn, _FUT_NL if fut == _FUT_ANY else fut))
                            else:  # ... or exactly one newline follows and ends the subject
                                add((dst, st, pn, _FUT_NL_END))
        return frozenset(seen)

    def initial(self) -> frozenset:
        return self._closure([(self.first, True, False, _FUT_ANY)])

    def step(self, states: frozenset, atom: int) -> frozenset:
        key = (states, atom)
        got = self._step.get(key)
        if got is None:
            is_nl = atom == self.nl
            out = set()
            for q, _st, _pn, fut in states:
                if fut == _FUT_END or (fut != _FUT_ANY and not is_nl):
                    continue
                nf = _FUT_ANY if fut in (_FUT_ANY, _FUT_NL) else _FUT_END
                for e in self._edges[q]:
                    if e[0] == "c" and atom in self._sets[e[1]]:
                        out.add((e[2], False, is_nl, nf))
            got = self._step[key] = self._closure(out)
        return got

    def accepting(self, states: frozenset) -> bool:
        return any(q == self.final and fut in (_FUT_ANY, _FUT_END) for q, _st, _pn, fut in states)


def find_subject(
    langs: t.Sequence[RegexLang],
    mon0: t.Any,
    mon_step: t.Callable[[t.Any, int], t.Any],
    hit: t.Callable[[tuple, t.Any], bool],
    max_states: int = 20000,
) -> list[int] | None:
    """the shortest subject (as representative code points) after which ``hit((accepted by langs[0], ...), monitor)`` holds,
    None when no subject does.  ``mon_step(monitor, code point)`` -> next monitor state, or None to forbid the character."""
    atoms = langs[0].atoms
    if any(l.atoms != atoms for l in langs):
        raise Unfoldable("languages over different alphabets")
    start = (tuple(l.initial() for l in langs), mon0)
    parent: dict[tuple, tuple | None] = {start: None}
    queue = [start]
    i = 0
    while i < len(queue):
        cur = queue[i]
        i += 1
        sets, mon = cur
        if hit(tuple(l.accepting(s) for l, s in zip(langs, sets)), mon):
            word: list[int] = []
            node: tuple | None = cur
            while parent[node] is not None:  # type: ignore[index]
                node, a = parent[node]  # type: ignore[index,misc]
                word.append(atoms[a])
            return word[::-1]
        for a, rep in enumerate(atoms):
            m2 = mon_step(mon, rep)
            if m2 is None:
                continue
            nxt = (tuple(l.step(s, a) for l, s in zip(langs, sets)), m2)
            if nxt not in parent:
                parent[nxt] = (cur, a)
                queue.append(nxt)
                if len(queue) > max_states:
                    raise Unfoldable("regex language: too many automaton states")
    return None
