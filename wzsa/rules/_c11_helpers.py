"""helpers for the C11 rules: per-function analysis bundle, call binding, boolean path
enumeration of small predicate functions, order facts established by branch edges,
value-origin chains over reaching definitions."""

from __future__ import annotations

import ast
import copy
import itertools
import re
import typing as t

from .. import astq
from ..cfg import CFG, Node, cfg_of
from ..dataflow import Def, ReachingDefs
from ..guards import canon
from ..loader import AnalysisError, ClassInfo, FuncInfo, Repo, dotted, norm, walk_no_nested


class FA:
    """CFG + reaching definitions of one function."""

    def __init__(self, repo: Repo, fi: FuncInfo):
        self.repo = repo
        self.fi = fi
        self.cfg: CFG = cfg_of(fi)
        self.rd = ReachingDefs(self.cfg, fi.params)
        self.limports = fi.module.local_imports(fi.node)

    # -- names -----------------------------------------------------------
    def resolve(self, expr: ast.AST) -> str | None:
        d = dotted(expr)
        if d is None:
            return None
        return self.repo.resolve(self.fi.module, d, self.limports)

    def callee(self, call: ast.Call) -> FuncInfo | None:
        fq = self.resolve(call.func)
        if fq is None or not fq.startswith("werkzeug."):
            return None
        return self.repo.try_func(fq)

    def calls_to(self, fq: str) -> list[ast.Call]:
        """calls in this function whose callee resolves to the package function ``fq``."""
        out = []
        for c in astq.calls(self.fi.node, nested=False):
            r = self.resolve(c.func)
            if r == fq:
                out.append(c)
        out.sort(key=lambda c: (c.lineno, c.col_offset))
        return out

    def method_calls(self, attr: str) -> list[ast.Call]:
        out = [c for c in astq.calls(self.fi.node, nested=False) if isinstance(c.func, ast.Attribute) and c.func.attr == attr]
        out.sort(key=lambda c: (c.lineno, c.col_offset))
        return out

    # -- nodes -----------------------------------------------------------
    def node(self, a: ast.AST) -> Node:
        n = self.cfg.node_of(a)
        if n is None:
            raise AnalysisError(f"{self.fi.fq}: no CFG node for `{norm(a)}`")
        return n

    def defs(self, name_node: ast.Name) -> frozenset[Def]:
        return self.rd.reaching(self.node(name_node), name_node.id)

    def defs_at(self, at: Node, name: str) -> frozenset[Def]:
        return self.rd.reaching(at, name)

    def same_defs(self, name: str, a: Node, b: Node) -> bool:
        """the bindings of ``name`` visible at a and at b are the same (no rebinding in between on any path)."""
        da, db = self.rd.reaching(a, name), self.rd.reaching(b, name)
        return bool(da) and da == db

    def single_value(self, name_node: ast.Name) -> ast.AST | None:
        """RHS of the only plain assignment reaching this use (None when there are several / a param / an unpack)."""
        ds = self.defs(name_node)
        if len(ds) != 1:
            return None
        (d,) = ds
        if d.kind in ("assign", "walrus") and d.index is None and d.value is not None:
            return d.value
        return None

    def def_nodes_of(self, name: str) -> list[Node]:
        out = []
        for nid, ds in self.rd.gen.items():
            if any(d.name == name for d in ds):
                out.append(self.cfg.nodes[nid])
        return out

    def guards(self, a: ast.AST | Node) -> list[tuple[Node, str]]:
        n = a if isinstance(a, Node) else self.node(a)
        return self.cfg.guards(n)

    def dominated_by(self, a: ast.AST | Node, atom: Node, label: str) -> bool:
        n = a if isinstance(a, Node) else self.node(a)
        return self.cfg.reachable(n) and self.cfg.edge_dominates(atom, label, n)


def flip(label: str) -> str:
    return "F" if label == "T" else "T"


# ---------------------------------------------------------------------
# call binding


def call_params(fi: FuncInfo, bound: bool) -> list[str]:
    a = fi.node.args  # type: ignore[attr-defined]
    names = [x.arg for x in a.posonlyargs + a.args]
    if bound and names:
        names = names[1:]
    return names


def bind(call: ast.Call, fi: FuncInfo, bound: bool, fold: t.Callable[[ast.AST], t.Any] | None = None) -> dict[str, ast.AST]:
    """parameter name -> argument expression for a call of ``fi`` (bound: called as a method on an instance).
    ``fold``: expression -> Python constant (raising AnalysisError when it is not one), used to read the iterable of a
    ``**{... for ... in TABLE}`` comprehension that is a module-level constant."""
    args: list[ast.AST] = []
    for x in call.args:
        if isinstance(x, ast.Starred):
            lit = _literal_behind(x.value, call)
            if not isinstance(lit, (ast.Tuple, ast.List)) or any(isinstance(y, ast.Starred) for y in lit.elts):
                raise AnalysisError(f"call `{norm(call)}` uses *{norm(x.value)}, which is not a literal sequence (or a local bound once to one): cannot bind arguments")
            args.extend(lit.elts)
        else:
            args.append(x)
    keywords: list[tuple[str, ast.AST]] = []
    for k in call.keywords:
        if k.arg is None:
            lit = _literal_behind(k.value, call)
            pairs: list[tuple[str, ast.AST]] | None = None
            if isinstance(lit, ast.Dict) and all(isinstance(kk, ast.Constant) and isinstance(kk.value, str) for kk in lit.keys):
                pairs = [(kk.value, v) for kk, v in zip(lit.keys, lit.values)]  # type: ignore[union-attr]
            elif isinstance(lit, ast.Call) and dotted(lit.func) == "dict" and not lit.args and all(kk.arg is not None for kk in lit.keywords):
                pairs = [(kk.arg, kk.value) for kk in lit.keywords]  # type: ignore[misc]
            elif isinstance(lit, ast.DictComp):
                pairs = _unrolled_dictcomp(lit, fold)
            if pairs is None or len({n for n, _ in pairs}) != len(pairs):
                raise AnalysisError(f"call `{norm(call)}` uses **{norm(k.value)}, which is not a literal table of keyword arguments (or a local bound once to one): cannot bind arguments")
            keywords.extend(pairs)
        else:
            keywords.append((k.arg, k.value))
    pos = call_params(fi, bound)
    out: dict[str, ast.AST] = {}
    for i, x in enumerate(args):
        if i >= len(pos):
            raise AnalysisError(f"call `{norm(call)}` passes more positional arguments than {fi.fq} takes")
        out[pos[i]] = x
    kwonly = [x.arg for x in fi.node.args.kwonlyargs]  # type: ignore[attr-defined]
    for name, v in keywords:
        if name not in pos and name not in kwonly:
            raise AnalysisError(f"call `{norm(call)}`: {fi.fq} has no parameter `{name}`")
        if name in out:
            raise AnalysisError(f"call `{norm(call)}` passes `{name}` twice")
        out[name] = v
    return out


class _FoldStr(ast.NodeTransformer):
    """folds string expressions over constants: f-strings, `+`, and the pure str methods of a constant receiver"""

    _METHODS = {"upper", "lower", "title", "capitalize", "strip", "replace", "removeprefix", "removesuffix", "format"}

    def __init__(self, env: dict[str, t.Any]):
        self.env = env

    def visit_Name(self, n: ast.Name) -> ast.AST:
        if isinstance(n.ctx, ast.Load) and n.id in self.env:
            return ast.copy_location(ast.Constant(self.env[n.id]), n)
        return n

    def visit_JoinedStr(self, n: ast.JoinedStr) -> ast.AST:
        self.generic_visit(n)
        parts = []
        for v in n.values:
            if isinstance(v, ast.Constant) and isinstance(v.value, str):
                parts.append(v.value)
            elif isinstance(v, ast.FormattedValue) and v.conversion == -1 and v.format_spec is None and isinstance(v.value, ast.Constant) and isinstance(v.value.value, (str, int)) and not isinstance(v.value.value, bool):
                parts.append(str(v.value.value))
            else:
                return n
        return ast.copy_location(ast.Constant("".join(parts)), n)

    def visit_BinOp(self, n: ast.BinOp) -> ast.AST:
        self.generic_visit(n)
        if isinstance(n.op, ast.Add) and all(isinstance(x, ast.Constant) and isinstance(x.value, str) for x in (n.left, n.right)):
            return ast.copy_location(ast.Constant(n.left.value + n.right.value), n)  # type: ignore[attr-defined]
        return n

    def visit_Call(self, n: ast.Call) -> ast.AST:
        self.generic_visit(n)
        f = n.func
        if isinstance(f, ast.Attribute) and f.attr in self._METHODS and isinstance(f.value, ast.Constant) and isinstance(f.value.value, str) and not n.keywords and all(isinstance(a, ast.Constant) and isinstance(a.value, (str, int)) for a in n.args):
            try:
                return ast.copy_location(ast.Constant(getattr(f.value.value, f.attr)(*[a.value for a in n.args])), n)  # type: ignore[attr-defined]
            except (TypeError, ValueError, IndexError, KeyError):
                return n
        return n


def _const_iterable(it: ast.AST, fold: t.Callable[[ast.AST], t.Any] | None) -> ast.AST | None:
    """the iterable of a comprehension as a literal tuple of constants: the literal itself, or - with ``fold`` - a
    constant table (module-level name, ``TABLE.items()`` / ``.keys()`` / ``.values()`` of a constant dict) written out"""
    if isinstance(it, (ast.Tuple, ast.List)):
        return it
    if fold is None:
        return None
    try:
        if isinstance(it, ast.Call) and isinstance(it.func, ast.Attribute) and it.func.attr in ("items", "keys", "values") and not it.args and not it.keywords:
            d = fold(it.func.value)
            if not isinstance(d, dict):
                return None
            val: t.Any = list(getattr(d, it.func.attr)())
        else:
            val = fold(it)
            if isinstance(val, dict):
                val = list(val)
        if not isinstance(val, (list, tuple)):
            return None
        lit = ast.parse(repr(tuple(val)), mode="eval").body
    except (AnalysisError, SyntaxError, ValueError):
        return None
    return lit if isinstance(lit, ast.Tuple) else None


def _unrolled_dictcomp(e: ast.DictComp, fold: t.Callable[[ast.AST], t.Any] | None = None) -> list[tuple[str, ast.AST]] | None:
    """``{f(k): g(k) for k in (<constants>)}`` written out: one (key, value expression) per constant, with the loop
    variable replaced and constant string expressions folded.  None when the table is not of that form."""
    import copy

    if len(e.generators) != 1:
        return None
    g = e.generators[0]
    it = _const_iterable(g.iter, fold)
    if g.ifs or g.is_async or it is None:
        return None
    out: list[tuple[str, ast.AST]] = []
    for el in it.elts:  # type: ignore[attr-defined]
        env: dict[str, t.Any] = {}
        if isinstance(g.target, ast.Name) and isinstance(el, ast.Constant):
            env[g.target.id] = el.value
        elif isinstance(g.target, ast.Tuple) and isinstance(el, ast.Tuple) and len(el.elts) == len(g.target.elts) and all(isinstance(a, ast.Name) and isinstance(b, ast.Constant) for a, b in zip(g.target.elts, el.elts)):
            env = {a.id: b.value for a, b in zip(g.target.elts, el.elts)}  # type: ignore[attr-defined]
        else:
            return None
        k = _FoldStr(env).visit(copy.deepcopy(e.key))
        v = ast.fix_missing_locations(_FoldStr(env).visit(copy.deepcopy(e.value)))
        if not (isinstance(k, ast.Constant) and isinstance(k.value, str)):
            return None
        for ch in ast.walk(v):
            for c2 in ast.iter_child_nodes(ch):
                c2._parent = ch  # type: ignore[attr-defined]
        out.append((k.value, v))
    return out


def _literal_behind(e: ast.AST, use: ast.AST) -> ast.AST | None:
    """the literal a `*x` / `**x` argument stands for: the expression itself, or - for a local name - the value of its
    only binding, provided the name occurs nowhere else in the function (so nothing is added to / removed from the
    table between its creation and the call).  None when that cannot be established."""
    if not isinstance(e, ast.Name):
        return e
    fn = getattr(use, "_parent", None)
    while fn is not None and not isinstance(fn, (ast.FunctionDef, ast.AsyncFunctionDef, ast.Lambda)):
        fn = getattr(fn, "_parent", None)
    if fn is None:
        return None
    value = None
    for n in walk_no_nested(fn):
        if isinstance(n, ast.Name) and n.id == e.id and n is not e:
            par = getattr(n, "_parent", None)
            if isinstance(n.ctx, ast.Store) and value is None and isinstance(par, (ast.Assign, ast.AnnAssign)) and (par.targets == [n] if isinstance(par, ast.Assign) else par.target is n) and par.value is not None:
                value = par.value
            else:
                return None
    return value


def param_default(fi: FuncInfo, name: str) -> ast.AST | None:
    a = fi.node.args  # type: ignore[attr-defined]
    pos = a.posonlyargs + a.args
    for p, d in zip(pos[len(pos) - len(a.defaults):], a.defaults):
        if p.arg == name:
            return d
    for p, d in zip(a.kwonlyargs, a.kw_defaults):
        if p.arg == name:
            return d
    return None


# ---------------------------------------------------------------------
# boolean paths of small predicate functions


class _BoolReturns(ast.NodeTransformer):
    def __init__(self) -> None:
        self.depth = 0

    def visit_FunctionDef(self, node: ast.FunctionDef) -> ast.AST:
        if self.depth:
            return node
        self.depth += 1
        self.generic_visit(node)
        self.depth -= 1
        return node

    def visit_Lambda(self, node: ast.Lambda) -> ast.AST:
        return node

    def visit_Return(self, node: ast.Return) -> ast.AST:
        v = node.value
        if v is None or isinstance(v, ast.Constant):
            return node
        if isinstance(v, ast.IfExp):  # return a if c else b  ==  if c: return a / else: return b
            return ast.If(test=self.visit(v.test), body=[self.visit_Return(ast.Return(value=v.body))], orelse=[self.visit_Return(ast.Return(value=v.orelse))])
        if isinstance(v, ast.Call) and dotted(v.func) == "bool" and len(v.args) == 1 and not v.keywords:
            v = v.args[0]
        test = self.visit(v)
        return ast.If(test=test, body=[ast.Return(value=ast.Constant(value=True))], orelse=[ast.Return(value=ast.Constant(value=False))])

    def visit_Compare(self, node: ast.Compare) -> ast.AST:
        self.generic_visit(node)
        if len(node.ops) == 1:
            return node
        if not all(isinstance(c, (ast.Name, ast.Constant, ast.Attribute)) for c in node.comparators[:-1]):
            return node
        parts: list[ast.expr] = []
        left = node.left
        for op, c in zip(node.ops, node.comparators):
            parts.append(ast.Compare(left=left, ops=[op], comparators=[c]))
            left = c
        return ast.BoolOp(op=ast.And(), values=parts)


class BoolPath(t.NamedTuple):
    literals: tuple[tuple[ast.AST, str], ...]  # (condition atom, "T"/"F")
    result: t.Any  # True / False / "raise" / "other"


class _InlineFlags(ast.NodeTransformer):
    """``flag = <expr>`` ... ``if flag`` -> ``if <expr>`` in a loop-free function: a local bound exactly once, by a plain
    assignment at statement level, to an expression whose names are not rebound afterwards, stands for that expression
    wherever it is read (its defining statement stays; the paths are enumerated over conditions, not over names)."""

    def __init__(self, fn: ast.AST):
        stores: dict[str, list[ast.AST]] = {}
        for n in ast.walk(fn):
            if isinstance(n, ast.Name) and isinstance(n.ctx, (ast.Store, ast.Del)):
                stores.setdefault(n.id, []).append(n)
            elif isinstance(n, ast.arg):
                stores.setdefault(n.arg, []).append(n)
        self.flags: dict[str, ast.AST] = {}
        for n in ast.walk(fn):
            if isinstance(n, ast.Assign) and len(n.targets) == 1 and isinstance(n.targets[0], ast.Name) and len(stores.get(n.targets[0].id, ())) == 1:
                v = n.value
                if not (isinstance(v, (ast.Compare, ast.BoolOp)) or (isinstance(v, ast.UnaryOp) and isinstance(v.op, ast.Not)) or (isinstance(v, ast.Call) and dotted(v.func) == "bool")):
                    continue  # only values that are truth values by their form
                if any(isinstance(x, (ast.NamedExpr, ast.Yield, ast.YieldFrom, ast.Await, ast.Lambda)) for x in ast.walk(v)):
                    continue
                later = any(getattr(x, "lineno", 0) > n.lineno or (getattr(x, "lineno", 0) == n.lineno and x is not n.targets[0] and getattr(x, "col_offset", 0) > n.col_offset) for nm in ast.walk(v) if isinstance(nm, ast.Name) for x in stores.get(nm.id, ()))
                if not later:
                    self.flags[n.targets[0].id] = v
        self.depth = 0

    def visit_Name(self, n: ast.Name) -> ast.AST:
        if isinstance(n.ctx, ast.Load) and n.id in self.flags and self.depth < 8:
            import copy

            self.depth += 1
            try:
                return self.visit(copy.deepcopy(self.flags[n.id]))
            finally:
                self.depth -= 1
        return n


def bool_paths(fn: ast.AST, what: str) -> list[BoolPath]:
    """every acyclic path of a loop-free predicate function as (branch literals, returned truth value).
    ``return <expr>`` counts as ``if <expr>: return True / else: return False``; ``a <= b < c`` as a conjunction."""
    if any(isinstance(n, (ast.For, ast.While, ast.AsyncFor, ast.Try)) for n in walk_no_nested(fn)):
        raise AnalysisError(f"{what}: predicate has loops / try, boolean path enumeration not applicable")
    tree = ast.parse(ast.unparse(fn))
    f2 = tree.body[0]
    f2.decorator_list = []  # type: ignore[attr-defined]
    f2 = _InlineFlags(f2).visit(f2)
    f2 = _BoolReturns().visit(f2)
    ast.fix_missing_locations(f2)
    cfg = CFG(f2)
    raw = cfg.acyclic_paths(limit=4000)
    if len(raw) >= 4000:
        raise AnalysisError(f"{what}: too many paths")
    out: list[BoolPath] = []
    for p in raw:
        lits = tuple((n.ast, l) for n, l in p if n.kind == "test" and l in ("T", "F") and n.ast is not None)
        end = p[-1][0]
        if end is cfg.raise_exit:
            out.append(BoolPath(lits, "raise"))
            continue
        last = None
        for n, _ in reversed(p[:-1]):
            if n.kind == "stmt":
                last = n.ast
                break
        if isinstance(last, ast.Return) and isinstance(last.value, ast.Constant) and isinstance(last.value.value, bool):
            out.append(BoolPath(lits, last.value.value))
        elif isinstance(last, ast.Return) and (last.value is None or (isinstance(last.value, ast.Constant) and last.value.value is None)):
            out.append(BoolPath(lits, False))
        else:
            out.append(BoolPath(lits, "other"))
    return out


# ---------------------------------------------------------------------
# order facts


def _key(e: ast.AST, rename: dict[str, str | None] | None) -> str | None:
    if isinstance(e, ast.Name):
        if rename is not None:
            return rename.get(e.id)
        return e.id
    if isinstance(e, ast.Constant) and isinstance(e.value, int) and not isinstance(e.value, bool):
        return f"#{e.value}"
    if isinstance(e, ast.UnaryOp) and isinstance(e.op, ast.USub) and isinstance(e.operand, ast.Constant) and isinstance(e.operand.value, int):
        return f"#{-e.operand.value}"
    return None


Fact = t.Tuple[str, str, str]  # (a, "<" | "<=", b)


def order_facts(atom: ast.AST, label: str, rename: dict[str, str | None] | None = None) -> set[Fact]:
    """what an edge of a two-operand ordering comparison establishes, as a < b / a <= b over names and int constants."""
    if isinstance(atom, ast.Compare) and len(atom.ops) > 1:
        if label != "T":
            return set()
        out: set[Fact] = set()
        left = atom.left
        for op_, c in zip(atom.ops, atom.comparators):
            out |= order_facts(ast.Compare(left=left, ops=[op_], comparators=[c]), "T", rename)
            left = c
        return out
    p = astq.cmp_parts(atom)
    if p is None:
        return set()
    a, op, b = p
    ka, kb = _key(a, rename), _key(b, rename)
    if ka is None or kb is None:
        return set()
    if isinstance(op, ast.Lt):
        f = (ka, "<", kb)
    elif isinstance(op, ast.LtE):
        f = (ka, "<=", kb)
    elif isinstance(op, ast.Gt):
        f = (kb, "<", ka)
    elif isinstance(op, ast.GtE):
        f = (kb, "<=", ka)
    else:
        return set()
    if label == "F":
        x, rel, y = f
        f = (y, "<=" if rel == "<" else "<", x)
    return {f}


def has_less(facts: set[Fact], a: str, b: str, strict: bool) -> bool:
    if (a, "<", b) in facts:
        return True
    return (not strict) and (a, "<=", b) in facts


def has_nonneg(facts: set[Fact], a: str) -> bool:
    """0 <= a follows from one of the facts (integers)."""
    for x, rel, y in facts:
        if y == a and x.startswith("#"):
            k = int(x[1:])
            if (rel == "<=" and k >= 0) or (rel == "<" and k >= -1):
                return True
    return False


def none_proving(atom: ast.AST, label: str) -> str | None:
    """name that is known to be None (or falsy) after taking this edge."""
    if isinstance(atom, ast.Name):
        return atom.id if label == "F" else None
    p = astq.cmp_parts(atom)
    if p is None:
        return None
    a, op, b = p
    if isinstance(a, ast.NamedExpr) and isinstance(a.target, ast.Name):  # (v := f()) is None: a test of v
        a = a.target
    if isinstance(a, ast.Name) and astq.is_none(b):
        if isinstance(op, ast.Is) and label == "T":
            return a.id
        if isinstance(op, ast.IsNot) and label == "F":
            return a.id
    return None


# ---------------------------------------------------------------------
# misc AST shapes


def split_ifexp(e: ast.AST | None, conds: tuple = (), lookup: t.Callable[[ast.Name], ast.AST | None] | None = None) -> list[tuple[ast.AST | None, tuple]]:
    """``a if c else b`` -> [(a, ((c, "T"),)), (b, ((c, "F"),))] (nested, `not c` folded into the label; a two-entry
    table indexed by a truth value, ``{True: a, False: b}[bool(c)]`` / ``(b, a)[bool(c)]``, is the same choice); anything
    else -> [(e, ())].  The conditions are single atoms or whole and/or expressions (callers that need atoms use
    ``cond_atoms``)."""
    if isinstance(e, ast.IfExp):
        t_, n = strip_not(e.test)
        lt, lf = ("T", "F") if n % 2 == 0 else ("F", "T")
        return split_ifexp(e.body, conds + ((t_, lt),), lookup) + split_ifexp(e.orelse, conds + ((t_, lf),), lookup)
    tw = two_way_table(e, lookup)
    if tw is not None:
        sel, on_true, on_false = tw
        t_, n = strip_not(sel)
        lt, lf = ("T", "F") if n % 2 == 0 else ("F", "T")
        return split_ifexp(on_true, conds + ((t_, lt),), lookup) + split_ifexp(on_false, conds + ((t_, lf),), lookup)
    return [(e, conds)]


def truth_selector(e: ast.AST) -> ast.AST | None:
    """X when the expression's value is the *truth value* of X (so it can index a two-entry table): bool(X), not X,
    a comparison; None for anything that may be another kind of value."""
    if isinstance(e, ast.Call) and dotted(e.func) == "bool" and len(e.args) == 1 and not e.keywords:
        return e.args[0]
    if isinstance(e, ast.UnaryOp) and isinstance(e.op, ast.Not):
        return e
    if isinstance(e, ast.Compare):
        return e
    if isinstance(e, ast.Call) and dotted(e.func) == "int" and len(e.args) == 1 and not e.keywords:
        return truth_selector(e.args[0])
    return None


def two_way_table(e: ast.AST | None, lookup: t.Callable[[ast.Name], ast.AST | None] | None = None) -> tuple[ast.AST, ast.AST, ast.AST] | None:
    """``{True: a, False: b}[sel]`` / ``(b, a)[sel]`` / ``[b, a][sel]`` with ``sel`` a truth value (see
    truth_selector) -> (X, a, b): the same choice as ``a if X else b``.  The table may be a literal, or a name that
    ``lookup`` turns into its literal (a local bound once, a module constant)."""
    if not isinstance(e, ast.Subscript):
        return None
    sel = truth_selector(e.slice)
    if sel is None:
        return None
    tab = e.value
    if isinstance(tab, ast.Name) and lookup is not None:
        tab = lookup(tab)
    if isinstance(tab, ast.Dict) and len(tab.keys) == 2 and all(isinstance(k, ast.Constant) and isinstance(k.value, bool) for k in tab.keys):
        by = {k.value: v for k, v in zip(tab.keys, tab.values)}  # type: ignore[union-attr]
        if set(by) == {True, False}:
            return sel, by[True], by[False]
    if isinstance(tab, (ast.Tuple, ast.List)) and len(tab.elts) == 2 and not any(isinstance(x, ast.Starred) for x in tab.elts):
        return sel, tab.elts[1], tab.elts[0]
    return None


def cond_atoms(test: ast.AST, label: str) -> list[tuple[ast.AST, str]]:
    """atoms whose edge is certainly taken when `test` evaluates to `label`: a true conjunction makes every conjunct
    true, a false disjunction makes every disjunct false; otherwise only the (un-negated) test itself."""
    e, n = strip_not(test)
    if n % 2:
        label = flip(label)
    if isinstance(e, ast.BoolOp) and ((isinstance(e.op, ast.And) and label == "T") or (isinstance(e.op, ast.Or) and label == "F")):
        out: list[tuple[ast.AST, str]] = []
        for v in e.values:
            out += cond_atoms(v, label)
        return out
    if isinstance(e, ast.Compare) and len(e.ops) > 1 and label == "T" and all(isinstance(c, (ast.Name, ast.Constant, ast.Attribute)) for c in e.comparators[:-1]):
        out = []
        left = e.left
        for op_, c in zip(e.ops, e.comparators):
            out.append((ast.copy_location(ast.Compare(left=left, ops=[op_], comparators=[c]), e), "T"))
            left = c
        return out
    return [(e, label)]


def _bool_const(e: ast.AST | None) -> bool | None:
    return e.value if isinstance(e, ast.Constant) and isinstance(e.value, bool) else None


def truth_core(e: ast.AST) -> tuple[ast.AST, bool] | None:
    """(X, same polarity) when the truth value of ``e`` is the truth value of X (or its negation) by the form of the
    expression alone: ``bool(X)``, ``(n := X)``, ``True if X else False`` / ``False if X else True``,
    ``X is True`` / ``X is not False`` / ``X == True`` ... with X itself a truth value (see truth_selector)."""
    if isinstance(e, ast.Call) and dotted(e.func) == "bool" and len(e.args) == 1 and not e.keywords and not isinstance(e.args[0], ast.Starred):
        return e.args[0], True
    if isinstance(e, ast.NamedExpr):
        return e.value, True
    if isinstance(e, ast.IfExp):
        a, b = _bool_const(e.body), _bool_const(e.orelse)
        if a is not None and b is not None and a != b:
            return e.test, a
    if isinstance(e, ast.Compare) and len(e.ops) == 1 and isinstance(e.ops[0], (ast.Is, ast.IsNot, ast.Eq, ast.NotEq)):
        for x, c in ((e.left, e.comparators[0]), (e.comparators[0], e.left)):
            k = _bool_const(c)
            if k is not None and truth_selector(x) is not None:
                return x, k == isinstance(e.ops[0], (ast.Is, ast.Eq))
    return None


def expand_literal(A: FA, e: ast.AST, label: str, depth: int = 0, keep: t.Callable[[ast.Name], bool] | None = None) -> list[tuple[ast.AST, str]]:
    """the condition literals that certainly hold when ``e`` evaluates to ``label``, with *flags expanded to what they
    test*: a local bound once (wherever: before the enclosing ifs, in another branch that dominates) stands for its
    defining expression, ``bool(X)`` / a walrus / ``True if X else False`` for X, a negation flips the label, a true
    conjunction / false disjunction gives each member.  A name that is not such a flag (parameter, several bindings)
    and everything else stays as the literal it is; so does a name that ``keep`` asks to keep (the variable a caller
    is asking about is not to be replaced by the call it was bound to)."""
    out: list[tuple[ast.AST, str]] = []
    for a, l in cond_atoms(e, label):
        if depth < 8:
            if isinstance(a, ast.Name) and not (keep is not None and keep(a)):
                try:
                    v = A.single_value(a)
                except AnalysisError:
                    v = None
                if v is not None:
                    out += expand_literal(A, v, l, depth + 1, keep)
                    continue
            tc = truth_core(a)
            if tc is not None:
                out += expand_literal(A, tc[0], l if tc[1] else flip(l), depth + 1, keep)
                continue
        out.append((a, l))
    return out


def guard_literals(A: FA, at: ast.AST | Node, extra: t.Iterable[tuple[ast.AST, str]] = ()) -> list[tuple[ast.AST, str]]:
    """expanded literals (see expand_literal) of every test edge dominating ``at`` plus the given extra conditions."""
    out: list[tuple[ast.AST, str]] = []
    for t_, l in A.guards(at):
        if t_.ast is None:
            continue
        out += expand_literal(A, t_.ast, l) if t_.kind == "test" else [(t_.ast, l)]
    for e_, l in extra:
        out += expand_literal(A, e_, l)
    return out


def truth_leaves(A: FA, e: ast.AST, depth: int = 0) -> list[ast.AST]:
    """the expressions whose truth values the truth of ``e`` is a boolean function of (and / or / not, flags and
    bool() looked through)."""
    e, _ = strip_not(e)
    if depth < 8:
        if isinstance(e, ast.BoolOp):
            return [x for v in e.values for x in truth_leaves(A, v, depth + 1)]
        if isinstance(e, ast.Name):
            try:
                v = A.single_value(e)
            except AnalysisError:
                v = None
            if v is not None:
                return truth_leaves(A, v, depth + 1)
        tc = truth_core(e)
        if tc is not None:
            return truth_leaves(A, tc[0], depth + 1)
    return [e]


def misread(A: FA, lits: t.Iterable[tuple[ast.AST, str]], is_target: t.Callable[[ast.AST], bool], about: t.Callable[[ast.AST], bool] | None = None) -> ast.AST | None:
    """a condition among ``lits`` that depends on the target value through something other than its truth (compared,
    passed on, indexed ...): such a guard is *not understood*, which callers must not report as "not guarded"."""
    for e_, _l in lits:
        for leaf in truth_leaves(A, e_):
            if not is_target(leaf) and mentions(A, leaf, about or is_target):
                return leaf
    return None


def guard_literals_at(A: FA, at: ast.AST | Node, extra: t.Iterable[tuple[ast.AST, str]] = ()) -> list[tuple[ast.AST, str, Node]]:
    """guard_literals, each with the CFG node in which the literal's expression is *evaluated*: the test itself, or the
    statement that binds the flag it was expanded from (facts about names are facts about the bindings visible there)."""
    n0 = at if isinstance(at, Node) else A.node(at)
    out: list[tuple[ast.AST, str, Node]] = []
    for t_, l in A.guards(n0):
        if t_.ast is None:
            continue
        if t_.kind != "test":
            out.append((t_.ast, l, t_))
            continue
        for e_, l2 in expand_literal(A, t_.ast, l):
            out.append((e_, l2, A.cfg.node_of(e_) or t_))
    for e_, l in extra:
        for e2, l2 in expand_literal(A, e_, l):
            out.append((e2, l2, A.cfg.node_of(e2) or n0))
    return out


def proving_edges(A: FA, pred: t.Callable[[ast.AST, str, Node], bool]) -> list[tuple[Node, str]]:
    """test edges (node, label) one of whose expanded literals (literal, label, node of evaluation) satisfies ``pred``."""
    out = []
    for t_ in A.cfg.tests():
        if t_.kind != "test" or t_.ast is None:
            continue
        for l in ("T", "F"):
            if any(pred(e_, l2, A.cfg.node_of(e_) or t_) for e_, l2 in expand_literal(A, t_.ast, l)):
                out.append((t_, l))
    return out


def mentions(A: FA, e: ast.AST, pred: t.Callable[[ast.AST], bool], depth: int = 0) -> bool:
    """``pred`` holds for a sub-expression of ``e``, looking through locals bound once."""
    for x in ast.walk(e):
        if pred(x):
            return True
        if isinstance(x, ast.Name) and isinstance(x.ctx, ast.Load) and depth < 6:
            try:
                v = A.single_value(x)
            except AnalysisError:
                v = None
            if v is not None and mentions(A, v, pred, depth + 1):
                return True
    return False


def expand_returns(fn: ast.AST) -> list[tuple[ast.Return, ast.AST | None, list[tuple[ast.AST, str]]]]:
    """(return statement, returned expression, extra condition atoms) with conditional expressions in the returned
    value split into one entry per arm."""
    out = []
    for r in astq.returns_of(fn):
        for v, conds in split_ifexp(r.value):
            atoms: list[tuple[ast.AST, str]] = []
            for c, l in conds:
                atoms += cond_atoms(c, l)
            out.append((r, v, atoms))
    return out


def header_get_key(e: ast.AST, lookup: t.Callable[[ast.Name], ast.AST | None] | None = None) -> tuple[str, str] | None:
    """``X.get("k")`` / ``X["k"]`` -> (text of X, k); with ``lookup`` (name use -> the expression it was bound to) also
    ``get("k")`` after ``get = X.get``."""
    f = e.func if isinstance(e, ast.Call) else None
    if isinstance(f, ast.Name) and lookup is not None:
        f = lookup(f) or f
    def recv(x: ast.AST) -> str:
        if isinstance(x, ast.Name) and lookup is not None:  # headers = self.headers; headers.get("etag")
            v = lookup(x)
            if v is not None and dotted(v) is not None:
                return norm(v)
        return norm(x)

    if isinstance(e, ast.Call) and isinstance(f, ast.Attribute) and f.attr == "get" and e.args:
        k = astq.const_str(e.args[0])
        if k is not None:
            return recv(f.value), k
    if isinstance(e, ast.Subscript):
        k = astq.const_str(e.slice)
        if k is not None:
            return recv(e.value), k
    return None


def subscript_const(e: ast.AST) -> tuple[ast.AST, int] | None:
    if isinstance(e, ast.Subscript) and isinstance(e.slice, ast.Constant) and isinstance(e.slice.value, int):
        return e.value, e.slice.value
    return None


def strip_not(e: ast.AST) -> tuple[ast.AST, int]:
    n = 0
    while isinstance(e, ast.UnaryOp) and isinstance(e.op, ast.Not):
        e = e.operand
        n += 1
    return e, n


def self_attr_stores(fn: ast.AST, attr: str) -> list[ast.stmt]:
    out = []
    for s in walk_no_nested(fn):
        if isinstance(s, ast.Assign):
            tg = s.targets
        elif isinstance(s, (ast.AugAssign, ast.AnnAssign)):
            tg = [s.target]
        else:
            continue
        if any(astq.is_self_attr(x, attr) for x in tg):
            out.append(s)
    out.sort(key=lambda s: s.lineno)
    return out


def class_of(repo: Repo, fq: str) -> ClassInfo:
    c = repo.try_cls(repo.canonical(fq))
    if c is None:
        raise AnalysisError(f"class {fq} not found")
    return c


# ---------------------------------------------------------------------
# truth table of sansio is_resource_modified: its CFG is executed with every condition as an abstract boolean
#
# Conditions are classified by MEANING after copy propagation of locals (a local bound to parse_etags(<header>) is that
# parse, whatever its name): presence of the response ETag, the If-Range gate (ignore_if_range, Range sent, parsed
# If-Range carries a tag), "<parsed header> is non-empty", "<parsed header>.<method>(etag)".  Every other condition
# (the date tests, isinstance checks ...) is a free boolean.  Locals that hold truth values (the verdict) are carried
# as concrete True / False, so plain assignment, conditional set, conditional expression, augmented assignment and
# early return of the same function give the same table.

_PURE = {
    "werkzeug.http.parse_etags": "parse_etags",
    "werkzeug.http.parse_if_range_header": "parse_if_range_header",
    "werkzeug.http.generate_etag": "generate_etag",
}
_HEADER_ROLE = {"http_if_match": "IM", "http_if_none_match": "INM", "http_if_range": "IFR"}
_ROLE_NAME = {"IM": "If-Match", "INM": "If-None-Match", "IFR": "If-Range tag"}


class TableOutcome(t.NamedTuple):
    val: dict  # atom id -> truth value, for every atom consulted on the path
    result: bool  # truth value of the returned expression
    ret: ast.Return


class Mismatch(t.NamedTuple):
    role: str
    outcome: TableOutcome
    row: dict  # the completed valuation
    expected: bool  # required truth value of "not modified"


class VerdictTable:
    """symbolic execution of one loop-free function whose result is the (negated) verdict."""

    LIMIT = 400000

    def __init__(self, A: FA):
        self.A = A
        self.fq = A.fi.fq
        self.params = set(A.fi.params)
        self.steps = 0
        self.outcomes: list[TableOutcome] = []
        self.site_roles: dict[int, set[str]] = {}  # id(parse_etags call in the source) -> validators it parses on the paths
        # does parse_if_range_header ever return None?  (`if_range is None` is infeasible for a parsed header if not)
        self.ifr_never_none = False
        pf = A.repo.try_func("werkzeug.http.parse_if_range_header")
        if pf is not None:
            rets = astq.returns_of(pf.node)
            self.ifr_never_none = bool(rets) and all(isinstance(r.value, ast.Call) for r in rets)
        # is a parsed If-Range always truthy?  (`if if_range:` then means `if_range is not None`)
        self.ifr_always_truthy = False
        try:
            ic = A.repo.try_cls(A.repo.canonical("werkzeug.datastructures.range.IfRange"))
        except AnalysisError:
            ic = None
        if ic is not None and not ic.base_exprs and not ({"__bool__", "__len__"} & set(ic.methods)):
            self.ifr_always_truthy = True
        self._run()

    # -- closing expressions over the environment ----------------------------------------
    def close(self, e: ast.AST, env: dict) -> ast.AST:
        A = self.A

        def go(x: ast.AST) -> ast.AST:
            if isinstance(x, ast.Name):
                if x.id in env:
                    return env[x.id]  # closed values are never mutated, sharing is safe
                return ast.Name(id=x.id, ctx=ast.Load())
            if isinstance(x, ast.Call):
                fq = A.resolve(x.func)
                func = ast.Name(id=_PURE[fq], ctx=ast.Load()) if fq in _PURE else go(x.func)
                new = ast.Call(func=func, args=[go(a) for a in x.args], keywords=[ast.keyword(arg=k.arg, value=go(k.value)) for k in x.keywords])
                if fq == "werkzeug.http.parse_etags":
                    r = self._tags_role(new)
                    if r is not None:
                        self.site_roles.setdefault(id(x), set()).add(r)
                return new
            if isinstance(x, (ast.Lambda, ast.ListComp, ast.SetComp, ast.DictComp, ast.GeneratorExp)):
                return x
            new = x.__class__()
            for f, v in ast.iter_fields(x):
                if isinstance(v, ast.AST):
                    v = go(v)
                elif isinstance(v, list):
                    v = [go(i) if isinstance(i, ast.AST) else i for i in v]
                setattr(new, f, v)
            return new

        return go(e)

    # -- recognising what a closed expression means ------------------------------------------
    def _param(self, e: ast.AST, name: str) -> bool:
        return isinstance(e, ast.Name) and e.id == name and name in self.params

    def _is_ifr(self, e: ast.AST) -> bool:
        return isinstance(e, ast.Call) and astq.is_name(e.func, "parse_if_range_header") and len(e.args) == 1 and not e.keywords and self._param(e.args[0], "http_if_range")

    def _tags_role(self, e: ast.AST) -> str | None:
        """role of a closed `parse_etags(<x>)`"""
        if not (isinstance(e, ast.Call) and astq.is_name(e.func, "parse_etags")):
            return None
        if len(e.args) != 1 or e.keywords:
            raise AnalysisError(f"{self.fq}: `{norm(e)}` is not a one-argument parse_etags call")
        x = e.args[0]
        for p, r in _HEADER_ROLE.items():
            if r != "IFR" and self._param(x, p):
                return r
        if isinstance(x, ast.Attribute) and x.attr == "etag" and self._is_ifr(x.value):
            return "IFR"
        raise AnalysisError(f"{self.fq}: cannot tell which validator `{norm(e)}` parses")

    def _subject(self, e: ast.AST) -> str | None:
        for p, s in (("etag", "etag"), ("ignore_if_range", "ign"), ("http_range", "rng"), ("data", "data"), ("http_if_match", "h_IM"), ("http_if_none_match", "h_INM"), ("http_if_range", "h_IFR")):
            if self._param(e, p):
                return s
        if self._is_ifr(e):
            return "ifr"
        if isinstance(e, ast.Attribute) and e.attr == "etag" and self._is_ifr(e.value):
            return "ifrtag"
        return None

    _KNOWN = {"etag_none", "etag_truthy", "ign_truthy", "rng_none", "rng_truthy", "data_none", "data_truthy", "ifr_none", "ifrtag_none"} | {f"h_{r}_{k}" for r in ("IM", "INM", "IFR") for k in ("none", "truthy")}

    def _cmp_call(self, c: ast.AST) -> tuple[str, str] | None:
        """closed `parse_etags(<x>).<method>(<arg>)` -> (role, method)"""
        if isinstance(c, ast.Call) and isinstance(c.func, ast.Attribute):
            r = self._tags_role(c.func.value)
            if r is not None:
                return r, c.func.attr
        return None

    def _sensitive(self, c: ast.AST) -> str | None:
        """a validator value inside an expression this table has no meaning for"""
        for x in ast.walk(c):
            if isinstance(x, ast.Call) and astq.is_name(x.func, "parse_etags"):
                return norm(x)
        return None

    def _sensitive_test(self, c: ast.AST) -> str | None:
        s = self._sensitive(c)
        if s is not None:
            return s
        skip: set[int] = set()
        for x in ast.walk(c):
            if isinstance(x, ast.Attribute) and x.attr == "date" and self._is_ifr(x.value):
                skip |= {id(y) for y in ast.walk(x)}
        for x in ast.walk(c):
            if id(x) in skip:
                continue
            if self._is_ifr(x):
                return norm(x)
            for p in ("etag", "ignore_if_range", "http_if_match", "http_if_none_match"):
                if self._param(x, p):
                    return p
        return None

    def classify(self, c: ast.AST) -> tuple[str, bool]:
        """closed condition -> ("const", value) | (atom id, positive)"""
        if isinstance(c, ast.Constant):
            return "const", bool(c.value)
        p = astq.cmp_parts(c)
        if p is not None and isinstance(p[1], (ast.Is, ast.IsNot, ast.Eq, ast.NotEq)) and (astq.is_none(p[0]) or astq.is_none(p[2])):
            subj = p[2] if astq.is_none(p[0]) else p[0]
            pos = isinstance(p[1], (ast.Is, ast.Eq))
            if isinstance(subj, ast.Constant):
                return "const", (subj.value is None) == pos
            sid = self._subject(subj)
            if sid is not None:
                return self._known(f"{sid}_none", c), pos
        else:
            sid = self._subject(c)
            if sid == "ifr" and self.ifr_always_truthy:
                return "ifr_none", False
            if sid is not None:
                return self._known(f"{sid}_truthy", c), True
            r = self._tags_role(c)
            if r is not None:
                return f"P_{r}", True
            rm = self._cmp_call(c)
            if rm is not None:
                return f"C_{rm[0]}.{rm[1]}", True
        s = self._sensitive_test(c)
        if s is not None:
            raise AnalysisError(f"{self.fq}: cannot interpret the condition `{norm(c)}` (it tests `{s}`) in terms of the validators")
        k, pos = canon(c)
        return "~" + k, pos

    def _known(self, aid: str, c: ast.AST) -> str:
        if aid not in self._KNOWN:
            raise AnalysisError(f"{self.fq}: cannot interpret the condition `{norm(c)}` in terms of the validators")
        return aid

    # -- consistency of a (partial) valuation -------------------------------------------------
    def consistent(self, v: dict) -> bool:
        def is_(k: str, b: bool) -> bool:
            return v.get(k) is b

        if is_("etag_none", True) and is_("etag_truthy", True):
            return False
        if is_("rng_none", True) and is_("rng_truthy", True):
            return False
        if self.ifr_never_none and is_("ifr_none", True):
            return False
        for r in ("IM", "INM", "IFR"):
            if is_(f"h_{r}_none", True) and is_(f"h_{r}_truthy", True):
                return False
            absent = is_(f"h_{r}_none", True) or is_(f"h_{r}_truthy", False)  # parse of no header: no tags
            if r == "IFR":
                if absent and is_("ifrtag_none", False):
                    return False
                absent = absent or is_("ifrtag_none", True)
            if absent and is_(f"P_{r}", True):
                return False
            if (absent or is_(f"P_{r}", False)) and any(x for k, x in v.items() if k.startswith(f"C_{r}.")):
                return False  # an empty ETags object (no tags, no star) contains nothing
        return True

    # -- evaluation ---------------------------------------------------------------------------
    def _tick(self) -> None:
        self.steps += 1
        if self.steps > self.LIMIT:
            raise AnalysisError(f"{self.fq}: too many paths for the verdict table")

    def truth(self, e: ast.AST, env: dict, val: dict, node: Node) -> list[tuple[bool, dict, dict]]:
        self._tick()
        if isinstance(e, ast.Constant):
            return [(bool(e.value), env, val)]
        if isinstance(e, ast.UnaryOp) and isinstance(e.op, ast.Not):
            return [(not b, en, va) for b, en, va in self.truth(e.operand, env, val, node)]
        if isinstance(e, ast.BoolOp):
            stop = isinstance(e.op, ast.Or)  # the value that short-circuits
            done: list[tuple[bool, dict, dict]] = []
            live = [(env, val)]
            for i, x in enumerate(e.values):
                nxt = []
                for en, va in live:
                    for b, en2, va2 in self.truth(x, en, va, node):
                        if b == stop or i == len(e.values) - 1:
                            done.append((b, en2, va2))
                        else:
                            nxt.append((en2, va2))
                live = nxt
            return done
        if isinstance(e, ast.IfExp):
            out = []
            for b, en, va in self.truth(e.test, env, val, node):
                out += self.truth(e.body if b else e.orelse, en, va, node)
            return out
        if isinstance(e, ast.NamedExpr) and isinstance(e.target, ast.Name):
            out = []
            for en, va in self.bind(e.target.id, e.value, env, val, node):
                out += self.truth(ast.Name(id=e.target.id, ctx=ast.Load()), en, va, node)
            return out
        if isinstance(e, ast.Call) and dotted(e.func) == "bool" and len(e.args) == 1 and not e.keywords:
            return self.truth(e.args[0], env, val, node)
        c = self.close(e, env)
        aid, pos = self.classify(c)
        if aid == "const":
            return [(pos, env, val)]
        if aid in val:
            return [(val[aid] == pos, env, val)]
        out = []
        for b in (True, False):
            v2 = dict(val)
            v2[aid] = b
            if self.consistent(v2):
                out.append((b == pos, env, v2))
        return out

    def _boolean_shaped(self, e: ast.AST, env: dict) -> bool:
        if isinstance(e, ast.Constant):
            return isinstance(e.value, bool)
        if isinstance(e, ast.UnaryOp) and isinstance(e.op, ast.Not):
            return True
        if isinstance(e, ast.Compare):
            return True
        if isinstance(e, ast.Call) and dotted(e.func) == "bool" and len(e.args) == 1 and not e.keywords:
            return True
        if isinstance(e, ast.BoolOp):
            return any(self._boolean_shaped(x, env) for x in e.values)
        if isinstance(e, ast.IfExp):
            return self._boolean_shaped(e.body, env) and self._boolean_shaped(e.orelse, env)
        if isinstance(e, ast.Name):
            v = env.get(e.id)
            return isinstance(v, ast.Constant) and isinstance(v.value, bool)
        if isinstance(e, ast.Call) and isinstance(e.func, ast.Attribute):
            c = self.close(e.func.value, env)
            return isinstance(c, ast.Call) and astq.is_name(c.func, "parse_etags")
        return False

    def _transparent(self, c: ast.AST) -> bool:
        if isinstance(c, (ast.Constant, ast.Name)):
            return True
        if isinstance(c, ast.Attribute):
            return self._transparent(c.value)
        if isinstance(c, ast.Call) and isinstance(c.func, ast.Name) and c.func.id in _PURE.values() and not c.keywords:
            return all(self._transparent(a) for a in c.args)
        return False

    def _opaque(self, name: str, node: Node, env: dict, value: ast.AST | None) -> dict:
        if value is not None:
            s = self._sensitive(self.close(value, env))
            if s is not None:
                raise AnalysisError(f"{self.fq}: cannot follow `{s}` through `{norm(node.ast)[:80]}`")
        en = dict(env)
        en[name] = ast.Name(id=f"{name}'{node.id}", ctx=ast.Load())
        return en

    def bind(self, name: str, value: ast.AST, env: dict, val: dict, node: Node) -> list[tuple[dict, dict]]:
        if self._boolean_shaped(value, env):
            out = []
            for b, en, va in self.truth(value, env, val, node):
                en = dict(en)
                en[name] = ast.Constant(value=b)
                out.append((en, va))
            return out
        if isinstance(value, ast.IfExp):
            out = []
            for b, en, va in self.truth(value.test, env, val, node):
                out += self.bind(name, value.body if b else value.orelse, en, va, node)
            return out
        if isinstance(value, ast.NamedExpr) and isinstance(value.target, ast.Name):
            out = []
            for en, va in self.bind(value.target.id, value.value, env, val, node):
                out += self.bind(name, ast.Name(id=value.target.id, ctx=ast.Load()), en, va, node)
            return out
        c = self.close(value, env)
        if self._transparent(c):
            en = dict(env)
            en[name] = c
            return [(en, val)]
        return [(self._opaque(name, node, env, value), val)]

    def _exec(self, node: Node, env: dict, val: dict) -> list[tuple[dict, dict]]:
        st = node.ast
        if isinstance(st, ast.Assign) and all(isinstance(tg, ast.Name) for tg in st.targets):
            states = [(env, val)]
            for tg in st.targets:
                states = [s2 for en, va in states for s2 in self.bind(tg.id, st.value, en, va, node)]  # type: ignore[attr-defined]
            return states
        if isinstance(st, ast.AnnAssign) and isinstance(st.target, ast.Name):
            if st.value is None:
                return [(env, val)]
            return self.bind(st.target.id, st.value, env, val, node)
        if isinstance(st, ast.AugAssign) and isinstance(st.target, ast.Name) and isinstance(st.op, (ast.BitOr, ast.BitAnd)):
            cur = env.get(st.target.id)
            if isinstance(cur, ast.Constant) and isinstance(cur.value, bool):
                comb = ast.BoolOp(op=ast.Or() if isinstance(st.op, ast.BitOr) else ast.And(), values=[ast.Constant(value=cur.value), ast.Call(func=ast.Name(id="bool", ctx=ast.Load()), args=[st.value], keywords=[])])
                # both operands of | and & are evaluated, but evaluation has no effect on the table's atoms
                return self.bind(st.target.id, comb, env, val, node)
        if isinstance(st, (ast.FunctionDef, ast.AsyncFunctionDef, ast.ClassDef)):
            return [(self._opaque(st.name, node, env, None), val)]
        value = getattr(st, "value", None) if isinstance(st, (ast.Assign, ast.AugAssign, ast.AnnAssign, ast.Expr)) else None
        en = env
        stored = [x.id for x in walk_no_nested(st) if isinstance(x, ast.Name) and isinstance(x.ctx, ast.Store)] if st is not None else []
        if stored:
            for nm in stored:
                en = self._opaque(nm, node, en, value)
        elif value is not None and not isinstance(st, ast.Expr):
            s = self._sensitive(self.close(value, env))
            if s is not None:
                raise AnalysisError(f"{self.fq}: cannot follow `{s}` through `{norm(st)[:80]}`")
        return [(en, val)]

    def _run(self) -> None:
        cfg = self.A.cfg
        # the property's callers pass data=None (R11.4 checks the two calls in Response)
        start_val = {"data_none": True, "data_truthy": False}
        stack: list[tuple[Node, dict, dict]] = [(cfg.entry, {}, start_val)]
        seen_out: set = set()
        while stack:
            n, env, val = stack.pop()
            self._tick()
            if n is cfg.exit:
                self._out(val, False, None, seen_out)  # fell off the end: returns None
                continue
            if n is cfg.raise_exit:
                continue
            if n.kind == "loop" or (n.kind == "join" and n.note == "while-head"):
                raise AnalysisError(f"{self.fq}: loop in the verdict function, the truth table is not applicable")
            if n.kind == "test":
                for b, en, va in self.truth(n.ast, env, val, n):
                    for s in cfg.succ(n, "T" if b else "F"):
                        stack.append((s, en, va))
                continue
            if n.kind == "stmt" and isinstance(n.ast, ast.Return):
                if n.ast.value is None:
                    self._out(val, False, n.ast, seen_out)
                else:
                    for b, _, va in self.truth(n.ast.value, env, val, n):
                        self._out(va, b, n.ast, seen_out)
                continue
            if n.kind == "stmt" and isinstance(n.ast, ast.Raise):
                continue
            states = self._exec(n, env, val) if n.kind == "stmt" else [(env, val)]
            for s, l in n.succs:
                if l in ("exc", "raise"):
                    continue
                for en, va in states:
                    stack.append((s, en, va))

    def _out(self, val: dict, result: bool, ret: ast.Return | None, seen: set) -> None:
        k = (frozenset(val.items()), result, id(ret))
        if k not in seen:
            seen.add(k)
            self.outcomes.append(TableOutcome(val, result, ret))  # type: ignore[arg-type]

    # -- the required table --------------------------------------------------------------------
    def _cmp_atom(self, v: dict, role: str) -> str:
        ks = sorted(k for k in v if k.startswith(f"C_{role}."))
        if len(ks) > 1:
            raise AnalysisError(f"{self.fq}: one path asks the {_ROLE_NAME[role]} tags with different predicates ({', '.join(k[2:] for k in ks)}): cannot relate them")
        return ks[0] if ks else f"C_{role}.?"

    def required(self, row: dict) -> tuple[str, bool] | None:
        """(deciding validator, required value of 'not modified') for a complete row; None: this table requires nothing
        (no ETag on the response, no ETag validator sent, or If-Match together with If-None-Match: outside the domain)."""
        if not row["etag_truthy"]:
            return None
        rng_sent = (not row["rng_none"]) if "rng_none" in row else row["rng_truthy"]
        gate = (not row["ign_truthy"]) and rng_sent and not row["ifr_none"] and not row["ifrtag_none"]
        if gate:
            return "IFR", row[self._cmp_atom(row, "IFR")]
        if row["P_IM"] and row["P_INM"]:
            return None
        if row["P_IM"]:
            return "IM", not row[self._cmp_atom(row, "IM")]
        if row["P_INM"]:
            return "INM", row[self._cmp_atom(row, "INM")]
        return None

    def check(self, modified_result: bool = True) -> tuple[dict[str, int], list[Mismatch]]:
        """compare every outcome, completed in every consistent way over the atoms its path did not consult, with the
        required table.  ``modified_result``: the function returns True for 'modified' (False: for 'not modified')."""
        rows = {"IM": 0, "INM": 0, "IFR": 0}
        bad: list[Mismatch] = []
        done: set = set()
        for o in self.outcomes:
            v = o.val
            if v.get("etag_truthy") is False:
                continue
            sem = (frozenset((k, b) for k, b in v.items() if not k.startswith("~")), o.result)
            if sem in done:  # the free conditions of the path do not enter the comparison: one witness per semantic row
                continue
            done.add(sem)
            need = ["etag_truthy", "ign_truthy", "ifr_none", "ifrtag_none", "P_IM", "P_INM"]
            if "rng_none" not in v and "rng_truthy" not in v:
                need.append("rng_none")
            need += [self._cmp_atom(v, r) for r in ("IM", "INM", "IFR")]
            free = [k for k in need if k not in v]
            unmodified = o.result != modified_result
            for bits in itertools.product((True, False), repeat=len(free)):
                row = dict(v)
                row.update(zip(free, bits))
                if not self.consistent(row):
                    continue
                req = self.required(row)
                if req is None:
                    continue
                rows[req[0]] += 1
                if req[1] != unmodified:
                    bad.append(Mismatch(req[0], o, row, req[1]))
        return rows, bad

    # -- reporting ----------------------------------------------------------------------------------
    _TEXT = {
        "etag_truthy": "the response has an ETag",
        "etag_none": "etag is None",
        "ign_truthy": "ignore_if_range",
        "rng_none": "no Range header",
        "rng_truthy": "Range header sent",
        "ifr_none": "parsed If-Range is None",
        "ifrtag_none": "If-Range carries no tag",
        "P_IM": "If-Match has tags",
        "P_INM": "If-None-Match has tags",
        "P_IFR": "If-Range tag parses to tags",
    }

    def describe(self, m: Mismatch) -> str:
        """the row in words: the validator atoms the path consulted, and the free conditions on which the answer
        hinges (those that differ from the nearest path with the same validator atoms and the other answer)."""
        v = m.outcome.val

        def sem(o: TableOutcome) -> frozenset:
            return frozenset((k, b) for k, b in o.val.items() if not k.startswith("~"))

        mine = sem(m.outcome)
        hinge: dict | None = None
        for o in self.outcomes:
            if o.result != m.outcome.result and sem(o) == mine:
                d = {k: v[k] for k in v if k.startswith("~") and o.val.get(k) is not v[k]}
                if hinge is None or len(d) < len(hinge):
                    hinge = d
        parts = []
        show = ["P_IM", "P_INM"] + ([] if m.role != "IFR" else ["ign_truthy", "rng_none", "rng_truthy", "ifrtag_none"])
        for k in show:
            if k in v:
                parts.append(f"{self._TEXT[k]}: {'yes' if v[k] else 'no'}")
        for k in sorted(m.row):
            if k.startswith("C_") and (k in v or k.startswith(f"C_{m.role}.")):
                role, meth = k[2:].split(".", 1)
                parts.append(f"{_ROLE_NAME[role]} {'.' + meth + '(etag)' if meth != '?' else 'comparison (not asked on this path)'}: {'match' if m.row[k] else 'no match'}")
        if hinge:
            parts.append("with " + ", ".join(f"`{re.sub(chr(39) + r'[0-9]+', '', k[1:])}` {'true' if b else 'false'}" for k, b in sorted(hinge.items())))
        elif hinge is None:
            parts.append("whatever the other conditions")
        got = "modified" if m.expected else "not modified"
        want = "not modified" if m.expected else "modified"
        return f"{'; '.join(parts)} -> answers '{got}', the {_ROLE_NAME[m.role]} comparison alone requires '{want}'"


# ---------------------------------------------------------------------
# one level of private helpers, inlined: `v = _helper(a, b)` -> the helper's body with `return e` turned into `v = e`


class _Rename(ast.NodeTransformer):
    def __init__(self, names: dict[str, str]):
        self.names = names

    def visit_Name(self, n: ast.Name) -> ast.AST:
        if n.id in self.names:
            return ast.copy_location(ast.Name(id=self.names[n.id], ctx=n.ctx), n)
        return n


def _tail_returns(stmts: list[ast.stmt], target: str, at: ast.AST) -> list[ast.stmt] | None:
    """the statement list of a loop-free function body with every `return e` replaced by `target = e` and the
    statements after an `if` that returns on some arm moved into the arms that do not (so control never has to leave
    the list early); None when a return sits where this cannot express it."""
    out: list[ast.stmt] = []
    for i, st in enumerate(stmts):
        if isinstance(st, ast.Return):
            v = st.value if st.value is not None else ast.copy_location(ast.Constant(value=None), st)
            out.append(ast.copy_location(ast.Assign(targets=[ast.copy_location(ast.Name(id=target, ctx=ast.Store()), st)], value=v), st))
            return out
        has_ret = any(isinstance(x, ast.Return) for x in walk_no_nested(st))
        if not has_ret:
            out.append(st)
            continue
        if not isinstance(st, ast.If):
            return None
        rest = stmts[i + 1 :]
        body = _tail_returns(list(st.body) + copy.deepcopy(rest), target, st)
        orelse = _tail_returns(list(st.orelse) + copy.deepcopy(rest), target, st)
        if body is None or orelse is None:
            return None
        out.append(ast.copy_location(ast.If(test=st.test, body=body, orelse=orelse), st))
        return out
    # fell off the end: the function returns None
    out.append(ast.copy_location(ast.Assign(targets=[ast.copy_location(ast.Name(id=target, ctx=ast.Store()), at)], value=ast.copy_location(ast.Constant(value=None), at)), at))
    return out


def inline_private_helpers(repo: Repo, fi: FuncInfo, saw: t.Callable[[FuncInfo], None] | None = None) -> FuncInfo:
    """``fi`` with every statement ``v = _h(args)`` / ``return [not] _h(args)`` whose callee is a private plain function of
    the same module - loop-free, no try / with / nested definitions / generators, arguments that are names, attributes
    or constants - replaced by the helper's body: parameters bound to the arguments (or defaults) first, the helper's
    names made unique, ``return e`` turned into ``v = e``.  A piece of the function moved into such a helper is then
    analysed as if it had stayed where it was.  Anything else is left as the call it is; ``fi`` itself is returned when
    nothing was inlined."""
    if fi.cls is not None:
        return fi
    limports = fi.module.local_imports(fi.node)
    count = [0]

    def callee_of(call: ast.AST) -> FuncInfo | None:
        if not (isinstance(call, ast.Call) and isinstance(call.func, ast.Name)):
            return None
        fq = repo.resolve(fi.module, call.func.id, limports)
        h = repo.try_func(fq) if fq and fq.startswith("werkzeug.") else None
        if h is None or h.module is not fi.module or h.cls is not None or h.decorators or not h.name.startswith("_") or h.fq == fi.fq or fq in _PURE:
            return None
        bad = (ast.For, ast.AsyncFor, ast.While, ast.Try, ast.With, ast.AsyncWith, ast.Yield, ast.YieldFrom, ast.Await, ast.Global, ast.Nonlocal, ast.FunctionDef, ast.AsyncFunctionDef, ast.ClassDef, ast.Lambda, ast.Delete, ast.Match)
        if any(isinstance(x, bad) for st in h.node.body for x in ast.walk(st)):  # type: ignore[attr-defined]
            return None
        a = h.node.args  # type: ignore[attr-defined]
        if a.vararg or a.kwarg:
            return None
        return h

    def negated(v: ast.AST, n: int, at: ast.AST) -> ast.AST:
        for _ in range(n):
            v = ast.copy_location(ast.UnaryOp(op=ast.Not(), operand=v), at)
        return v

    class _NegReturns(ast.NodeTransformer):
        def __init__(self, n: int):
            self.n = n

        def visit_Return(self, r: ast.Return) -> ast.AST:
            v = r.value if r.value is not None else ast.copy_location(ast.Constant(value=None), r)
            return ast.copy_location(ast.Return(value=negated(v, self.n, r)), r)

    def expand(st: ast.stmt, call: ast.Call, target: str | None, nots: int = 0) -> list[ast.stmt] | None:
        """target None: the statement is `return [not] call` - the helper's returns become the function's returns"""
        h = callee_of(call)
        if h is None:
            return None
        try:
            b = bind(call, h, bound=False)
        except AnalysisError:
            return None
        count[0] += 1
        sfx = f"__{h.name.strip('_')}{count[0]}"
        stored = {x.id for x in ast.walk(h.node) if isinstance(x, ast.Name) and isinstance(x.ctx, ast.Store)} | set(h.params)
        names = {n: n + sfx for n in stored}
        rebound = {x.id for x in ast.walk(h.node) if isinstance(x, ast.Name) and isinstance(x.ctx, ast.Store)}
        pro: list[ast.stmt] = []
        for p in h.params:
            v = b.get(p, param_default(h, p))
            if v is None or not all(isinstance(x, (ast.Name, ast.Attribute, ast.Constant, ast.Load)) for x in ast.walk(v)):
                return None
            if isinstance(v, ast.Name) and b.get(p) is v and (p not in rebound or target is None or v.id == target):
                # a parameter the helper only reads is the caller's variable itself; so is one it rebinds when the
                # caller's variable is dead after the call (the call's result overwrites it / the function returns)
                names[p] = v.id
                continue
            pro.append(ast.copy_location(ast.Assign(targets=[ast.copy_location(ast.Name(id=names[p], ctx=ast.Store()), st)], value=copy.deepcopy(v)), st))
        body = [copy.deepcopy(x) for x in h.node.body]  # type: ignore[attr-defined]
        if body and isinstance(body[0], ast.Expr) and isinstance(body[0].value, ast.Constant) and isinstance(body[0].value.value, str):
            body = body[1:]
        body = [_Rename(names).visit(x) for x in body]
        if target is None:
            tail: list[ast.stmt] | None = [_NegReturns(nots).visit(x) for x in body]
            if not body or not isinstance(body[-1], (ast.Return, ast.If, ast.Raise)) or (isinstance(body[-1], ast.If) and not body[-1].orelse):
                tail.append(ast.copy_location(ast.Return(value=negated(ast.copy_location(ast.Constant(value=None), st), nots, st)), st))  # type: ignore[union-attr]
        else:
            tail = _tail_returns(body, target, st)
        if tail is None:
            return None
        if saw is not None:
            saw(h)
        return pro + tail

    def walk_body(stmts: list[ast.stmt]) -> list[ast.stmt]:
        out: list[ast.stmt] = []
        for st in stmts:
            new: list[ast.stmt] | None = None
            if isinstance(st, ast.Assign) and len(st.targets) == 1 and isinstance(st.targets[0], ast.Name):
                new = expand(st, st.value, st.targets[0].id)  # type: ignore[arg-type]
            elif isinstance(st, ast.AnnAssign) and isinstance(st.target, ast.Name) and st.value is not None:
                new = expand(st, st.value, st.target.id)  # type: ignore[arg-type]
            elif isinstance(st, ast.Return) and st.value is not None:
                e, n = strip_not(st.value)
                if callee_of(e) is not None:
                    new = expand(st, e, None, n)  # type: ignore[arg-type]
            if new is not None:
                out += new
                continue
            if isinstance(st, ast.If):
                st.body = walk_body(st.body)
                st.orelse = walk_body(st.orelse)
            out.append(st)
        return out

    node = copy.deepcopy(fi.node)
    node.body = walk_body(node.body)  # type: ignore[attr-defined]
    if not count[0]:
        return fi
    ast.fix_missing_locations(node)
    for x in ast.walk(node):
        for ch in ast.iter_child_nodes(x):
            ch._parent = x  # type: ignore[attr-defined]
    node._parent = getattr(fi.node, "_parent", None)  # type: ignore[attr-defined]
    return FuncInfo(fi.module, node, fi.qualname, None)
