"""helpers for the C11 rules: per-function analysis bundle, call binding, boolean path
enumeration of small predicate functions, order facts established by branch edges,
value-origin chains over reaching definitions."""

from __future__ import annotations

import ast
import typing as t

from .. import astq
from ..cfg import CFG, Node, cfg_of
from ..dataflow import Def, ReachingDefs
from ..loader import AnalysisError, ClassInfo, FuncInfo, Repo, dotted, norm, walk_no_nested


class FA:
    """CFG + reaching definitions of one function."""

    def __init__(self, repo: Repo, fi: FuncInfo):
        self.repo = repo
        self.fi = fi
        self.cfg: CFG = cfg_of(fi)
        self.rd = ReachingDefs(self.cfg, fi.params)
        self.limports = fi.module.local_imports(fi.node)

    # -- names -----------------------------------------------------------
    def resolve(self, expr: ast.AST) -> str | None:
        d = dotted(expr)
        if d is None:
            return None
        return self.repo.resolve(self.fi.module, d, self.limports)

    def callee(self, call: ast.Call) -> FuncInfo | None:
        fq = self.resolve(call.func)
        if fq is None or not fq.startswith("werkzeug."):
            return None
        return self.repo.try_func(fq)

    def calls_to(self, fq: str) -> list[ast.Call]:
        """calls in this function whose callee resolves to the package function ``fq``."""
        out = []
        for c in astq.calls(self.fi.node, nested=False):
            r = self.resolve(c.func)
            if r == fq:
                out.append(c)
        out.sort(key=lambda c: (c.lineno, c.col_offset))
        return out

    def method_calls(self, attr: str) -> list[ast.Call]:
        out = [c for c in astq.calls(self.fi.node, nested=False) if isinstance(c.func, ast.Attribute) and c.func.attr == attr]
        out.sort(key=lambda c: (c.lineno, c.col_offset))
        return out

    # -- nodes -----------------------------------------------------------
    def node(self, a: ast.AST) -> Node:
        n = self.cfg.node_of(a)
        if n is None:
            raise AnalysisError(f"{self.fi.fq}: no CFG node for `{norm(a)}`")
        return n

    def defs(self, name_node: ast.Name) -> frozenset[Def]:
        return self.rd.reaching(self.node(name_node), name_node.id)

    def defs_at(self, at: Node, name: str) -> frozenset[Def]:
        return self.rd.reaching(at, name)

    def same_defs(self, name: str, a: Node, b: Node) -> bool:
        """the bindings of ``name`` visible at a and at b are the same (no rebinding in between on any path)."""
        da, db = self.rd.reaching(a, name), self.rd.reaching(b, name)
        return bool(da) and da == db

    def single_value(self, name_node: ast.Name) -> ast.AST | None:
        """RHS of the only plain assignment reaching this use (None when there are several / a param / an unpack)."""
        ds = self.defs(name_node)
        if len(ds) != 1:
            return None
        (d,) = ds
        if d.kind in ("assign", "walrus") and d.index is None and d.value is not None:
            return d.value
        return None

    def def_nodes_of(self, name: str) -> list[Node]:
        out = []
        for nid, ds in self.rd.gen.items():
            if any(d.name == name for d in ds):
                out.append(self.cfg.nodes[nid])
        return out

    def guards(self, a: ast.AST | Node) -> list[tuple[Node, str]]:
        n = a if isinstance(a, Node) else self.node(a)
        return self.cfg.guards(n)

    def dominated_by(self, a: ast.AST | Node, atom: Node, label: str) -> bool:
        n = a if isinstance(a, Node) else self.node(a)
        return self.cfg.reachable(n) and self.cfg.edge_dominates(atom, label, n)


def flip(label: str) -> str:
    return "F" if label == "T" else "T"


# ---------------------------------------------------------------------
# call binding


def call_params(fi: FuncInfo, bound: bool) -> list[str]:
    a = fi.node.args  # type: ignore[attr-defined]
    names = [x.arg for x in a.posonlyargs + a.args]
    if bound and names:
        names = names[1:]
    return names


def bind(call: ast.Call, fi: FuncInfo, bound: bool) -> dict[str, ast.AST]:
    """parameter name -> argument expression for a call of ``fi`` (bound: called as a method on an instance)."""
    if any(isinstance(x, ast.Starred) for x in call.args) or any(k.arg is None for k in call.keywords):
        raise AnalysisError(f"call `{norm(call)}` uses * / **: cannot bind arguments")
    pos = call_params(fi, bound)
    out: dict[str, ast.AST] = {}
    for i, x in enumerate(call.args):
        if i >= len(pos):
            raise AnalysisError(f"call `{norm(call)}` passes more positional arguments than {fi.fq} takes")
        out[pos[i]] = x
    kwonly = [x.arg for x in fi.node.args.kwonlyargs]  # type: ignore[attr-defined]
    for k in call.keywords:
        if k.arg not in pos and k.arg not in kwonly:
            raise AnalysisError(f"call `{norm(call)}`: {fi.fq} has no parameter `{k.arg}`")
        out[k.arg] = k.value  # type: ignore[index]
    return out


def param_default(fi: FuncInfo, name: str) -> ast.AST | None:
    a = fi.node.args  # type: ignore[attr-defined]
    pos = a.posonlyargs + a.args
    for p, d in zip(pos[len(pos) - len(a.defaults):], a.defaults):
        if p.arg == name:
            return d
    for p, d in zip(a.kwonlyargs, a.kw_defaults):
        if p.arg == name:
            return d
    return None


# ---------------------------------------------------------------------
# boolean paths of small predicate functions


class _BoolReturns(ast.NodeTransformer):
    def __init__(self) -> None:
        self.depth = 0

    def visit_FunctionDef(self, node: ast.FunctionDef) -> ast.AST:
        if self.depth:
            return node
        self.depth += 1
        self.generic_visit(node)
        self.depth -= 1
        return node

    def visit_Lambda(self, node: ast.Lambda) -> ast.AST:
        return node

    def visit_Return(self, node: ast.Return) -> ast.AST:
        v = node.value
        if v is None or isinstance(v, ast.Constant):
            return node
        if isinstance(v, ast.IfExp):  # return a if c else b  ==  if c: return a / else: return b
            return ast.If(test=self.visit(v.test), body=[self.visit_Return(ast.Return(value=v.body))], orelse=[self.visit_Return(ast.Return(value=v.orelse))])
        if isinstance(v, ast.Call) and dotted(v.func) == "bool" and len(v.args) == 1 and not v.keywords:
            v = v.args[0]
        test = self.visit(v)
        return ast.If(test=test, body=[ast.Return(value=ast.Constant(value=True))], orelse=[ast.Return(value=ast.Constant(value=False))])

    def visit_Compare(self, node: ast.Compare) -> ast.AST:
        self.generic_visit(node)
        if len(node.ops) == 1:
            return node
        if not all(isinstance(c, (ast.Name, ast.Constant, ast.Attribute)) for c in node.comparators[:-1]):
            return node
        parts: list[ast.expr] = []
        left = node.left
        for op, c in zip(node.ops, node.comparators):
            parts.append(ast.Compare(left=left, ops=[op], comparators=[c]))
            left = c
        return ast.BoolOp(op=ast.And(), values=parts)


class BoolPath(t.NamedTuple):
    literals: tuple[tuple[ast.AST, str], ...]  # (condition atom, "T"/"F")
    result: t.Any  # True / False / "raise" / "other"


def bool_paths(fn: ast.AST, what: str) -> list[BoolPath]:
    """every acyclic path of a loop-free predicate function as (branch literals, returned truth value).
    ``return <expr>`` counts as ``if <expr>: return True / else: return False``; ``a <= b < c`` as a conjunction."""
    if any(isinstance(n, (ast.For, ast.While, ast.AsyncFor, ast.Try)) for n in walk_no_nested(fn)):
        raise AnalysisError(f"{what}: predicate has loops / try, boolean path enumeration not applicable")
    tree = ast.parse(ast.unparse(fn))
    f2 = tree.body[0]
    f2.decorator_list = []  # type: ignore[attr-defined]
    f2 = _BoolReturns().visit(f2)
    ast.fix_missing_locations(f2)
    cfg = CFG(f2)
    raw = cfg.acyclic_paths(limit=4000)
    if len(raw) >= 4000:
        raise AnalysisError(f"{what}: too many paths")
    out: list[BoolPath] = []
    for p in raw:
        lits = tuple((n.ast, l) for n, l in p if n.kind == "test" and l in ("T", "F") and n.ast is not None)
        end = p[-1][0]
        if end is cfg.raise_exit:
            out.append(BoolPath(lits, "raise"))
            continue
        last = None
        for n, _ in reversed(p[:-1]):
            if n.kind == "stmt":
                last = n.ast
                break
        if isinstance(last, ast.Return) and isinstance(last.value, ast.Constant) and isinstance(last.value.value, bool):
            out.append(BoolPath(lits, last.value.value))
        elif isinstance(last, ast.Return) and (last.value is None or (isinstance(last.value, ast.Constant) and last.value.value is None)):
            out.append(BoolPath(lits, False))
        else:
            out.append(BoolPath(lits, "other"))
    return out


# ---------------------------------------------------------------------
# order facts


def _key(e: ast.AST, rename: dict[str, str | None] | None) -> str | None:
    if isinstance(e, ast.Name):
        if rename is not None:
            return rename.get(e.id)
        return e.id
    if isinstance(e, ast.Constant) and isinstance(e.value, int) and not isinstance(e.value, bool):
        return f"#{e.value}"
    if isinstance(e, ast.UnaryOp) and isinstance(e.op, ast.USub) and isinstance(e.operand, ast.Constant) and isinstance(e.operand.value, int):
        return f"#{-e.operand.value}"
    return None


Fact = t.Tuple[str, str, str]  # (a, "<" | "<=", b)


def order_facts(atom: ast.AST, label: str, rename: dict[str, str | None] | None = None) -> set[Fact]:
    """what an edge of a two-operand ordering comparison establishes, as a < b / a <= b over names and int constants."""
    if isinstance(atom, ast.Compare) and len(atom.ops) > 1:
        if label != "T":
            return set()
        out: set[Fact] = set()
        left = atom.left
        for op_, c in zip(atom.ops, atom.comparators):
            out |= order_facts(ast.Compare(left=left, ops=[op_], comparators=[c]), "T", rename)
            left = c
        return out
    p = astq.cmp_parts(atom)
    if p is None:
        return set()
    a, op, b = p
    ka, kb = _key(a, rename), _key(b, rename)
    if ka is None or kb is None:
        return set()
    if isinstance(op, ast.Lt):
        f = (ka, "<", kb)
    elif isinstance(op, ast.LtE):
        f = (ka, "<=", kb)
    elif isinstance(op, ast.Gt):
        f = (kb, "<", ka)
    elif isinstance(op, ast.GtE):
        f = (kb, "<=", ka)
    else:
        return set()
    if label == "F":
        x, rel, y = f
        f = (y, "<=" if rel == "<" else "<", x)
    return {f}


def has_less(facts: set[Fact], a: str, b: str, strict: bool) -> bool:
    if (a, "<", b) in facts:
        return True
    return (not strict) and (a, "<=", b) in facts


def has_nonneg(facts: set[Fact], a: str) -> bool:
    """0 <= a follows from one of the facts (integers)."""
    for x, rel, y in facts:
        if y == a and x.startswith("#"):
            k = int(x[1:])
            if (rel == "<=" and k >= 0) or (rel == "<" and k >= -1):
                return True
    return False


def none_proving(atom: ast.AST, label: str) -> str | None:
    """name that is known to be None (or falsy) after taking this edge."""
    if isinstance(atom, ast.Name):
        return atom.id if label == "F" else None
    p = astq.cmp_parts(atom)
    if p is None:
        return None
    a, op, b = p
    if isinstance(a, ast.Name) and astq.is_none(b):
        if isinstance(op, ast.Is) and label == "T":
            return a.id
        if isinstance(op, ast.IsNot) and label == "F":
            return a.id
    return None


# ---------------------------------------------------------------------
# misc AST shapes


def split_ifexp(e: ast.AST | None, conds: tuple = ()) -> list[tuple[ast.AST | None, tuple]]:
    """``a if c else b`` -> [(a, ((c, "T"),)), (b, ((c, "F"),))] (nested, `not c` folded into the label); anything
    else -> [(e, ())].  The conditions are single atoms or whole and/or expressions (callers that need atoms use
    ``cond_atoms``)."""
    if isinstance(e, ast.IfExp):
        t_, n = strip_not(e.test)
        lt, lf = ("T", "F") if n % 2 == 0 else ("F", "T")
        return split_ifexp(e.body, conds + ((t_, lt),)) + split_ifexp(e.orelse, conds + ((t_, lf),))
    return [(e, conds)]


def cond_atoms(test: ast.AST, label: str) -> list[tuple[ast.AST, str]]:
    """atoms whose edge is certainly taken when `test` evaluates to `label`: a true conjunction makes every conjunct
    true, a false disjunction makes every disjunct false; otherwise only the (un-negated) test itself."""
    e, n = strip_not(test)
    if n % 2:
        label = flip(label)
    if isinstance(e, ast.BoolOp) and ((isinstance(e.op, ast.And) and label == "T") or (isinstance(e.op, ast.Or) and label == "F")):
        out: list[tuple[ast.AST, str]] = []
        for v in e.values:
            out += cond_atoms(v, label)
        return out
    if isinstance(e, ast.Compare) and len(e.ops) > 1 and label == "T" and all(isinstance(c, (ast.Name, ast.Constant, ast.Attribute)) for c in e.comparators[:-1]):
        out = []
        left = e.left
        for op_, c in zip(e.ops, e.comparators):
            out.append((ast.copy_location(ast.Compare(left=left, ops=[op_], comparators=[c]), e), "T"))
            left = c
        return out
    return [(e, label)]


def expand_returns(fn: ast.AST) -> list[tuple[ast.Return, ast.AST | None, list[tuple[ast.AST, str]]]]:
    """(return statement, returned expression, extra condition atoms) with conditional expressions in the returned
    value split into one entry per arm."""
    out = []
    for r in astq.returns_of(fn):
        for v, conds in split_ifexp(r.value):
            atoms: list[tuple[ast.AST, str]] = []
            for c, l in conds:
                atoms += cond_atoms(c, l)
            out.append((r, v, atoms))
    return out


def header_get_key(e: ast.AST) -> tuple[str, str] | None:
    """``X.get("k")`` / ``X["k"]`` -> (text of X, k)."""
    if isinstance(e, ast.Call) and isinstance(e.func, ast.Attribute) and e.func.attr == "get" and e.args:
        k = astq.const_str(e.args[0])
        if k is not None:
            return norm(e.func.value), k
    if isinstance(e, ast.Subscript):
        k = astq.const_str(e.slice)
        if k is not None:
            return norm(e.value), k
    return None


def subscript_const(e: ast.AST) -> tuple[ast.AST, int] | None:
    if isinstance(e, ast.Subscript) and isinstance(e.slice, ast.Constant) and isinstance(e.slice.value, int):
        return e.value, e.slice.value
    return None


def strip_not(e: ast.AST) -> tuple[ast.AST, int]:
    n = 0
    while isinstance(e, ast.UnaryOp) and isinstance(e.op, ast.Not):
        e = e.operand
        n += 1
    return e, n


def self_attr_stores(fn: ast.AST, attr: str) -> list[ast.stmt]:
    out = []
    for s in walk_no_nested(fn):
        if isinstance(s, ast.Assign):
            tg = s.targets
        elif isinstance(s, (ast.AugAssign, ast.AnnAssign)):
            tg = [s.target]
        else:
            continue
        if any(astq.is_self_attr(x, attr) for x in tg):
            out.append(s)
    out.sort(key=lambda s: s.lineno)
    return out


def class_of(repo: Repo, fq: str) -> ClassInfo:
    c = repo.try_cls(repo.canonical(fq))
    if c is None:
        raise AnalysisError(f"class {fq} not found")
    return c
