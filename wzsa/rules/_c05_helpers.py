"""helpers of the C05 rules: per-function analysis bundle, valuation-sensitive reachability over the CFG
(guard algebra), and the provenance evaluators (header values, encoded bytes, URIs)."""

from __future__ import annotations

import ast
import typing as t

from ..cfg import CFG, Node, cfg_of
from ..dataflow import Def, ReachingDefs, bound_in_enclosing_comp
from ..loader import AnalysisError, ClassInfo, FuncInfo, Repo, dotted, is_self_attr, norm, walk_no_nested


# ---------------------------------------------------------------------
# per-function bundle


class Fn:
    def __init__(self, repo: Repo, fi: FuncInfo):
        self.repo = repo
        self.fi = fi
        self.cfg: CFG = cfg_of(fi)
        self.rd = ReachingDefs(self.cfg, fi.params)
        self.limports = fi.module.local_imports(fi.node)

    def node(self, a: ast.AST) -> Node:
        n = self.cfg.node_of(a)
        if n is None:
            raise AnalysisError(f"{self.fi.fq}: no CFG node for `{norm(a)[:60]}`")
        return n

    def resolve(self, e: ast.AST | None) -> str | None:
        d = dotted(e) if e is not None else None
        if d is None:
            return None
        return self.repo.resolve(self.fi.module, d, self.limports)

    def call_fq(self, c: ast.AST) -> str | None:
        return self.resolve(c.func) if isinstance(c, ast.Call) else None


def fn_of(repo: Repo, fi: FuncInfo) -> Fn:
    b = getattr(fi, "_c05", None)
    if b is None:
        b = Fn(repo, fi)
        fi._c05 = b  # type: ignore[attr-defined]
    return b


def method(repo: Repo, cls: ClassInfo, name: str) -> FuncInfo:
    """``name`` resolved in the MRO of cls; a vanished method is an unfillable slot."""
    _, what = repo.lookup(cls, name)
    if not isinstance(what, FuncInfo):
        raise AnalysisError(f"{cls.fq}.{name} is not a method defined in the package (slot)")
    return what


def enclosing_function(repo: Repo, node: ast.AST, index: dict[int, FuncInfo]) -> FuncInfo | None:
    """FuncInfo of the innermost function containing node; nested functions get a FuncInfo of their own."""
    cur = getattr(node, "_parent", None)
    inner: ast.AST | None = None
    while cur is not None:
        if isinstance(cur, (ast.FunctionDef, ast.AsyncFunctionDef)):
            if inner is None:
                inner = cur
            if id(cur) in index:
                outer = index[id(cur)]
                if inner is cur:
                    return outer
                key = id(inner)
                if key not in index:
                    index[key] = FuncInfo(outer.module, inner, f"{outer.qualname}.<locals>.{inner.name}", outer.cls)  # type: ignore[attr-defined]
                return index[key]
        cur = getattr(cur, "_parent", None)
    return None


# ---------------------------------------------------------------------
# bindings of a name use


class Binding(t.NamedTuple):
    kind: str  # value | iter | param | other
    expr: ast.AST | None  # bound value (value) / iterated expression (iter)
    path: tuple[int, ...]  # position of the name inside the unpacked element / value
    node: Node | None  # CFG node at which expr is evaluated


def _target_path(target: ast.AST, name: ast.AST) -> tuple[int, ...] | None:
    if target is name:
        return ()
    if isinstance(target, ast.Starred):
        return None
    if isinstance(target, (ast.Tuple, ast.List)):
        for i, e in enumerate(target.elts):
            p = _target_path(e, name)
            if p is not None:
                return (i,) + p
    return None


def _path_by_id(target: ast.AST, ident: str) -> tuple[int, ...] | None:
    if isinstance(target, ast.Name):
        return () if target.id == ident else None
    if isinstance(target, (ast.Tuple, ast.List)):
        for i, e in enumerate(target.elts):
            p = _path_by_id(e, ident)
            if p is not None:
                return (i,) + p
    return None


def bindings(F: Fn, at: Node, name: ast.Name) -> list[Binding]:
    """what the Name evaluated in CFG node `at` can be bound to (comprehension variables included)."""
    g = bound_in_enclosing_comp(name, stop=F.fi.node)
    if g is not None:
        p = _path_by_id(g.target, name.id)
        return [Binding("iter", g.iter, p if p is not None else (99,), at)]
    out: list[Binding] = []
    for d in F.rd.reaching(at, name.id):
        out.append(_binding_of_def(d))
    return out


def _binding_of_def(d: Def) -> Binding:
    if d.kind == "param":
        return Binding("param", None, (), None)
    if d.kind == "for" and isinstance(d.stmt, (ast.For, ast.AsyncFor)):
        p = _path_by_id(d.stmt.target, d.name)
        return Binding("iter", d.stmt.iter, p if p is not None else (99,), d.node)
    if d.kind in ("assign", "walrus") and d.value is not None:
        return Binding("value", d.value, (), d.node)
    if d.kind == "unpack" and d.value is not None and isinstance(d.stmt, (ast.Assign, ast.AnnAssign)):
        tgts = d.stmt.targets if isinstance(d.stmt, ast.Assign) else [d.stmt.target]
        for tg in tgts:
            p = _path_by_id(tg, d.name)
            if p is not None:
                return Binding("value", d.value, p, d.node)
    return Binding("other", d.value, (), d.node)


def same_binding(F: Fn, a: Node, b: Node, ident: str) -> bool:
    """the local `ident` denotes the same value in node a and in node b (identical reaching definitions)."""
    return F.rd.reaching(a, ident) == F.rd.reaching(b, ident)


# ---------------------------------------------------------------------
# valuation-sensitive reachability (guard algebra)


class Sigma(t.NamedTuple):
    status: int
    method: str


_UNKNOWN = object()


class GuardEval:
    """evaluates branch atoms that depend only on the response status and the request method.

    * a local whose every reaching definition is `self.status_code` (or `self.status_code` itself) is the status;
    * `environ["REQUEST_METHOD"]` / `environ.get("REQUEST_METHOD")` on a parameter is the method;
    * everything else is unknown, and both edges of such a test are followed."""

    def __init__(self, F: Fn, status_attr: str = "status_code", method_key: str = "REQUEST_METHOD"):
        self.F = F
        self.status_attr = status_attr
        self.method_key = method_key
        self.evaluable: set[int] = set()
        self._tests = {n.id for n in F.cfg.nodes if n.kind == "test"}
        for n in F.cfg.nodes:
            if n.kind == "test" and any(self.value(n.ast, n, s) is not _UNKNOWN for s in (Sigma(200, "GET"), Sigma(100, "HEAD"), Sigma(204, "POST"), Sigma(304, "GET"))):
                self.evaluable.add(n.id)

    def _name_value(self, at: Node, ident: str, s: Sigma, depth: int) -> t.Any:
        """a local all of whose reaching definitions are plain assignments of decidable expressions with one common value."""
        ds = self.F.rd.reaching(at, ident)
        if not ds or depth > 4:
            return _UNKNOWN
        vals = []
        for d in ds:
            if d.kind != "assign" or d.value is None or d.node is None:
                return _UNKNOWN
            v = self.value(d.value, d.node, s, depth + 1)
            if v is _UNKNOWN:
                return _UNKNOWN
            vals.append(v)
        first = vals[0]
        return first if all(type(v) is type(first) and v == first for v in vals) else _UNKNOWN

    def value(self, e: ast.AST, at: Node, s: Sigma, depth: int = 0) -> t.Any:
        U = _UNKNOWN
        if isinstance(e, ast.Constant):
            return e.value
        if isinstance(e, ast.Name):
            return self._name_value(at, e.id, s, depth)
        if isinstance(e, ast.Attribute):
            return s.status if is_self_attr(e, self.status_attr) else U
        if isinstance(e, ast.Subscript):
            if isinstance(e.value, ast.Name) and e.value.id in self.F.fi.params and isinstance(e.slice, ast.Constant) and e.slice.value == self.method_key:
                return s.method
            return U
        if isinstance(e, ast.Call):
            f = e.func
            if isinstance(f, ast.Attribute) and f.attr == "get" and isinstance(f.value, ast.Name) and f.value.id in self.F.fi.params and e.args and isinstance(e.args[0], ast.Constant) and e.args[0].value == self.method_key:
                return s.method
            if isinstance(f, ast.Name) and f.id == "range" and not e.keywords and 1 <= len(e.args) <= 3:
                vs = [self.value(a, at, s, depth) for a in e.args]
                if any(v is U or not isinstance(v, int) for v in vs):
                    return U
                return range(*vs)
            return U
        if isinstance(e, (ast.Tuple, ast.List, ast.Set)):
            vs = [self.value(x, at, s, depth) for x in e.elts]
            if any(v is U for v in vs):
                return U
            return tuple(vs)
        if isinstance(e, ast.BinOp):
            a, b = self.value(e.left, at, s, depth), self.value(e.right, at, s, depth)
            if a is U or b is U or not isinstance(a, int) or not isinstance(b, int):
                return U
            try:
                if isinstance(e.op, ast.FloorDiv):
                    return a // b
                if isinstance(e.op, ast.Mod):
                    return a % b
                if isinstance(e.op, ast.Sub):
                    return a - b
                if isinstance(e.op, ast.Add):
                    return a + b
            except ZeroDivisionError:
                return U
            return U
        if isinstance(e, ast.UnaryOp) and isinstance(e.op, ast.Not):
            v = self.value(e.operand, at, s, depth)
            return U if v is U else (not v)
        if isinstance(e, ast.BoolOp):
            # short-circuit semantics: the first deciding operand decides, unknown operands before it make the result unknown
            is_and = isinstance(e.op, ast.And)
            for x in e.values:
                v = self.value(x, at, s, depth)
                if v is U:
                    return U
                if bool(v) != is_and:
                    return bool(v)
            return is_and
        if isinstance(e, ast.Compare):
            left = self.value(e.left, at, s, depth)
            if left is U:
                return U
            for op, c in zip(e.ops, e.comparators):
                right = self.value(c, at, s, depth)
                if right is U:
                    return U
                try:
                    if isinstance(op, ast.Eq):
                        ok = left == right
                    elif isinstance(op, ast.NotEq):
                        ok = left != right
                    elif isinstance(op, ast.Lt):
                        ok = left < right
                    elif isinstance(op, ast.LtE):
                        ok = left <= right
                    elif isinstance(op, ast.Gt):
                        ok = left > right
                    elif isinstance(op, ast.GtE):
                        ok = left >= right
                    elif isinstance(op, ast.In):
                        ok = left in right
                    elif isinstance(op, ast.NotIn):
                        ok = left not in right
                    else:
                        return U
                except TypeError:
                    return U
                if not ok:
                    return False
                left = right
            return True
        return U

    def reach(self, s: Sigma, start: Node | t.Iterable[Node] | None = None, avoid_nodes: t.Iterable[Node] = ()) -> set[int]:
        """ids of the nodes reachable under valuation s; tests that s decides contribute only the decided edge."""
        cfg = self.F.cfg
        if start is None:
            stack = [cfg.entry]
        elif isinstance(start, Node):
            stack = [start]
        else:
            stack = list(start)
        avoid = {n.id for n in avoid_nodes}
        seen: set[int] = set()
        while stack:
            n = stack.pop()
            if n.id in seen:
                continue
            seen.add(n.id)
            only = None
            if n.id in self._tests:
                v = self.value(n.ast, n, s)
                if v is not _UNKNOWN:
                    only = "T" if v else "F"
            for nx, lab in n.succs:
                if only is not None and lab in ("T", "F") and lab != only:
                    continue
                if nx.id in avoid:
                    continue
                stack.append(nx)
        return seen


# ---------------------------------------------------------------------
# small shape predicates


def const_key(e: ast.AST | None) -> str | None:
    if isinstance(e, ast.Constant) and isinstance(e.value, str):
        return e.value.lower()
    return None


def is_empty_literal(e: ast.AST | None) -> bool:
    if isinstance(e, (ast.Tuple, ast.List)) and not e.elts:
        return True
    if isinstance(e, ast.Constant) and e.value in (b"", ""):
        return True
    if isinstance(e, ast.Call) and isinstance(e.func, ast.Name) and e.func.id in ("list", "tuple", "iter") and not e.keywords:
        if not e.args:
            return True
        return len(e.args) == 1 and is_empty_literal(e.args[0])
    return False


def none_test(e: ast.AST) -> tuple[ast.AST, str] | None:
    """atom testing presence of a value: (tested expr, label of the 'present' edge)."""
    if isinstance(e, ast.Compare) and len(e.ops) == 1 and isinstance(e.comparators[0], ast.Constant) and e.comparators[0].value is None:
        if isinstance(e.ops[0], ast.IsNot):
            return e.left, "T"
        if isinstance(e.ops[0], ast.Is):
            return e.left, "F"
        return None
    if isinstance(e, (ast.Name, ast.Attribute)):
        return e, "T"
    return None


def header_stores(fn: ast.AST, keys: set[str]) -> list[tuple[ast.AST, ast.AST, str, ast.AST]]:
    """(statement-or-call, header object expr, lower-cased key, stored value) for `H[K] = V`, `H.set(K, V)`, `H.add(K, V)`."""
    out = []
    for n in walk_no_nested(fn):
        if isinstance(n, (ast.Assign, ast.AnnAssign)) and getattr(n, "value", None) is not None:
            tgts = n.targets if isinstance(n, ast.Assign) else [n.target]
            for tg in tgts:
                if isinstance(tg, ast.Subscript):
                    k = const_key(tg.slice)
                    if k in keys:
                        out.append((n, tg.value, k, n.value))
        elif isinstance(n, ast.Call) and isinstance(n.func, ast.Attribute) and n.func.attr in ("set", "add", "add_header", "setdefault") and len(n.args) >= 2:
            k = const_key(n.args[0])
            if k in keys:
                out.append((n, n.func.value, k, n.args[1]))
    return out


def header_removals(fn: ast.AST, keys: set[str]) -> list[tuple[ast.AST, ast.AST, str]]:
    """(node, header object expr, key) for `H.remove(K)`, `H.pop(K, ..)`, `del H[K]`."""
    out = []
    for n in walk_no_nested(fn):
        if isinstance(n, ast.Call) and isinstance(n.func, ast.Attribute) and n.func.attr in ("remove", "pop", "__delitem__") and n.args:
            k = const_key(n.args[0])
            if k in keys:
                out.append((n, n.func.value, k))
        elif isinstance(n, ast.Delete):
            for tg in n.targets:
                if isinstance(tg, ast.Subscript):
                    k = const_key(tg.slice)
                    if k in keys:
                        out.append((n, tg.value, k))
    return out


def isinstance_atom(e: ast.AST) -> tuple[ast.AST, set[str]] | None:
    """`isinstance(X, C)` / `isinstance(X, (C1, C2))` -> (X, {last component of each class name})."""
    if isinstance(e, ast.Call) and isinstance(e.func, ast.Name) and e.func.id == "isinstance" and len(e.args) == 2:
        c = e.args[1]
        elts = c.elts if isinstance(c, ast.Tuple) else [c]
        names = set()
        for x in elts:
            d = dotted(x)
            if d is None:
                return None
            names.add(d.rsplit(".", 1)[-1])
        return e.args[0], names
    return None
