"""helpers of the C05 rules: per-function analysis bundle, valuation-sensitive reachability over the CFG
(guard algebra), and the provenance evaluators (header values, encoded bytes, URIs)."""

from __future__ import annotations

import ast
import typing as t

from ..cfg import CFG, Node, cfg_of
from ..dataflow import Def, ReachingDefs, bound_in_enclosing_comp
from ..loader import AnalysisError, ClassInfo, FuncInfo, Repo, dotted, is_self_attr, norm, walk_no_nested


# ---------------------------------------------------------------------
# per-function bundle


class Fn:
    def __init__(self, repo: Repo, fi: FuncInfo):
        self.repo = repo
        self.fi = fi
        self.cfg: CFG = cfg_of(fi)
        self.rd = ReachingDefs(self.cfg, fi.params)
        self.limports = fi.module.local_imports(fi.node)

    def node(self, a: ast.AST) -> Node:
        n = self.cfg.node_of(a)
        if n is None:
            raise AnalysisError(f"{self.fi.fq}: no CFG node for `{norm(a)[:60]}`")
        return n

    def resolve(self, e: ast.AST | None) -> str | None:
        d = dotted(e) if e is not None else None
        if d is None:
            return None
        return self.repo.resolve(self.fi.module, d, self.limports)

    def call_fq(self, c: ast.AST) -> str | None:
        return self.resolve(c.func) if isinstance(c, ast.Call) else None


def fn_of(repo: Repo, fi: FuncInfo) -> Fn:
    b = getattr(fi, "_c05", None)
    if b is None:
        b = Fn(repo, fi)
        fi._c05 = b  # type: ignore[attr-defined]
    return b


def method(repo: Repo, cls: ClassInfo, name: str) -> FuncInfo:
    """``name`` resolved in the MRO of cls; a vanished method is an unfillable slot."""
    _, what = repo.lookup(cls, name)
    if not isinstance(what, FuncInfo):
        raise AnalysisError(f"{cls.fq}.{name} is not a method defined in the package (slot)")
    return what


def callee_of(F: Fn, call: ast.AST | None) -> FuncInfo | None:
    """the package function a call lands in: a module-level function (resolved through the imports) or a method
    called on `self` / `cls` (resolved in the MRO of the calling function's class).  One level of helper following."""
    if not isinstance(call, ast.Call):
        return None
    f = call.func
    if isinstance(f, ast.Attribute) and isinstance(f.value, ast.Name) and f.value.id in ("self", "cls") and F.fi.cls is not None:
        _, what = F.repo.lookup(F.fi.cls, f.attr)
        return what if isinstance(what, FuncInfo) else None
    if isinstance(f, ast.Name):
        # a function defined inside the calling function (a local helper)
        for n in walk_no_nested(F.fi.node):
            if isinstance(n, (ast.FunctionDef, ast.AsyncFunctionDef)) and n.name == f.id and n is not F.fi.node:
                cache = F.fi.__dict__.setdefault("_c05_locals", {})
                if id(n) not in cache:
                    cache[id(n)] = FuncInfo(F.fi.module, n, f"{F.fi.qualname}.<locals>.{n.name}", None)
                return cache[id(n)]
    fq = F.call_fq(call)
    if fq and fq.startswith("werkzeug."):
        return F.repo.try_func(fq)
    return None


def call_args(callee: FuncInfo, call: ast.Call) -> dict[str, ast.AST]:
    """parameter name -> argument expression of one call (positional and keyword; `self` skipped for methods)."""
    ps = list(callee.params)
    f = call.func
    if callee.cls is not None and ps and isinstance(f, ast.Attribute) and not _is_static(callee):
        ps = ps[1:]
    out: dict[str, ast.AST] = {}
    for p, a in zip(ps, call.args):
        if isinstance(a, ast.Starred):
            break
        out[p] = a
    for kw in call.keywords:
        if kw.arg is not None:
            out[kw.arg] = kw.value
    return out


def _is_static(fi: FuncInfo) -> bool:
    return "staticmethod" in fi.decorators


def enclosing_function(repo: Repo, node: ast.AST, index: dict[int, FuncInfo]) -> FuncInfo | None:
    """FuncInfo of the innermost function containing node; nested functions get a FuncInfo of their own."""
    cur = getattr(node, "_parent", None)
    inner: ast.AST | None = None
    while cur is not None:
        if isinstance(cur, (ast.FunctionDef, ast.AsyncFunctionDef)):
            if inner is None:
                inner = cur
            if id(cur) in index:
                outer = index[id(cur)]
                if inner is cur:
                    return outer
                key = id(inner)
                if key not in index:
                    index[key] = FuncInfo(outer.module, inner, f"{outer.qualname}.<locals>.{inner.name}", outer.cls)  # type: ignore[attr-defined]
                return index[key]
        cur = getattr(cur, "_parent", None)
    return None


# ---------------------------------------------------------------------
# bindings of a name use


class Binding(t.NamedTuple):
    kind: str  # value | iter | param | other
    expr: ast.AST | None  # bound value (value) / iterated expression (iter)
    path: tuple[int, ...]  # position of the name inside the unpacked element / value
    node: Node | None  # CFG node at which expr is evaluated


def _target_path(target: ast.AST, name: ast.AST) -> tuple[int, ...] | None:
    if target is name:
        return ()
    if isinstance(target, ast.Starred):
        return None
    if isinstance(target, (ast.Tuple, ast.List)):
        for i, e in enumerate(target.elts):
            p = _target_path(e, name)
            if p is not None:
                return (i,) + p
    return None


def _path_by_id(target: ast.AST, ident: str) -> tuple[int, ...] | None:
    if isinstance(target, ast.Name):
        return () if target.id == ident else None
    if isinstance(target, (ast.Tuple, ast.List)):
        for i, e in enumerate(target.elts):
            p = _path_by_id(e, ident)
            if p is not None:
                return (i,) + p
    return None


def bindings(F: Fn, at: Node, name: ast.Name) -> list[Binding]:
    """what the Name evaluated in CFG node `at` can be bound to (comprehension variables included)."""
    g = bound_in_enclosing_comp(name, stop=F.fi.node)
    if g is not None:
        p = _path_by_id(g.target, name.id)
        return [Binding("iter", g.iter, p if p is not None else (99,), at)]
    out: list[Binding] = []
    for d in F.rd.reaching(at, name.id):
        out.append(_binding_of_def(d))
    return out


def _binding_of_def(d: Def) -> Binding:
    if d.kind == "param":
        return Binding("param", None, (), None)
    if d.kind == "for" and isinstance(d.stmt, (ast.For, ast.AsyncFor)):
        p = _path_by_id(d.stmt.target, d.name)
        return Binding("iter", d.stmt.iter, p if p is not None else (99,), d.node)
    if d.kind in ("assign", "walrus") and d.value is not None:
        return Binding("value", d.value, (), d.node)
    if d.kind == "unpack" and d.value is not None and isinstance(d.stmt, (ast.Assign, ast.AnnAssign)):
        tgts = d.stmt.targets if isinstance(d.stmt, ast.Assign) else [d.stmt.target]
        for tg in tgts:
            p = _path_by_id(tg, d.name)
            if p is not None:
                # `a, b = x, y` (a display of the same shape on the right): the name is bound to its own item
                v: ast.AST = d.value
                q = p
                while q and isinstance(v, (ast.Tuple, ast.List)) and isinstance(tg, (ast.Tuple, ast.List)) and len(v.elts) == len(tg.elts) and not any(isinstance(x, ast.Starred) for x in [*v.elts, *tg.elts]):
                    v, tg, q = v.elts[q[0]], tg.elts[q[0]], q[1:]
                return Binding("value", v, q, d.node)
    return Binding("other", d.value, (), d.node)


def same_binding(F: Fn, a: Node, b: Node, ident: str) -> bool:
    """the local `ident` denotes the same value in node a and in node b (identical reaching definitions)."""
    return F.rd.reaching(a, ident) == F.rd.reaching(b, ident)


# ---------------------------------------------------------------------
# valuation-sensitive reachability (guard algebra)


class Sigma(t.NamedTuple):
    status: int
    method: str


_UNKNOWN = object()
_FOLDERS: dict[int, t.Any] = {}


def _folder(repo: Repo):
    from ..fold import Folder

    f = _FOLDERS.get(id(repo))
    if f is None:
        f = _FOLDERS[id(repo)] = Folder(repo)
    return f


class GuardEval:
    """evaluates branch atoms that depend only on the response status and the request method.

    * a local whose every reaching definition is `self.status_code` (or `self.status_code` itself) is the status;
    * `environ["REQUEST_METHOD"]` / `environ.get("REQUEST_METHOD")` on a parameter is the method;
    * everything else is unknown, and both edges of such a test are followed."""

    def __init__(self, F: Fn, status_attr: str = "status_code", method_key: str = "REQUEST_METHOD", env: dict[str, t.Any] | None = None, level: int = 0, keep_outer: bool = False):
        self.F = F
        self.status_attr = status_attr
        self.method_key = method_key
        self.env = env  # followed helper: parameter name -> value handed in by the caller (a Sigma -> value function)
        self.level = level
        if not keep_outer:
            self.outer: tuple[GuardEval, Node] | None = None  # a local function: free names are read in the enclosing function at the call
        self.evaluable: set[int] = set()
        self._tests = {n.id for n in F.cfg.nodes if n.kind == "test"}
        self._subs: dict[tuple[int, int], GuardEval] = {}
        self._memo: dict[tuple[int, int, Sigma], t.Any] = {}
        for n in F.cfg.nodes:
            if n.kind == "test" and any(self.value(n.ast, n, s) is not _UNKNOWN for s in (Sigma(200, "GET"), Sigma(100, "HEAD"), Sigma(204, "POST"), Sigma(304, "GET"))):
                self.evaluable.add(n.id)

    def _name_value(self, at: Node, ident: str, s: Sigma, depth: int) -> t.Any:
        """a local all of whose reaching definitions are plain assignments of decidable expressions with one common value;
        a parameter of a followed helper is what the caller passed; a name that is not local is a module-level constant."""
        ds = self.F.rd.reaching(at, ident)
        if depth > 4:
            return _UNKNOWN
        if not ds:
            if ident in ("True", "False", "None") or any(d.name == ident for n in self.F.cfg.nodes for d in self.F.rd.gen[n.id]):
                return _UNKNOWN
            if self.outer is not None and self.outer[0].F.rd.reaching(self.outer[1], ident):
                return self.outer[0]._name_value(self.outer[1], ident, s, depth + 1)
            try:
                v = _folder(self.F.repo).expr(self.F.fi.module, ast.Name(id=ident, ctx=ast.Load()))
            except AnalysisError:
                return _UNKNOWN
            if isinstance(v, (set, frozenset, list)):
                v = tuple(v)
            return v if isinstance(v, (int, str, tuple, range)) else _UNKNOWN
        def val_of(d) -> t.Any:
            if d.kind == "param" and self.env is not None and ident in self.env:
                return self.env[ident](s)
            if d.kind not in ("assign", "walrus") or d.index is not None or d.value is None or d.node is None:
                return _UNKNOWN
            return self.value(d.value, d.node, s, depth + 1)

        def common(vs: list) -> t.Any:
            if any(v is _UNKNOWN for v in vs):
                return _UNKNOWN
            first = vs[0]
            return first if all(type(v) is type(first) and v == first for v in vs) else _UNKNOWN

        vals = [val_of(d) for d in ds]
        got = common(vals)
        if got is not _UNKNOWN or len(ds) == 1 or any(v is _UNKNOWN for v in vals):
            return got
        # several definitions (one per branch, `case`, ...), each decided by the valuation, with different values: only
        # those count that the valuation lets reach this use.  The reachability asks for test values in turn; a nested question about
        # the same use is left undecided, which only makes more definitions count.
        key = (at.id, ident, s)
        busy = self.__dict__.setdefault("_busy", set())
        if key in busy or len(busy) >= 2:
            return _UNKNOWN
        busy.add(key)
        try:
            r0 = self.reach(s)
            live = []
            for d, v in zip(ds, vals):
                if d.node is None:
                    live.append(v)
                    continue
                if d.node.id not in r0:
                    continue
                others = [o.node for o in ds if o is not d and o.node is not None and o.node is not d.node]
                nxt = [x for x, lab in d.node.succs]
                if d.node is at or any(x is at for x in nxt) or at.id in self.reach(s, nxt, avoid_nodes=others):
                    live.append(v)
        finally:
            busy.discard(key)
        return common(live) if live else _UNKNOWN

    def _is_param(self, ident: str) -> bool:
        if ident in self.F.fi.params:
            return True
        return self.outer is not None and not any(d.name == ident for n in self.F.cfg.nodes for d in self.F.rd.gen[n.id]) and self.outer[0]._is_param(ident)

    def sub(self, call: ast.Call, at: Node) -> GuardEval | None:
        """evaluator of the package helper that `call` (evaluated in node at) lands in, with the arguments bound."""
        if self.level >= 2:
            return None
        key = (id(call), at.id)
        if key not in self._subs:
            callee = callee_of(self.F, call)
            g = None
            if callee is not None and callee is not self.F.fi and not any(isinstance(x, (ast.Yield, ast.YieldFrom)) for x in walk_no_nested(callee.node)):
                env: dict[str, t.Any] = {}
                for p, a in call_args(callee, call).items():
                    env[p] = (lambda s, a=a: self.value(a, at, s, 1))
                g = GuardEval.__new__(GuardEval)
                g.outer = (self, at) if ".<locals>." in callee.qualname else None
                g.__init__(fn_of(self.F.repo, callee), self.status_attr, self.method_key, env, self.level + 1, keep_outer=True)
            self._subs[key] = g  # type: ignore[assignment]
        return self._subs[key]

    def call_value(self, call: ast.Call, at: Node, s: Sigma) -> t.Any:
        """value of a call to a package helper under s: the common value of the returns reachable under s."""
        g = self.sub(call, at)
        if g is None:
            return _UNKNOWN
        cfg = g.F.cfg
        r = g.reach(s)
        vals = []
        for n in cfg.nodes:
            if n.id in r and isinstance(n.ast, ast.Return):
                v = g.value(n.ast.value, n, s) if n.ast.value is not None else None
                if v is _UNKNOWN:
                    return _UNKNOWN
                vals.append(v)
        if not vals or any(cfg.exit.id in {x.id for x, l in n.succs if l != "exc"} and not isinstance(n.ast, ast.Return) for n in cfg.nodes if n.id in r):
            return _UNKNOWN  # can fall off the end
        first = vals[0]
        return first if all(type(v) is type(first) and v == first for v in vals) else _UNKNOWN

    def value(self, e: ast.AST, at: Node, s: Sigma, depth: int = 0) -> t.Any:
        U = _UNKNOWN
        if isinstance(e, ast.Constant):
            return e.value
        if isinstance(e, ast.Name):
            return self._name_value(at, e.id, s, depth)
        if isinstance(e, ast.Attribute):
            if is_self_attr(e, self.status_attr) or is_self_attr(e, "_" + self.status_attr):
                return s.status
            if self.F.resolve(e.value) == "http.HTTPStatus":  # HTTPStatus.NO_CONTENT == 204 (an IntEnum of the stdlib)
                import http

                m = http.HTTPStatus.__members__.get(e.attr)
                return int(m) if m is not None else U
            return U
        if isinstance(e, ast.Subscript):
            if isinstance(e.value, ast.Name) and self._is_param(e.value.id) and isinstance(e.slice, ast.Constant) and e.slice.value == self.method_key:
                return s.method
            return U
        if isinstance(e, ast.NamedExpr):
            return self.value(e.value, at, s, depth)
        if isinstance(e, ast.IfExp):
            c = self.value(e.test, at, s, depth)
            if c is U:
                return U
            return self.value(e.body if c else e.orelse, at, s, depth)
        if isinstance(e, ast.Call):
            f = e.func
            if isinstance(f, ast.Attribute) and f.attr == "get" and isinstance(f.value, ast.Name) and self._is_param(f.value.id) and e.args and isinstance(e.args[0], ast.Constant) and e.args[0].value == self.method_key:
                return s.method
            if isinstance(f, ast.Name) and f.id in ("frozenset", "set", "tuple", "list") and len(e.args) == 1 and not e.keywords:
                v = self.value(e.args[0], at, s, depth)
                return v if isinstance(v, tuple) else U
            if isinstance(f, ast.Name) and f.id in ("int", "bool") and len(e.args) == 1 and not e.keywords:
                v = self.value(e.args[0], at, s, depth)
                return U if v is U or not isinstance(v, (int, bool)) else (int(v) if f.id == "int" else bool(v))
            if self.sub(e, at) is not None:
                return self.call_value(e, at, s)
            if isinstance(f, ast.Name) and f.id == "range" and not e.keywords and 1 <= len(e.args) <= 3:
                vs = [self.value(a, at, s, depth) for a in e.args]
                if any(v is U or not isinstance(v, int) for v in vs):
                    return U
                return range(*vs)
            return U
        if isinstance(e, (ast.Tuple, ast.List, ast.Set)):
            vs = [self.value(x, at, s, depth) for x in e.elts]
            if any(v is U for v in vs):
                return U
            return tuple(vs)
        if isinstance(e, ast.BinOp):
            a, b = self.value(e.left, at, s, depth), self.value(e.right, at, s, depth)
            if a is U or b is U or not isinstance(a, int) or not isinstance(b, int):
                return U
            try:
                if isinstance(e.op, ast.FloorDiv):
                    return a // b
                if isinstance(e.op, ast.Mod):
                    return a % b
                if isinstance(e.op, ast.Sub):
                    return a - b
                if isinstance(e.op, ast.Add):
                    return a + b
            except ZeroDivisionError:
                return U
            return U
        if isinstance(e, ast.UnaryOp) and isinstance(e.op, ast.Not):
            v = self.value(e.operand, at, s, depth)
            return U if v is U else (not v)
        if isinstance(e, ast.BoolOp):
            # truth value only: a decided operand that settles the connective settles it whatever the undecided ones are
            # (conditions are side-effect free reads here); otherwise undecided operands leave it undecided
            is_and = isinstance(e.op, ast.And)
            vs = [self.value(x, at, s, depth) for x in e.values]
            if not any(v is U for v in vs):
                for v in vs[:-1]:  # exact value semantics
                    if bool(v) != is_and:
                        return v
                return vs[-1]
            for v in vs:
                if isinstance(v, bool) and v != is_and:
                    return v
            return U
        if isinstance(e, ast.Compare):
            left = self.value(e.left, at, s, depth)
            if left is U:
                return U
            for op, c in zip(e.ops, e.comparators):
                right = self.value(c, at, s, depth)
                if right is U:
                    return U
                try:
                    if isinstance(op, ast.Eq):
                        ok = left == right
                    elif isinstance(op, ast.NotEq):
                        ok = left != right
                    elif isinstance(op, ast.Lt):
                        ok = left < right
                    elif isinstance(op, ast.LtE):
                        ok = left <= right
                    elif isinstance(op, ast.Gt):
                        ok = left > right
                    elif isinstance(op, ast.GtE):
                        ok = left >= right
                    elif isinstance(op, ast.In):
                        ok = left in right
                    elif isinstance(op, ast.NotIn):
                        ok = left not in right
                    else:
                        return U
                except TypeError:
                    return U
                if not ok:
                    return False
                left = right
            return True
        return U

    def truth(self, e: ast.AST, at: Node, s: Sigma) -> bool | None:
        v = self.value(e, at, s)
        return None if v is _UNKNOWN else bool(v)

    def _reach0(self, s: Sigma) -> set[int]:
        memo = self.__dict__.setdefault("_r0", {})
        if s not in memo:
            memo[s] = self.reach(s)
        return memo[s]

    def reach(self, s: Sigma, start: Node | t.Iterable[Node] | None = None, avoid_nodes: t.Iterable[Node] = ()) -> set[int]:
        """ids of the nodes reachable under valuation s; tests that s decides contribute only the decided edge."""
        cfg = self.F.cfg
        if start is None:
            stack = [cfg.entry]
        elif isinstance(start, Node):
            stack = [start]
        else:
            stack = list(start)
        avoid = {n.id for n in avoid_nodes}
        seen: set[int] = set()
        while stack:
            n = stack.pop()
            if n.id in seen:
                continue
            seen.add(n.id)
            only = None
            if n.id in self._tests:
                v = self.value(n.ast, n, s)
                if v is not _UNKNOWN:
                    only = "T" if v else "F"
            for nx, lab in n.succs:
                if only is not None and lab in ("T", "F") and lab != only:
                    continue
                if nx.id in avoid:
                    continue
                stack.append(nx)
        return seen


# ---------------------------------------------------------------------
# small shape predicates


def const_key(e: ast.AST | None) -> str | None:
    if isinstance(e, ast.Constant) and isinstance(e.value, str):
        return e.value.lower()
    return None


def is_empty_literal(e: ast.AST | None) -> bool:
    if isinstance(e, (ast.Tuple, ast.List)) and not e.elts:
        return True
    if isinstance(e, ast.Constant) and e.value in (b"", ""):
        return True
    if isinstance(e, ast.Call) and isinstance(e.func, ast.Name) and e.func.id in ("list", "tuple", "iter") and not e.keywords:
        if not e.args:
            return True
        return len(e.args) == 1 and is_empty_literal(e.args[0])
    return False


def none_test(e: ast.AST) -> tuple[ast.AST, str] | None:
    """atom testing presence of a value: (tested expr, label of the 'present' edge)."""
    if isinstance(e, ast.Compare) and len(e.ops) == 1 and isinstance(e.comparators[0], ast.Constant) and e.comparators[0].value is None:
        if isinstance(e.ops[0], ast.IsNot):
            return e.left, "T"
        if isinstance(e.ops[0], ast.Is):
            return e.left, "F"
        return None
    if isinstance(e, (ast.Name, ast.Attribute)):
        return e, "T"
    return None


def header_stores(fn: ast.AST, keys: set[str]) -> list[tuple[ast.AST, ast.AST, str, ast.AST]]:
    """(statement-or-call, header object expr, lower-cased key, stored value) for `H[K] = V`, `H.set(K, V)`, `H.add(K, V)`."""
    out = []
    for n in walk_no_nested(fn):
        if isinstance(n, (ast.Assign, ast.AnnAssign)) and getattr(n, "value", None) is not None:
            tgts = n.targets if isinstance(n, ast.Assign) else [n.target]
            for tg in tgts:
                if isinstance(tg, ast.Subscript):
                    k = const_key(tg.slice)
                    if k in keys:
                        out.append((n, tg.value, k, n.value))
        elif isinstance(n, ast.Call) and isinstance(n.func, ast.Attribute) and n.func.attr in ("set", "add", "add_header", "setdefault") and len(n.args) >= 2:
            k = const_key(n.args[0])
            if k in keys:
                out.append((n, n.func.value, k, n.args[1]))
    return out


def header_removals(fn: ast.AST, keys: set[str]) -> list[tuple[ast.AST, ast.AST, str]]:
    """(node, header object expr, key) for `H.remove(K)`, `H.pop(K, ..)`, `del H[K]`."""
    out = []
    for n in walk_no_nested(fn):
        if isinstance(n, ast.Call) and isinstance(n.func, ast.Attribute) and n.func.attr in ("remove", "pop", "__delitem__") and n.args:
            k = const_key(n.args[0])
            if k in keys:
                out.append((n, n.func.value, k))
        elif isinstance(n, ast.Delete):
            for tg in n.targets:
                if isinstance(tg, ast.Subscript):
                    k = const_key(tg.slice)
                    if k in keys:
                        out.append((n, tg.value, k))
    return out


def isinstance_atom(e: ast.AST) -> tuple[ast.AST, set[str]] | None:
    """`isinstance(X, C)` / `isinstance(X, (C1, C2))` -> (X, {last component of each class name})."""
    if isinstance(e, ast.Call) and isinstance(e.func, ast.Name) and e.func.id == "isinstance" and len(e.args) == 2:
        c = e.args[1]
        elts = c.elts if isinstance(c, ast.Tuple) else [c]
        names = set()
        for x in elts:
            d = dotted(x)
            if d is None:
                return None
            names.add(d.rsplit(".", 1)[-1])
        return e.args[0], names
    return None


# ---------------------------------------------------------------------
# `match` statements: the CFG builder of the engine refuses them, so the simple forms are rewritten (in the parsed tree of
# the scratch/loaded repository, never on disk) into the if/elif chain they mean before any CFG is built.


def _pattern_test(pat: ast.AST, subj: ast.expr) -> tuple[ast.expr | None, list[tuple[str, ast.expr]]] | None:
    """(condition or None for 'always', [(captured name, value)]) of a pattern; None when the pattern is not modelled."""

    def ld() -> ast.expr:
        return ast.parse(ast.unparse(subj), mode="eval").body

    M = ast  # the Match* node classes exist on every supported interpreter (3.10+)
    if isinstance(pat, M.MatchValue):
        return ast.Compare(left=ld(), ops=[ast.Eq()], comparators=[pat.value]), []
    if isinstance(pat, M.MatchSingleton):
        return ast.Compare(left=ld(), ops=[ast.Is()], comparators=[ast.Constant(value=pat.value)]), []
    if isinstance(pat, M.MatchClass) and not pat.patterns and not pat.kwd_patterns:
        return ast.Call(func=ast.Name(id="isinstance", ctx=ast.Load()), args=[ld(), pat.cls], keywords=[]), []
    if isinstance(pat, M.MatchAs):
        if pat.pattern is None:
            return None, ([(pat.name, ld())] if pat.name else [])
        inner = _pattern_test(pat.pattern, subj)
        if inner is None:
            return None
        return inner[0], inner[1] + ([(pat.name, ld())] if pat.name else [])
    if isinstance(pat, M.MatchOr):
        tests = []
        for alt in pat.patterns:
            r = _pattern_test(alt, subj)
            if r is None or r[1]:
                return None
            if r[0] is None:
                return None, []
            tests.append(r[0])
        return ast.BoolOp(op=ast.Or(), values=tests), []
    return None


def _rewrite_match(st: ast.AST, counter: list[int]) -> list[ast.stmt] | None:
    subj = st.subject  # type: ignore[attr-defined]
    pre: list[ast.stmt] = []
    if not isinstance(subj, ast.Name):
        counter[0] += 1
        tmp = f"_match_subject_{counter[0]}"
        pre.append(ast.Assign(targets=[ast.Name(id=tmp, ctx=ast.Store())], value=subj))
        subj = ast.Name(id=tmp, ctx=ast.Load())
    chain: ast.If | None = None
    last: ast.If | None = None
    for case in st.cases:  # type: ignore[attr-defined]
        r = _pattern_test(case.pattern, subj)
        if r is None:
            return None
        test, caps = r
        body = [ast.Assign(targets=[ast.Name(id=n, ctx=ast.Store())], value=v) for n, v in caps] + list(case.body)
        if case.guard is not None:
            # the guard reads the captures: they are plain aliases of the subject, so it is evaluated on the subject
            g = ast.parse(ast.unparse(case.guard), mode="eval").body
            names = {n: v for n, v in caps}

            class Sub(ast.NodeTransformer):
                def visit_Name(self, n: ast.Name):  # noqa: N802
                    return ast.parse(ast.unparse(names[n.id]), mode="eval").body if n.id in names and isinstance(n.ctx, ast.Load) else n

            g = Sub().visit(g)
            test = g if test is None else ast.BoolOp(op=ast.And(), values=[test, g])
        if test is None:
            test = ast.Constant(value=True)
        node = ast.If(test=test, body=body, orelse=[])
        if chain is None:
            chain = node
        else:
            assert last is not None
            last.orelse = [node]
        last = node
    if chain is None:
        return None
    return pre + [chain]


def desugar_match(repo: Repo) -> int:
    """rewrite the modelled `match` statements of every loaded module into if/elif chains; returns how many."""
    done = 0
    counter = [0]
    for m in repo.modules.values():
        if "match " not in m.source:
            continue
        changed = True
        while changed:
            changed = False
            for parent in ast.walk(m.tree):
                for field in ("body", "orelse", "finalbody"):
                    seq = getattr(parent, field, None)
                    if not isinstance(seq, list):
                        continue
                    for i, st in enumerate(seq):
                        if st.__class__.__name__ == "Match":
                            new = _rewrite_match(st, counter)
                            if new is None:
                                continue
                            for n in new:
                                ast.copy_location(n, st)
                                ast.fix_missing_locations(n)
                            seq[i : i + 1] = new
                            for n in new:
                                n._parent = parent  # type: ignore[attr-defined]
                                for x in ast.walk(n):
                                    for ch in ast.iter_child_nodes(x):
                                        ch._parent = x  # type: ignore[attr-defined]
                            done += 1
                            changed = True
                            break
                    if changed:
                        break
                if changed:
                    break
    return done



# ---------------------------------------------------------------------
# a container that is changed in size while a loop is iterating it
#
# key of a container: the access path that names the object - ("param", name, attr, ...) for a parameter (`self` is one)
# and what hangs off it, ("local", name, <reaching definitions>, attr, ...) for a local that is not a plain alias; a
# local bound once to such a path is that path (`callbacks = self._on_close`).

SHRINKERS = {"remove", "pop", "popitem", "clear", "insert", "discard", "__delitem__"}
ITERTOOLS_VIEWS = {"filterfalse", "takewhile", "dropwhile", "islice", "chain"}
LAZY_VIEWS = {"iter", "enumerate", "zip", "filter", "map"} | ITERTOOLS_VIEWS
DICT_VIEWS = {"items", "keys", "values"}

Key = tuple


def container_key(F: Fn, at: Node | None, e: ast.AST | None, depth: int = 0) -> Key | None:
    attrs: list[str] = []
    while isinstance(e, ast.Attribute):
        attrs.append(e.attr)
        e = e.value
    attrs.reverse()
    if not isinstance(e, ast.Name) or at is None or depth > 4:
        return None
    bs = bindings(F, at, e)
    if not bs:
        return None
    if all(b.kind == "param" for b in bs):
        root: Key = ("param", e.id)
    elif len(bs) == 1 and bs[0].kind == "value" and bs[0].path == () and bs[0].node is not None and isinstance(bs[0].expr, (ast.Name, ast.Attribute)):
        base = container_key(F, bs[0].node, bs[0].expr, depth + 1)
        if base is None:
            return None
        root = base
    else:
        root = ("local", e.id, tuple(sorted(d.node.id if d.node is not None else -1 for d in F.rd.reaching(at, e.id))))
    return root + tuple(attrs)


def _own_iter_attr(F: Fn) -> Key | None:
    """iterating `self`: the attribute the class's own __iter__ hands out (`return iter(self._list)`), as a key suffix."""
    cls = F.fi.cls
    if cls is None:
        return None
    _, what = F.repo.lookup(cls, "__iter__")
    if not isinstance(what, FuncInfo):
        return None
    G = fn_of(F.repo, what)
    rets = [n for n in walk_no_nested(what.node) if isinstance(n, ast.Return) and n.value is not None]
    yf = [n for n in walk_no_nested(what.node) if isinstance(n, ast.YieldFrom)]
    got: set[Key] = set()
    for r in rets:
        ks = iterated_keys(G, G.cfg.node_of(r), r.value, 1, follow_self=False)
        got |= ks or {()}
    for y in yf:
        ks = iterated_keys(G, G.cfg.node_of(y), y.value, 1, follow_self=False)
        got |= ks or {()}
    if len(got) == 1:
        k = got.pop()
        if len(k) >= 3 and k[0] == "param" and what.params and k[1] == what.params[0]:
            return k[2:]
    return None


def iterated_keys(F: Fn, at: Node | None, e: ast.AST | None, depth: int = 0, follow_self: bool = True) -> set[Key]:
    """the containers an iteration over e walks *in place* (no copy in between): e itself, iter()/enumerate()/zip()/
    filter()/map() of it, a dict view of it, a generator expression over it, a local bound once to one of these, the
    object itself when its class's __iter__ hands out an attribute, a package generator method that loops over it."""
    if e is None or at is None or depth > 6:
        return set()
    if isinstance(e, ast.NamedExpr):
        e = e.value
    if isinstance(e, ast.GeneratorExp):
        out: set[Key] = set()
        for g in e.generators:
            out |= iterated_keys(F, at, g.iter, depth + 1, follow_self)
        return out
    if isinstance(e, ast.Call):
        f = e.func
        fname = (dotted(f) or "").rsplit(".", 1)[-1]
        if fname in LAZY_VIEWS and (isinstance(f, ast.Name) and not bindings(F, at, f) or fname in ITERTOOLS_VIEWS and (F.resolve(f) or "itertools.").startswith("itertools.")):
            args = e.args[1:] if fname in ("filter", "map", "filterfalse", "takewhile", "dropwhile") else e.args[:1] if fname in ("iter", "enumerate", "islice") else e.args
            if fname == "iter" and len(e.args) != 1:
                return set()
            out = set()
            for a in args:
                if not isinstance(a, ast.Starred):
                    out |= iterated_keys(F, at, a, depth + 1, follow_self)
            return out
        callee = callee_of(F, e)
        if callee is not None and callee is not F.fi and any(isinstance(x, (ast.Yield, ast.YieldFrom)) for x in walk_no_nested(callee.node)):
            # a generator of the package: it walks what its own loops walk, for as long as the caller's loop runs
            G = fn_of(F.repo, callee)
            inner: set[Key] = set()
            for n in walk_no_nested(callee.node):
                if isinstance(n, (ast.For, ast.AsyncFor)) and any(isinstance(x, (ast.Yield, ast.YieldFrom)) for s_ in n.body for x in [s_, *walk_no_nested(s_)]):
                    inner |= iterated_keys(G, G.cfg.node_of(n), n.iter, depth + 1, follow_self)
                elif isinstance(n, ast.YieldFrom):
                    inner |= iterated_keys(G, G.cfg.node_of(n), n.value, depth + 1, follow_self)
            return {k2 for k in inner for k2 in [map_key(F, at, callee, e, k)] if k2 is not None}
        if isinstance(f, ast.Attribute) and f.attr in DICT_VIEWS and not e.args and not e.keywords and callee is None:
            k = container_key(F, at, f.value)
            return {k} if k is not None and len(k) > 2 else set()
        return set()
    if isinstance(e, ast.Name):
        bs = bindings(F, at, e)
        if len(bs) == 1 and bs[0].kind == "value" and bs[0].path == () and bs[0].node is not None and isinstance(bs[0].expr, (ast.Call, ast.GeneratorExp)):
            return iterated_keys(F, bs[0].node, bs[0].expr, depth + 1, follow_self)
    if isinstance(e, (ast.Name, ast.Attribute)):
        k = container_key(F, at, e)
        if k is None:
            return set()
        if len(k) == 2 and k[0] == "param" and F.fi.cls is not None and F.fi.params and k[1] == F.fi.params[0]:
            if not follow_self:
                return set()
            suffix = _own_iter_attr(F)
            return {k + suffix} if suffix else set()
        return {k}
    return set()


def map_key(F: Fn, at: Node | None, callee: FuncInfo, call: ast.Call, k: Key) -> Key | None:
    """a key in the callee's terms (rooted at one of its parameters) in the caller's terms."""
    if len(k) < 2 or k[0] != "param":
        return None
    args = call_args(callee, call)
    p = k[1]
    f = call.func
    arg: ast.AST | None = args.get(p)
    if arg is None and callee.cls is not None and callee.params and p == callee.params[0] and isinstance(f, ast.Attribute) and not _is_static(callee):
        arg = f.value  # the receiver is the callee's self
    if arg is None:
        return None
    base = container_key(F, at, arg)
    return base + tuple(k[2:]) if base is not None else None


def _len_of(e: ast.AST, xs: ast.AST) -> bool:
    return isinstance(e, ast.Call) and isinstance(e.func, ast.Name) and e.func.id == "len" and len(e.args) == 1 and norm(e.args[0]) == norm(xs)


def shrink_sites(F: Fn, stmts: t.Iterable[ast.AST], depth: int = 0, _seen: frozenset[str] = frozenset()) -> list[tuple[Node, Key, str]]:
    """(CFG node, container, what) for the operations inside the statements that remove entries from a container or
    insert one before its end: remove/pop/popitem/clear/insert/discard, `del c[i]`, `del c[a:b]`, `c[a:b] = ...`, and
    calls of package helpers (methods on self, module-level and local functions) that do one of these to a parameter
    or to an attribute of `self` - followed two levels.  Additions at the end (append, extend, +=) are not counted."""
    out: list[tuple[Node, Key, str]] = []
    todo: list[ast.AST] = []
    for s_ in stmts:
        todo.append(s_)
        todo.extend(walk_no_nested(s_))
    for x in todo:
        tgt: list[tuple[ast.AST, str]] = []
        if isinstance(x, ast.Call) and isinstance(x.func, ast.Attribute) and x.func.attr in SHRINKERS:
            if x.func.attr == "insert" and len(x.args) == 2 and _len_of(x.args[0], x.func.value):
                continue
            tgt.append((x.func.value, f"`{norm(x)[:70]}`"))
        elif isinstance(x, ast.Delete):
            tgt += [(tg.value, f"`{norm(x)[:70]}`") for tg in x.targets if isinstance(tg, ast.Subscript)]
        elif isinstance(x, (ast.Assign, ast.AnnAssign)):
            tgs = x.targets if isinstance(x, ast.Assign) else [x.target]
            flat = [e2 for tg in tgs for e2 in (tg.elts if isinstance(tg, (ast.Tuple, ast.List)) else [tg])]
            tgt += [(tg.value, f"`{norm(tg)} = ...`") for tg in flat if isinstance(tg, ast.Subscript) and isinstance(tg.slice, ast.Slice)]
        cn = F.cfg.node_of(x) if tgt or isinstance(x, ast.Call) else None
        for recv, what in tgt:
            k = container_key(F, cn, recv)
            if k is None or cn is None:
                continue
            if len(k) == 2 and k[0] == "param" and F.fi.cls is not None and F.fi.params and k[1] == F.fi.params[0]:
                continue  # a method called on self itself: judged by what the method does (followed below)
            out.append((cn, k, what))
        if isinstance(x, ast.Call) and depth < 2 and cn is not None:
            callee = callee_of(F, x)
            if callee is not None and callee is not F.fi and callee.fq not in _seen:
                G = fn_of(F.repo, callee)
                for _, k, what in shrink_sites(G, callee.node.body, depth + 1, _seen | {F.fi.fq, callee.fq}):
                    k2 = map_key(F, cn, callee, x, k)
                    if k2 is not None:
                        out.append((cn, k2, f"`{norm(x)[:50]}` -> {callee.qualname}: {what}"))
    return out


def _inside(F: Fn, stmts: list[ast.stmt]) -> set[int]:
    ids = {id(a) for s_ in stmts for a in [s_, *ast.walk(s_)]}
    return {n.id for n in F.cfg.nodes if n.ast is not None and id(n.ast) in ids}


def next_iteration_follows(F: Fn, head: Node, body: list[ast.stmt], site: Node) -> bool:
    """after the operation at `site` the loop can go on to another iteration without leaving the loop first."""
    inside = _inside(F, body)
    seen: set[int] = set()
    stack = [s_ for s_, _ in site.succs]
    while stack:
        n = stack.pop()
        if n is head:
            return True
        if n.id in seen or n.id not in inside:
            continue
        seen.add(n.id)
        stack.extend(s_ for s_, _ in n.succs)
    return False


class LoopFact(t.NamedTuple):
    node: ast.AST  # the loop / comprehension
    keys: set  # containers it walks in place
    hits: list  # (what, container) of the size changes after which the iteration goes on


def fmt_key(k: Key) -> str:
    parts = [k[1], *k[3:]] if k[0] == "local" else list(k[1:])
    return ".".join(str(p) for p in parts)


def iteration_facts(F: Fn) -> list[LoopFact]:
    """one fact per `for` loop / comprehension of the function that walks a nameable container in place."""
    out: list[LoopFact] = []
    for n in [F.fi.node, *walk_no_nested(F.fi.node)]:
        if isinstance(n, (ast.For, ast.AsyncFor)):
            head = F.cfg.node_of(n)
            if head is None or head.ast is not n:
                continue
            keys = iterated_keys(F, head, n.iter)
            if not keys:
                continue
            hits = [(what, k) for cn, k, what in shrink_sites(F, n.body) if k in keys and cn is not None and next_iteration_follows(F, head, n.body, cn)]
            out.append(LoopFact(n, keys, hits))
        elif isinstance(n, ast.While):
            # an explicit iterator made before the loop and advanced with next() in it: `it = iter(xs)` / `while ...: f = next(it, END)`
            head = F.cfg.node_of(n)
            if head is None or head.ast is not n:
                continue
            region: list[ast.AST] = [n.test, *n.body]
            inside = _inside(F, region)  # type: ignore[arg-type]
            keys = set()
            for c in [x for r_ in region for x in [r_, *walk_no_nested(r_)]]:
                if isinstance(c, ast.Call) and isinstance(c.func, ast.Name) and c.func.id == "next" and c.args and isinstance(c.args[0], ast.Name):
                    cn = F.cfg.node_of(c)
                    bs = bindings(F, cn, c.args[0]) if cn is not None else []
                    if len(bs) == 1 and bs[0].kind == "value" and bs[0].path == () and bs[0].node is not None and bs[0].node.id not in inside:
                        keys |= iterated_keys(F, bs[0].node, bs[0].expr)
            if not keys:
                continue
            hits = [(what, k) for cn, k, what in shrink_sites(F, n.body) if k in keys and cn is not None and next_iteration_follows(F, head, region, cn)]  # type: ignore[arg-type]
            out.append(LoopFact(n, keys, hits))
        elif isinstance(n, (ast.ListComp, ast.SetComp, ast.DictComp, ast.GeneratorExp)):
            at = F.cfg.node_of(n)
            if at is None:
                continue
            keys = set()
            for g in n.generators:
                keys |= iterated_keys(F, at, g.iter)
            if not keys:
                continue
            parts: list[ast.AST] = [*( [n.key, n.value] if isinstance(n, ast.DictComp) else [n.elt]), *[c for g in n.generators for c in g.ifs]]
            hits = [(what, k) for cn, k, what in shrink_sites(F, [ast.Expr(value=p) for p in parts]) if k in keys]
            out.append(LoopFact(n, keys, hits))
    return out
