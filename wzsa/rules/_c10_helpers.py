"""helpers of the C10 rule module (on top of the path machinery in _c09_helpers)."""

from __future__ import annotations

import ast
import typing as t

from ..loader import ClassInfo, FuncInfo, dotted
from ._c09_helpers import Ev, Lin, NFunc, Path, _known_ge0, normalise

RETL = "RequestEntityTooLarge"


def exceed_conds(p: Path, limit_term: str) -> list[tuple[str, bool]]:
    """conditions of the path that say "something >= the limit (+c)": a comparison against the limit taken on its exceeded side."""
    out = []
    for k, v, _ in p.conds:
        if not k.startswith("GE0: "):
            continue
        for g in _known_ge0(k, v):
            if g.terms.get(limit_term, 0) < 0 and any(c > 0 for c in g.terms.values()):
                out.append((k, v))
    return out


def within_conds(p: Path, limit_term: str, upto: int | None = None) -> list[Lin]:
    """forms g (>= 0 on this path) that bound something by the limit: the limit has a positive coefficient."""
    out = []
    for k, v, _ in (p.conds if upto is None else p.conds[:upto]):
        if not k.startswith("GE0: "):
            continue
        for g in _known_ge0(k, v):
            if g.terms.get(limit_term, 0) > 0:
                out.append(g)
    return out


def roots_of(repo, cls: ClassInfo, want: t.Callable[[FuncInfo], bool]) -> dict[str, NFunc]:
    """normal forms of the methods that are entry points: a private method whose every use inside the class has been
    expanded into its caller is not analysed on its own (it has no behaviour of its own any more)."""
    nfs = {name: normalise(repo, fi, want) for name, fi in cls.methods.items() if "." not in name}
    absorbed: set[str] = set()
    for name, fi in cls.methods.items():
        if not name.startswith("_") or (name.startswith("__") and name.endswith("__")) or name not in nfs:
            continue
        users = []
        for other, ofi in cls.methods.items():
            if other == name:
                continue
            sn = ofi.params[0] if ofi.params else "self"
            if any(isinstance(x, ast.Attribute) and x.attr == name and isinstance(x.value, ast.Name) and x.value.id == sn for x in ast.walk(ofi.node)):
                users.append(other)
        if users and all(u in nfs and any(h is fi for h in nfs[u].inlined) and not any(h is fi for h, _ in nfs[u].refused) for u in users):
            absorbed.add(name)
    return {k: v for k, v in nfs.items() if k not in absorbed}


def bind_call(call: ast.Call, callee: FuncInfo, bound: bool) -> dict[str, ast.AST] | None:
    """callee parameter -> argument expression of this call (None when the call cannot be bound statically)."""
    a = callee.node.args  # type: ignore[attr-defined]
    if any(k.arg is None for k in call.keywords):
        # `**{...}` / `**dict(k=v)` with literal keys (a substituted local) is spelled-out keywords
        kws: list[ast.keyword] = []
        for k in call.keywords:
            if k.arg is not None:
                kws.append(k)
            elif isinstance(k.value, ast.Dict) and all(isinstance(x, ast.Constant) and isinstance(x.value, str) for x in k.value.keys):
                kws.extend(ast.keyword(arg=x.value, value=v) for x, v in zip(k.value.keys, k.value.values))  # type: ignore[union-attr]
            elif isinstance(k.value, ast.Call) and dotted(k.value.func) == "dict" and not k.value.args and all(x.arg is not None for x in k.value.keywords):
                kws.extend(k.value.keywords)
            else:
                return None
        call = ast.Call(func=call.func, args=call.args, keywords=kws)
    if any(isinstance(x, ast.Starred) for x in call.args):
        return None
    pos = [x.arg for x in a.posonlyargs + a.args]
    if bound:
        pos = pos[1:]
    names = pos + [x.arg for x in a.kwonlyargs]
    out: dict[str, ast.AST] = {}
    if len(call.args) > len(pos) and not a.vararg:
        return None
    for p, v in zip(pos, call.args):
        out[p] = v
    for k in call.keywords:
        if k.arg in out:
            return None
        if k.arg in names or a.kwarg:
            out[k.arg] = k.value  # type: ignore[index]
        else:
            return None
    return out


def raised_retl(p: Path) -> bool:
    return p.outcome == "raise" and p.raised() == RETL


def callee_last(ev: Ev, substituted: bool = False) -> str | None:
    """last component of the callee: as written, or (substituted) of what the callee expression evaluates to
    (`make = self.form_data_parser_class; make(...)` calls form_data_parser_class)."""
    src = ev.call if substituted else ev.raw
    if not isinstance(src, ast.Call):
        return None
    f = src.func
    if isinstance(f, ast.Attribute):
        return f.attr
    d = dotted(f)
    return d.rsplit(".", 1)[-1] if d else None
