"""C01 - multipart decoding does not depend on how the body is chunked (structural clauses).

The property is an equality of event streams over all split schedules.  What is decided
here are necessary conditions that are visible in the shape of the decoder:

R1.1  the tail that a failed incremental search keeps is at least as long as the longest
      beginning of a match of the pattern searched next that does not match yet;
R1.2  the saved search offset is never used against a buffer or a pattern other than the
      one it was computed for (typestate over the protocol states);
R1.3  the form parser feeds every chunk and drains the decoder after each one (followed as the
      class of the last next_event() result over the CFGs, whatever the loop looks like); the
      chunk reader ends on an empty read only, loses no read and then signals the end;
R1.4  a shortcut that releases the whole buffer while waiting for a delimiter fires only
      when the pending tail is longer than the longest incomplete delimiter;
R1.5  that shortcut measures the pending tail from the last line break, not from an
      earlier one;
R1.6  the scan that decides how much to hold back covers every byte the delimiter search
      covers;
R1.7  when no delimiter was found, what is deleted from the buffer reaches at least to the
      start of the returned payload (the line break skipped in front of a part body is
      consumed together with the decision to skip it);
R1.8  the line break that opens a part body is skipped once per part: on every path through
      next_event, a splitter call that skips it deletes it from the buffer if and only if the
      decoder leaves the protocol states in which the splitter skips;
R1.9  the form parser collects the payload of every Data event as received and joins the
      collected pieces with nothing in between (no per-piece decode / strip / replace / slice:
      the pieces are cut wherever the read buffer ends);
R1.10 the hold-back position is never after the place where a delimiter that is not complete yet can begin (the
      start of the last line break of the scanned region), whatever the order and adjacency of the last CR and LF;
R1.11 because the delimiter patterns accept a line break that is not complete (a bare CR in front of the LF that
      arrives with the next chunk), the stage that follows a delimiter gives the same part headers with and without
      the rest of that line break in front of the header block.
"""

from __future__ import annotations

import ast
import re
import typing as t

from .. import astq
from ..cfg import Node, cfg_of
from ..dataflow import ReachingDefs
from ..fold import Folder, RegexConst, Unfoldable
from ..loader import AnalysisError, AnchorMissing, ClassInfo, FuncInfo, dotted, is_self_attr, norm, walk_no_nested
from ..report import Ctx
from ._c01_helpers import (
    EV_START, PLACEHOLDER, RD_EMPTY, ReadFlow, SAMPLE_N, Aff, AffEval, EvFact, EventFlow, FieldFlow, Lang, Lin, NotAffine, PathExec, Roles, SearchSite, Typestate, fit, fmt_off,
    MiniEval, SelfRef, _PyRaise, _Unmodelled,
    anchor_summary, anchor_table, attr_copies, attr_of, bind_args, delimiter_start, line_break_words, self_call_closure, state_test_parts, strip_max0, windowed_searches,
)

LEVEL_TEXT = (
    "Static decision of eleven structural clauses of C01 on /repo's current source, with the boundary symbolic (any length >= 1) "
    "and delimiters without trailing blanks: (R1.1) wherever MultipartDecoder.next_event searches the buffer from a saved "
    "offset, every window `len(buffer) - K` that can reach that search has K >= the longest proper prefix of a word of the "
    "pattern searched there in which the pattern does not match yet (what a failed search can leave at the end of the buffer), "
    "not counting that word's optional leading part when the match start only feeds the uncompared Preamble bytes; (R1.2) abstract "
    "interpretation of __init__ followed by any sequence of public calls over (protocol state, offset validity): the offset "
    "that reaches a search is 0 or a window computed by a failed search of the same pattern in the same state with no "
    "buffer prefix deleted since (the state assigned is read as the set of Enum members the expression can denote: member, conditional "
    "expression, selection from a literal table, local, parameter of a setter helper, result of a helper; the state attribute itself read in that very assignment - `self.state = X if c else self.state` - stands for no change; state tests may go through a local copy "
    "of the state or a named constant set, or be a membership test in a literal table keyed by the members); (R1.3) abstract interpretation of MultiPartParser.parse and of the helpers / generators / nested "
    "functions it hands the decoder to, over the class of the value next_event() returned last: whenever the next chunk is fed and when parse "
    "returns that class is NeedData or Epilogue (every test on the event is evaluated for its meaning on the class: isinstance with a class, tuple, "
    "union or named constant, exact type, identity with the NEED_DATA constant, flags computed from such tests, predicates extracted into a helper; "
    "the shape of the loop is irrelevant), every chunk of the loop over the chunk generator reaches receive_data unmodified on every path "
    "(directly or through a helper that is given the decoder and the chunk); the chunk generator is followed over (status of the last read: "
    "none / empty / pending / yielded): no path reads again or ends with a pending non-empty read, it ends only after an empty read and every "
    "path to its end yields None last (reads are calls through a parameter, also as the callable of iter(callable, b'')); "
    "(R1.4) in _parse_data every release of the whole buffer without a delimiter is guarded by `pending tail > T` with T >= "
    "the longest incomplete prefix of the delimiter language (folded from boundary_re) that is consistent with what the "
    "branch knows about the buffer; (R1.5) the position that guard measures from is not before the place where the last line break of the scanned region begins: the anchor helper "
    "(method, static method or module function of one argument - or of the buffer and the start of the region to scan, read as `anchor(buffer[start:]) + start` once the table has confirmed that this is what it computes for every argument and start -) is evaluated from its source on every argument of up to 6 bytes over CR, LF, the bytes it names and one byte that stands for "
    "every other byte - constants are propagated through its statements with a closed set of pure operations on bytes, integers and lists, private helpers followed - so the verdict does not "
    "depend on how it is written (rindex + except, rfind, rpartition, slices and byte tests, index arithmetic, backward scans, loops over the line-break bytes, min/max or comparisons by hand); (R1.6) the hold-back scan starts no "
    "later than the delimiter search; (R1.7) on every return of _parse_data that continues the part (deleted prefix = hold-back position or whole "
    "buffer) `deleted prefix - payload start` has a lower bound >= 0 as an affine expression over len(buffer) >= match positions >= 0, "
    "anchor results >= 0 (or >= -1 for an rfind-style anchor) and len(boundary) >= 1, so the line break skipped in front of a part body never "
    "stays in the buffer to be read again as payload; (R1.8) every path through next_event from every protocol state is followed with the helpers "
    "that touch the state or the buffer inlined (protocol state concrete, locals symbolic, a condition over locals decided once per path so that "
    "`more = m is None`, `if m is not None` and `if more` agree; results unpacked from tuples, read back by index or from the fields of an event built on "
    "the path; a flag read from a literal table indexed by the state is the entry of the current state; `while` loops unrolled up to a bound): on a path where the splitter call skipped a line break in front of the payload, either a prefix "
    "is deleted from the buffer afterwards and next_event ends in a state in which the splitter does not skip, or nothing is deleted and it ends in a state "
    "in which it skips - otherwise the next call skips a second line break (the payload's own) or reads the skipped one again as payload; whether a call "
    "skips must be decided by the protocol state (a skip that hangs on another flag stops with ANALYSIS-ERROR); (R1.10) for every hold-back position `anchor(region) + start of region` that _parse_data releases the buffer up to, "
    "and every region of that table, the anchor's answer is at or before the start of the longest suffix of the region that is a line break of the delimiter's line-break class (the beginnings of the words of boundary_re: CR LF, LF, CR) "
    "followed by bytes that are not line breaks, or a proper beginning of such a line break at the very end - the place where a delimiter whose rest has not arrived can begin - and nothing is added to the position beyond the start of the region; "
    "an anchor that overlooks a CR not followed by LF, the CR of a CR LF pair, or one of the line-break bytes fails for the order types concerned; (R1.11) premise, decided on the delimiter patterns compiled in __init__: two complete matches w and w + r "
    "of a delimiter that opens a part exist (the line-break alternatives CR and CR LF), so a chunk that ends after w makes the match end there and r arrives in front of the part headers; obligation: the expression that turns the head of the buffer "
    "into an argument of a part-opening event (an event class without a bytes field; found by following the constructor argument back through plain local assignments, helper parameters, the elements of a dict / tuple display and the one return value of a helper of the decoder "
    "that reads the buffer itself, to the prefix slice of the buffer) is evaluated in the same way "
    "on representative header blocks (one and two headers, CR LF and bare LF line ends, a folded header) with and without r in front, and must give the same value (equal header lists; an opaque container is compared by its constructor arguments and the calls made on it); "
    "an argument that is computed from that value by further steps which cannot be evaluated (the Content-Disposition options, however they are obtained: `parse_options_header(headers[...])[1].get(...)`, a helper given the headers) is a function of it and is decided on "
    "the outermost enclosing expression of the block that can be evaluated - same value there, same argument; arguments that share that expression are one instance; when only such an intermediate value differs and no event argument is that value itself, it stops with ANALYSIS-ERROR: "
    "empty lines have to be skipped, however that is written (test on the stripped line, `continue`, filter in a comprehension or generator helper, truth of `line.strip()`); when the value differs and the buffer is modified on a path to that expression, it stops with ANALYSIS-ERROR; (R1.9) in MultiPartParser.parse and the "
    "helpers it hands the decoder, the event or the payload to, every read of the bytes payload of the event class that carries the `more data` flag is "
    "followed (locals, bytes()/memoryview() copies, casts, byte-wise maps, conditional expressions, helper parameters, a collecting callable held in a "
    "local or passed as an argument) to where it is collected (append / write / extend / `+=` / stored): no method of the payload (decode, strip, replace, "
    "split, ...), slice or str(..., encoding) may be applied to the single piece on the way, because the pieces are cut where the read buffer ends; "
    "a list the pieces are collected in is followed to its `.join(...)` (through local copies, casts, the parameter of a helper / module function / nested function it is passed as - by position or keyword, at any depth -, a closure) and is joined with an empty separator, its elements as they are "
    "(copies - tuple / list / iter of the list, bytes() / memoryview().tobytes() of a piece, byte-wise maps - and dropping empty pieces change nothing; a method other than a query, or a slice, applied to each piece is a violation; any other per-piece expression or filter stops with ANALYSIS-ERROR); "
    "uses of the payload that are not understood stop with ANALYSIS-ERROR. A window assignment that sits in a private helper is read per call site with the helper's "
    "parameters replaced by the call's arguments, and a window position that a helper (method, static method or module function, up to three levels) returns "
    "is read through the helper in the same way (every return other than the constant 0 must denote the same `len(buffer) - K`; the buffer may be passed "
    "as an argument; a helper that can delete buffer content is not followed); attributes assigned once in __init__ (a precomputed tail length / delimiter text) are read through; "
    "the buffer and the offset may be read through local copies. In _parse_data release positions are followed through locals, tuple assignments, "
    "match.span(), conditional expressions (their conditions count as guards) and one-expression helpers (read at the call site); the presence "
    "test and the threshold test may be held in a local or sit in such a helper; a position `m.start()` / `m.end()` is a match position when every "
    "binding of m is the result of the one delimiter search or None (the search may be hoisted in front of the branch and replaced by None when the "
    "boundary text is absent: conditional expression, None default overwritten under the presence test, walrus in the test), and a test of such a "
    "local against None is a match test. R1.5-R1.7 instances are named after the state of the buffer (boundary text absent / present) the site is "
    "reached in; a site whose guards say nothing about that state stands for every state that has no site of its own (one hold-back computation serving both), and is an instance of its own (`any buffer`) when each state already has one. R1.4-R1.7 report a violation only when every condition guarding the release is one "
    "they model (boundary-text presence tests, the start flag, match tests, the threshold) and otherwise stop with "
    "ANALYSIS-ERROR. It decides these clauses on all paths. It does NOT decide the equality of event streams itself: "
    "that the hold-back position is the right cut for payloads whose last line breaks are further apart than the regions of the R1.5/R1.10 table (a helper with a numeric threshold is not modelled), the "
    "consumption of the line break that opens a part body beyond R1.6-R1.8 (e.g. what the line-break pattern itself matches), header parsing beyond R1.11 (names, values, folding, character sets), the size limits, "
    "and anything else the form parser computes per Data event (R1.9 follows the payload bytes only: a value derived from the number of events, what a "
    "stream_factory container does with its writes, and the final decode of the joined value are not examined) are out of scope."
)
TRUSTED = [
    "CPython ast and re._parser (pattern syntax trees, widths)",
    "re semantics: Pattern.search(buf, pos) finds the leftmost match starting at or after pos; a negative pos is clamped to 0",
    "bytes.rindex(c) is the last index of c and raises ValueError when absent; bytes.rfind(c) is the same index or -1 when absent; bytes.find returns -1 when absent",
    "the re engine run on a pattern folded from the source against prefixes enumerated from that same pattern",
    "CPython semantics of the pure operations the table evaluation (R1.5, R1.10, R1.11) applies to constants: bytes / str rfind, rindex, find, rpartition, partition, split, splitlines, strip, decode, startswith, endswith, slices and indexing, comparisons, len / min / max (also with default=) / sorted / range, list append / extend; Pattern.sub / search of a module-level pattern folded from the source applied to a sample header block",
]
ASSUMPTIONS = [
    "R1.5/R1.10: the hold-back anchor helper is decided on a table, not for every argument: all arguments of up to 6 bytes (5 when it names a further byte) over CR, LF, the bytes it names and one filler byte; its statements are evaluated with constants propagated through assignments, tests, loops, try/except, comprehensions and a closed set of pure builtins and bytes / list methods, private helpers of the package followed up to four levels; a construct outside that subset, an integer constant other than -2..2 and the codes of CR / LF (a possible length threshold the table does not reach), or a result outside -1 .. len(argument) stops R1.5-R1.7 and R1.10 with ANALYSIS-ERROR; the argument is taken as bytes (the decoder passes a bytearray slice, which answers the same operations); an anchor that takes the buffer and the start of the region to scan is read as `anchor(buffer[start:]) + start` after that equality has been checked on every table argument and every start (otherwise ANALYSIS-ERROR); the closed form min/max of last-index terms is still derived (per order type of the last occurrences) where the helper has one, for the wording of the evidence only",
    "R1.11: the header stage is evaluated on sample header blocks of the property's domain, with the same evaluator; steps applied to the value computed from the block that are not evaluated (functions of other modules, methods of an opaque object) are taken as deterministic - the same value in, the same value out - and must not read the receive buffer again (ANALYSIS-ERROR); a class of the package that is only constructed and filled (Headers) is opaque: compared by constructor arguments and recorded method calls; the rest of a line break is assumed to be dealt with in that stage - a decoder that removes it from the buffer beforehand is not modelled (ANALYSIS-ERROR when the buffer is modified on a path to the stage, silent otherwise only if the stage itself is indifferent to it)",
    "R1.3: the set of event classes is the subclasses (in the decoder's module) of the class named by next_event's return annotation; NeedData and Epilogue are the terminal ones (after them next_event produces nothing until more data arrives / ever); `event is NEED_DATA` is read as: an event of another class is not that constant, a NeedData event may or may not be; attributes of an event that are declared by an annotation are instance data and do not depend on its class",
    "R1.3: a use of the value of next_event() that is not followed (stored in an attribute or container, passed to code outside the package, a generator over the decoder driven by hand, the bound method handed to something other than iter(callable, CONSTANT)) makes the paths through it undecided: ANALYSIS-ERROR if such a path can leave the decoder undrained, never a violation",
    "delimiters carry no trailing blanks (the unbounded run [^\\S\\n\\r]* is taken as empty), as in the property's domain",
    "the boundary contains no line break and is not empty",
    "after an exception the decoder is not used again (raising exits are not followed)",
    "preamble and epilogue bytes are not compared (property text)",
    "R1.8: methods of the decoder (and functions of its module) that assign the protocol state, delete from the buffer or search it are inlined; other calls are opaque and do not touch the decoder; a condition that reads an attribute or calls something is followed both ways (never assumed to repeat its answer), a condition over locals only keeps its answer along the path; the deleted length counts as non-zero unless the path itself tested it to be zero (R1.7 bounds it from below by the payload start)",
    "R1.9: the payload class is the event class with one bytes field and a bool field; a name holds an event when it is bound to next_event() (directly, through a helper / generator that is handed the decoder, iter(next_event, CONST)), is the parameter an event was passed as, or is guarded by isinstance(name, <payload class>); bytes.upper/lower/swapcase/translate/hex are byte-wise (the result does not depend on the cut) and are not C01's concern",
]

DECODER = "sansio.multipart.MultipartDecoder"
ENTRY = "next_event"
UNCOMPARED_EVENTS = {"Preamble", "Epilogue"}
FORM_PARSER = "formparser.MultiPartParser"
RULES = {
    "R1.1": "every search window `len(buffer) - K` that reaches an incremental search keeps K >= the longest beginning of a match of the searched pattern that does not match yet",
    "R1.2": "the saved search offset reaches a search only as 0 or as a window of the same pattern, same protocol state and same buffer",
    "R1.3": "the form parser feeds every chunk, drains next_event until NeedData/Epilogue, and the chunk reader ends only on an empty read, then yields None",
    "R1.4": "releasing the whole buffer while waiting for a delimiter requires pending tail > T with T >= longest incomplete delimiter possible in that branch",
    "R1.5": "the early-release guard measures the pending tail from the last line-break byte, not from an earlier one",
    "R1.6": "the hold-back scan covers every byte covered by the delimiter search",
    "R1.7": "when no delimiter was found, the prefix deleted from the buffer reaches at least to the start of the returned payload",
    "R1.8": "the line break that opens a part body is skipped once per part: a call of next_event that skips it deletes it from the buffer if and only if it leaves the protocol states that skip",
    "R1.9": "the form parser collects every Data payload as received and joins the collected pieces with nothing in between: no per-chunk transformation whose result depends on where the payload was cut",
    "R1.10": "the hold-back position is never after the place where a delimiter that is not complete yet can begin: at or before the start of the last line break of the scanned region, for every order and adjacency of the last line-break bytes",
    "R1.11": "a line-break byte that a delimiter match leaves in the buffer (because the chunk ended inside the line break that ends the delimiter line) does not show in the part headers",
}


# ---------------------------------------------------------------------------
# roles


def find_roles(repo) -> Roles:
    cls = repo.cls(DECODER)
    entry = cls.methods.get(ENTRY)
    if entry is None:
        raise AnchorMissing(f"{cls.name}.{ENTRY} not found")
    funcs = self_call_closure(repo, cls, entry)
    bufs, offs = set(), set()
    for fi in funcs:
        for _, b, p in windowed_searches(fi):
            bufs.add(b)
            offs.add(p)
    if len(bufs) != 1 or len(offs) != 1:
        raise AnchorMissing(f"{cls.name}: expected incremental searches `RX.search(self.<buffer>, self.<offset>)` with one buffer and one offset attribute, found buffers {sorted(bufs)} offsets {sorted(offs)}")
    pairs = set()
    for fi in funcs:
        rd: ReachingDefs | None = None
        for n in walk_no_nested(fi.node):
            if not (isinstance(n, ast.Compare) and len(n.ops) == 1):
                continue
            # either side may be the state (written `self.<attr>` or held in a local copy of it), the other one member(s) of an Enum
            for subj, other in ((n.left, n.comparators[0]), (n.comparators[0], n.left)):
                if isinstance(subj, ast.NamedExpr):
                    subj = subj.value
                attr = None
                if is_self_attr(subj):
                    attr = subj.attr  # type: ignore[attr-defined]
                elif isinstance(subj, ast.Name):
                    rd = rd or ReachingDefs(cfg_of(fi), fi.params)
                    at = cfg_of(fi).node_of(n)
                    defs = rd.reaching(at, subj.id) if at is not None else frozenset()
                    srcs = {d.value.attr for d in defs if d.kind in ("assign", "walrus") and d.index is None and d.value is not None and is_self_attr(d.value)}  # type: ignore[union-attr]
                    if len(defs) == 1 and len(srcs) == 1:
                        attr = next(iter(srcs))
                if attr is None:
                    continue
                for rhs in [other, *(getattr(other, "elts", []))]:
                    if isinstance(rhs, ast.Attribute) and isinstance(rhs.value, ast.Name) and rhs.value.id in fi.module.classes:
                        ec = fi.module.classes[rhs.value.id]
                        if any((dotted(b) or "").endswith("Enum") for b in ec.base_exprs):
                            pairs.add((attr, ec.name))
    if len(pairs) != 1:
        raise AnchorMissing(f"{cls.name}: expected one protocol-state attribute compared with Enum members, found {sorted(pairs)}")
    sattr, ename = next(iter(pairs))
    members = sorted(cls.module.classes[ename].attrs)
    return Roles(cls, entry, funcs, next(iter(bufs)), next(iter(offs)), sattr, ename, members)


class Patterns:
    """delimiter patterns of the decoder, folded with a placeholder boundary."""

    def __init__(self, repo, folder: Folder, cls: ClassInfo):
        self.repo, self.folder, self.cls = repo, folder, cls
        init = cls.methods.get("__init__")
        if init is None:
            raise AnchorMissing(f"{cls.name}.__init__ missing")
        self.init = init
        self.compiles: dict[str, ast.AST] = {}
        direct: dict[str, str] = {}  # attr -> param
        for n in walk_no_nested(init.node):
            if isinstance(n, ast.Assign) and len(n.targets) == 1 and is_self_attr(n.targets[0]):
                attr = n.targets[0].attr  # type: ignore[attr-defined]
                if isinstance(n.value, ast.Call) and (dotted(n.value.func) or "").endswith("compile"):
                    self.compiles[attr] = n.value
                elif isinstance(n.value, ast.Name) and n.value.id in init.params:
                    direct[attr] = n.value.id
        used = set()
        for v in self.compiles.values():
            used |= {x.id for x in ast.walk(v) if isinstance(x, ast.Name) and x.id in init.params}
        if len(used) != 1:
            raise AnalysisError(f"{cls.name}.__init__: expected the compiled patterns to depend on exactly one parameter, found {sorted(used)}")
        self.param = next(iter(used))
        rd = ReachingDefs(cfg_of(init), init.params)
        for v in self.compiles.values():
            node = cfg_of(init).node_of(v)
            if node is None or any(d.kind != "param" for d in rd.reaching(node, self.param)):
                raise AnalysisError(f"{cls.name}.__init__: `{self.param}` is rebound before the patterns are compiled")
        nattrs = [a for a, p in direct.items() if p == self.param]
        if len(nattrs) != 1:
            raise AnalysisError(f"{cls.name}.__init__: expected `self.<attr> = {self.param}` exactly once, found {nattrs}")
        self.nattr = nattrs[0]
        self._langs: dict[str, list[Lang]] = {}

    def langs(self, fi: FuncInfo, rx_expr: ast.AST) -> list[Lang]:
        """one Lang per sample boundary length."""
        key = norm(rx_expr)
        if key in self._langs:
            return self._langs[key]
        out: list[Lang] = []
        if is_self_attr(rx_expr):
            src = self.compiles.get(rx_expr.attr)  # type: ignore[attr-defined]
            if src is None:
                raise AnalysisError(f"pattern `{key}` is not compiled in {self.cls.name}.__init__")
            for n in SAMPLE_N:
                rc = self.folder.expr(self.init.module, src, {self.param: PLACEHOLDER * n})
                if not isinstance(rc, RegexConst):
                    raise Unfoldable(f"`{key}` does not fold to a compiled pattern")
                out.append(Lang(rc))
        elif isinstance(rx_expr, ast.Name):
            rc = self.folder.name(fi.module, rx_expr.id)
            if not isinstance(rc, RegexConst):
                raise Unfoldable(f"`{key}` does not fold to a compiled pattern")
            out = [Lang(rc)] * len(SAMPLE_N)
        else:
            raise AnalysisError(f"searched pattern `{key}` is neither a module constant nor an attribute compiled in __init__")
        self._langs[key] = out
        return out

    def boundary(self, i: int) -> bytes:
        return PLACEHOLDER * SAMPLE_N[i]


def stmt_key(fi: FuncInfo, stmt: ast.AST) -> str:
    return f"{fi.qualname}@{getattr(stmt, 'lineno', 0)}:{getattr(stmt, 'col_offset', 0)}"


# ---------------------------------------------------------------------------
# R1.1 / R1.2


def start_only_feeds_uncompared(repo, site: SearchSite) -> tuple[bool, str]:
    """does ``match.start()`` of this search flow only into Preamble/Epilogue bytes?"""
    fi = site.fi
    cfg = cfg_of(fi)
    rd = ReachingDefs(cfg, fi.params)
    st = astq.stmt_of(fi, site.call)
    if not (isinstance(st, ast.Assign) and len(st.targets) == 1 and isinstance(st.targets[0], ast.Name) and st.value is site.call):
        return False, "search result is not bound to a plain local"
    mname = st.targets[0].id
    mnode = cfg.node_of(st)

    def from_this_search(name_node: ast.Name) -> bool:
        n = cfg.node_of(name_node)
        return n is not None and any(d.node is mnode for d in rd.reaching(n, name_node.id))

    def inside_uncompared(x: ast.AST) -> bool:
        cur = astq.parent(x)
        while cur is not None and not isinstance(cur, ast.stmt):
            if isinstance(cur, ast.Call):
                d = dotted(cur.func)
                fq = repo.resolve(fi.module, d) if d else None
                if fq and fq.rsplit(".", 1)[-1] in UNCOMPARED_EVENTS and repo.try_cls(fq) is not None:
                    return True
            cur = astq.parent(cur)
        return False

    starts = [c for c in astq.method_calls(fi.node, "start", nested=False) if isinstance(c.func.value, ast.Name) and c.func.value.id == mname and from_this_search(c.func.value)]  # type: ignore[attr-defined]
    for c in starts:
        if inside_uncompared(c):
            continue
        s = astq.stmt_of(fi, c)
        if not (isinstance(s, ast.Assign) and len(s.targets) == 1 and isinstance(s.targets[0], ast.Name)):
            return False, f"`{norm(s) if s else '?'}` uses the match start"
        v = s.targets[0].id
        sn = cfg.node_of(s)
        for x in walk_no_nested(fi.node):
            if isinstance(x, ast.Name) and x.id == v and isinstance(x.ctx, ast.Load):
                xn = cfg.node_of(x)
                if xn is not None and any(d.node is sn for d in rd.reaching(xn, v)) and not inside_uncompared(x):
                    return False, f"`{v}` (from the match start) is used outside {sorted(UNCOMPARED_EVENTS)}"
    return True, f"{len(starts)} use(s) of the match start, all inside {sorted(UNCOMPARED_EVENTS)}(...)"


def rules_offset(ctx: Ctx, roles: Roles, pats: Patterns, folder: Folder) -> None:
    repo = ctx.repo
    evals: dict[tuple, AffEval] = {}
    windows: dict[str, tuple[FuncInfo, ast.AST, Lin, str]] = {}

    def ev_of(fi: FuncInfo, bufs: frozenset = frozenset()) -> AffEval:
        """evaluator of one function; `bufs` = its parameters that are bound to the receive buffer by the call being followed"""
        k = (fi.qualname, bufs)
        if k not in evals:
            copies = {name for name, (attr, _) in attr_copies(fi).items() if attr == roles.buffer}  # `buffer = self.buffer`
            evals[k] = AffEval(fi, folder, {f"self.{roles.buffer}"} | copies | set(bufs), pats.nattr, init=(pats.init, pats.param))
        return evals[k]

    def is_zero(x: ast.AST | None) -> bool:
        return isinstance(x, ast.Constant) and x.value == 0 and not isinstance(x.value, bool)

    def strip_clamp(e: ast.AST) -> ast.AST:
        """a position that is clamped to 0, or replaced by 0 under some condition -> the position (0 is a valid offset whatever the
        buffer holds, and `re` reads a negative one as 0)"""
        while True:
            e2 = strip_max0(e)
            if isinstance(e2, ast.IfExp) and is_zero(e2.body) != is_zero(e2.orelse):
                e2 = e2.orelse if is_zero(e2.body) else e2.body
            if e2 is e:
                return e
            e = e2

    def buf_params(callee: FuncInfo, call: ast.Call, caller: FuncInfo, caller_bufs: frozenset) -> frozenset:
        """parameters of the callee that this call binds to the receive buffer itself (and that the callee never rebinds)"""
        binding = bind_args(callee, call) or {}
        stored = {x.id for x in walk_no_nested(callee.node) if isinstance(x, ast.Name) and isinstance(x.ctx, (ast.Store, ast.Del))}
        return frozenset(p for p, a in binding.items() if p not in stored and p in callee.params
                         and (ts.is_buf(a, caller) or (isinstance(a, ast.Name) and a.id in caller_bufs)))

    def shifts(fi: FuncInfo, bufs: frozenset, seen: frozenset = frozenset()) -> bool:
        """can running the function delete / replace buffer content (itself, or in a function of the package it calls)?"""
        if fi.qualname in seen:
            return False
        for x in walk_no_nested(fi.node):
            if (ts.is_buf(x, fi) or (isinstance(x, ast.Name) and x.id in bufs)) and ts._buffer_effect_node(x) == "shift":
                return True
            if isinstance(x, ast.Call):
                callee = ts._callee(fi, x)
                if callee is not None and shifts(callee, buf_params(callee, x, fi, bufs), seen | {fi.qualname}):
                    return True
        return False

    def same_aff(a: Aff, b: Aff) -> bool:
        return a.coef == b.coef and a.const == b.const

    # frames of the calls being followed, outermost first: (caller, call, node of the call in the caller, buffer parameters of the caller)
    Frames = t.Tuple[t.Tuple[FuncInfo, ast.Call, Node, frozenset], ...]

    def returned_aff(fi: FuncInfo, call: ast.Call, at: Node, frames: Frames, bufs: frozenset, depth: int, allow_zero: bool) -> tuple[Aff, str] | None:
        """the position a helper (method / static method / function of the module) returns for this call: every return that is not
        the constant 0 must denote one affine value once the parameters are replaced by the call's arguments"""
        callee = ts._callee(fi, call)
        if callee is None or callee is fi or depth >= 3 or isinstance(callee.node, ast.AsyncFunctionDef) \
                or any(isinstance(x, (ast.Yield, ast.YieldFrom)) for x in walk_no_nested(callee.node)):
            return None
        ccfg = cfg_of(callee)
        rets = [p for p, _ in ccfg.exit.preds]
        if not rets or any(not (p.kind == "stmt" and isinstance(p.ast, ast.Return) and p.ast.value is not None) for p in rets):
            return None  # can fall off the end: None is not a position
        if callee.module is not fi.module and len(call.args) + len(call.keywords) < len(bind_args(callee, call) or {}):
            return None  # a default value would be read in the wrong module
        cbufs = buf_params(callee, call, fi, bufs)
        inner = frames + ((fi, call, at, bufs),)
        found: tuple[Aff, str] | None = None
        for r in rets:
            v = r.ast.value  # type: ignore[union-attr]
            if is_zero(v):
                if not allow_zero:
                    return None
                continue
            sub = value_aff(callee, v, r, inner, cbufs, depth + 1, allow_zero)
            if sub is None or (found is not None and not same_aff(found[0], sub[0])):
                return None
            found = found or sub
        if found is None:
            return None
        if "D" in found[0].coef and shifts(callee, cbufs):
            return None  # the buffer length the helper measured is not the one the position is used against
        return found[0], f" returned by {callee.qualname} ({callee.loc(callee.node)})" + found[1]

    def value_aff(fi: FuncInfo, value: ast.AST, node: Node, frames: Frames, bufs: frozenset, depth: int = 0, allow_zero: bool = True) -> tuple[Aff, str] | None:
        """an offset expression as an affine form over D = len(buffer), n = len(boundary) (and whatever stays opaque).

        Clamps to 0 are dropped; a local is read where it was computed; a parameter of a helper is replaced by the argument of
        the call that is being followed (one frame per level); a call of a helper that *returns* the position is replaced by what
        the helper returns for these arguments."""
        value = strip_clamp(value) if allow_zero else value
        at = node
        ev = ev_of(fi, bufs)
        if allow_zero and isinstance(value, ast.Name):
            # `p = len(buffer) - K` ... `if p < 0: p = 0` ... `offset = p`: the bindings other than the constant 0 (always a valid
            # offset) must be one window expression, read where it was computed
            rd0 = ev.rd
            defs = rd0.reaching(node, value.id)
            nz = [d for d in defs if not is_zero(d.value)]
            if len(defs) > 1 and len(nz) == 1 and all(d.kind == "assign" and d.index is None and d.node is not None for d in defs):
                d0 = nz[0]
                if all(rd0.reaching(d0.node, x.id) == rd0.reaching(node, x.id) for x in ast.walk(d0.value) if isinstance(x, ast.Name) and x.id != value.id):
                    value, at = strip_clamp(d0.value), d0.node
        ev.opaque_at.clear()  # where the opaque parts of *this* value are evaluated
        try:
            a = ev.aff(value, at)
        except NotAffine:
            return None
        via = ""
        # calls of helpers that return (part of) the position
        for s, e, e_at in [(s, ev.opaque.get(s), ev.opaque_at.get(s)) for s in a.coef if s.startswith("op:")]:
            if not isinstance(e, ast.Call) or e_at is None:
                continue
            whole = allow_zero and a.coef == {s: 1} and a.const == 0  # the value *is* the helper's result
            sub = returned_aff(fi, e, e_at, frames, bufs, depth, whole)
            if sub is None:
                return None
            a = a.subst(s, sub[0])
            via += sub[1]
        # parameters of the helper we are in
        names = [s for s in a.coef if s.startswith("name:")]
        if names:
            if not frames:
                return None
            caller, call, cnode, caller_bufs = frames[-1]
            binding = bind_args(fi, call)
            for s in names:
                p = s[5:]
                defs = ev.rd.reaching(at, p)
                if binding is None or p not in binding or p not in fi.params or not defs or any(d.kind != "param" for d in defs):
                    return None
                sub = value_aff(caller, binding[p], cnode, frames[:-1], caller_bufs, depth, allow_zero and a.coef == {s: 1} and a.const == 0)
                if sub is None:
                    return None
                if "D" in sub[0].coef and shifts(fi, bufs):
                    return None  # the buffer length the caller measured is not the one the helper stores against
                a = a.subst(s, sub[0])
                via += sub[1]
            via = f" called as `{norm(call)}` ({caller.loc(call)})" + via
        return a, via

    def window_of(fi: FuncInfo, value: ast.AST, node: Node, key: str, stack: tuple = ()) -> str | None:
        """`len(buffer) - K` with K affine in the boundary length, computed after a search -> text of that search's pattern.

        When the assignment sits in a private helper, the helper's parameters are replaced by the arguments of the call
        that is being followed (one level per frame of the call stack), and the search is looked for in the callers too.
        When the value is what a helper returns, it is read through the helper in the same way (see value_aff)."""
        frames: list = []
        bufs: frozenset = frozenset()
        ctxs = [(f, c, n) for f, c, n in stack]
        for i, (caller, call, cnode) in enumerate(ctxs):
            frames.append((caller, call, cnode, bufs))
            callee = ctxs[i + 1][0] if i + 1 < len(ctxs) else fi
            bufs = buf_params(callee, call, caller, bufs)
        res = value_aff(fi, value, node, tuple(frames), bufs)
        if res is None:
            return None
        a, via = res
        if a.coef.get("D") != 1 or not a.only({"D", "n"}):
            return None
        # nearest search that dominates the assignment, in the function itself or else in the callers being followed
        for lfi, lnode in [(fi, node)] + [(f, n) for f, _, n in reversed(stack)]:
            cfg = cfg_of(lfi)
            doms = []
            for c, _, _ in windowed_searches(lfi):
                sn = cfg.node_of(c)
                if sn is not None and cfg.node_dominates(sn, lnode):
                    doms.append((sn, c))
            if not doms:
                continue
            near = [c for sn, c in doms if all(cfg.node_dominates(o, sn) for o, _ in doms)]
            if len(near) != 1:
                return None
            windows[key] = (fi, node.ast, Lin(-a.coef.get("n", 0), -a.const), via)  # type: ignore[arg-type]
            return norm(near[0].func.value)  # type: ignore[attr-defined]
        return None

    ts = Typestate(repo, roles, window_of)
    ts.run()
    for fi in roles.funcs:
        ctx.saw(fi)

    sites = sorted(ts.sites.values(), key=lambda s: (s.fi.qualname, s.call.lineno, s.call.col_offset))
    n11 = 0
    for site in sites:
        arr = ts.site_arrivals.get(id(site.call), set())
        rx_txt = norm(site.regex)
        if not arr:
            raise AnalysisError(f"{site.fi.loc(site.call)}: search `{rx_txt}` is unreachable in the typestate model")
        bad = []
        for st, off in sorted(arr, key=str):
            if off[0] == "Z":
                continue
            if off[0] == "W" and (st is None or off[2] == st) and off[3] == rx_txt:
                continue
            bad.append((st, off))
        states = sorted({st or "?" for st, _ in arr})
        summary = ", ".join(sorted({f"{st}:{fmt_off(off)}" for st, off in arr}))
        origin = ""
        if bad:
            origins = []
            for st, off in bad:
                if off[0] == "S" and off[1] in ts.stmts:
                    ofi, ost, _ = ts.stmts[off[1]]
                    origins.append(f"`{norm(ost)}` ({ofi.loc(ost)})")
                elif off[0] == "W":
                    origins.append(f"window of `{off[3]}` computed in state {off[2]}")
                else:
                    origins.append(off[1])
            origin = "; offset left stale by " + ", ".join(sorted(set(origins))) + " reaches this search"
        ctx.ob("R1.2", f"{site.fi.qualname}: `{rx_txt}.search(buffer, offset)` in state {'/'.join(states)} starts from a valid offset", not bad,
               f"offsets arriving: {summary}{origin}", site.fi, site.call, f"search {rx_txt} from saved offset")
        # R1.1: every valid window arriving here is wide enough for this pattern
        langs = pats.langs(site.fi, site.regex)
        w = fit([l.max_width() for l in langs], f"width of {rx_txt}")
        allow_ok, allow_why = start_only_feeds_uncompared(repo, site)
        o = fit([l.leading_optional() for l in langs], "leading optional width").c if allow_ok else 0
        needs = [l.window_need(skip_optional=bool(o)) for l in langs]
        need = fit([v for v, _ in needs], f"longest incomplete match of {rx_txt}")
        example = needs[0][1]
        seen = set()
        for st, off in sorted(arr, key=str):
            if off[0] != "W" or off[1] in seen or off[3] != rx_txt:
                continue
            seen.add(off[1])
            wfi, wst, K, via = windows[off[1]]
            n11 += 1
            ctx.ob("R1.1", f"{site.fi.qualname}: window kept after a failed `{rx_txt}` search covers a straddling match", K.ge(need),
                   f"`{norm(wst)}`{via} keeps K = {K} byte(s); the longest prefix of a `{rx_txt}` match (max width {w}; blank runs empty, n = len(boundary)) that does not match yet"
                   + (f", not counting its optional leading part of up to {o} byte(s) ({allow_why})," if o else "") + f" is {need} byte(s), e.g. {example!r} for boundary {pats.boundary(0)!r}; needs K >= {need}",
                   wfi, wst, f"window for {rx_txt}")
            if any(l.blank_runs for l in langs):
                ctx.note(f"R1.1 {rx_txt}: unbounded blank runs in the pattern taken as empty (property domain)")
    ctx.floor("R1.1", "(search, window) pairs", n11, 2)
    ctx.floor("R1.2", "incremental search sites", len(sites), 2)

    # R1.2 (b): every statement that invalidates a window
    closure = {f.qualname for f in roles.funcs}
    stale_at_search: dict[str, list[SearchSite]] = {}
    for cid, arr in ts.site_arrivals.items():
        for _, off in arr:
            if off[0] == "S":
                stale_at_search.setdefault(off[1], []).append(ts.sites[cid])
    n_inval = 0
    for k, (fi, st, kind) in sorted(ts.stmts.items()):
        if fi.qualname not in closure:
            continue
        arr = ts.stmt_arrivals.get(k, set())
        live = sorted({f"{s}:{fmt_off(o)}" for s, o in arr if o[0] == "W"})
        states = sorted({s or "?" for s, _ in arr})
        if live:
            n_inval += 1
        reach = stale_at_search.get(k, [])
        what = "deletes / replaces buffer content" if kind == "shift" else f"changes the protocol state ({kind})"
        if live:
            fact = f"arrives with a live window ({', '.join(live)}), which it invalidates; " + (
                "the offset is reset before the next search on every path" if not reach else
                "NOT reset on some path: the stale offset reaches " + ", ".join(sorted({f"`{norm(s.regex)}.search` ({s.fi.loc(s.call)})" for s in reach})))
        elif any(o[0] == "S" for _, o in arr):
            prev = sorted({f"`{norm(ts.stmts[o[1]][1])}`" for _, o in arr if o[0] == "S" and o[1] in ts.stmts})
            fact = f"the window was already invalidated by {', '.join(prev) or 'an earlier statement'} when this statement runs (states {'/'.join(states)}); " + (
                "the offset is reset before the next search on every path" if not reach else "NOT reset before the next search")
        else:
            fact = f"the offset is 0 whenever this statement runs (states {'/'.join(states)}): no branch of these states assigns it"
        ctx.ob("R1.2", f"{fi.qualname}: `{norm(st)}` {what}", not reach, fact, fi, st, f"{norm(st)} in {'/'.join(states)}")
    ctx.floor("R1.2", "state assignments and buffer deletions followed through the typestate", len([1 for k, (f, _, _) in ts.stmts.items() if f.qualname in closure]), 4)
    ctx.note(f"R1.2: {n_inval} statement(s) run with a live search window and invalidate it")


# ---------------------------------------------------------------------------
# R1.3


TERMINAL_EVENTS = ("Epilogue", "NeedData")


def find_decoder(repo, flow: EventFlow, parse: FuncInfo, dec_cls: ClassInfo) -> str:
    """the expression under which `parse` knows the decoder: a local or an attribute of self bound to ``Decoder(...)``, directly or
    through a helper whose every return is such a construction"""

    def constructs(fi: FuncInfo, v: ast.AST | None, depth: int = 0) -> bool:
        if not isinstance(v, ast.Call):
            return False
        d = dotted(v.func)
        fq = repo.resolve(fi.module, d) if d else None
        if fq and repo.try_cls(fq) is dec_cls:
            return True
        callee = flow.callee(fi, v)
        if callee is None or depth > 1:
            return False
        rets = astq.returns_of(callee.node)
        rd = flow.rd_of(callee)
        ccfg = cfg_of(callee)
        ok = bool(rets)
        for r in rets:
            val = r.value
            if isinstance(val, ast.Name):
                defs = rd.reaching(ccfg.node_of(r), val.id)  # type: ignore[arg-type]
                ok = ok and bool(defs) and all(x.kind == "assign" and x.index is None and constructs(callee, x.value, depth + 1) for x in defs)
            else:
                ok = ok and constructs(callee, val, depth + 1)
        return ok

    names = set()
    for n in walk_no_nested(parse.node):
        tgs: list[ast.AST] = []
        val = None
        if isinstance(n, ast.Assign):
            tgs, val = list(n.targets), n.value
        elif isinstance(n, ast.AnnAssign) and n.value is not None:
            tgs, val = [n.target], n.value
        elif isinstance(n, ast.NamedExpr):
            tgs, val = [n.target], n.value
        tgs = [x for x in tgs if isinstance(x, ast.Name) or is_self_attr(x)]
        if tgs and constructs(parse, val):
            locs = [x for x in tgs if isinstance(x, ast.Name)]
            names.add(norm(locs[0] if locs else tgs[0]))  # `self.x = dec = Decoder(...)`: the local is the one followed
    if len(names) != 1:
        raise AnchorMissing(f"{parse.qualname}: expected one local or attribute bound to {dec_cls.name}(...), found {sorted(names)}")
    return next(iter(names))


def feeding_nodes(flow: EventFlow, fi: FuncInfo, dec: str, is_chunk: t.Callable[[ast.AST, Node], bool], depth: int = 0) -> list[Node]:
    """CFG nodes of fi that hand the chunk, unmodified, to receive_data: directly, or through a helper that is given the decoder
    and the chunk and does so on every path"""
    cfg = cfg_of(fi)
    out: list[Node] = []
    for n in cfg.nodes:
        hit = False
        for root in flow._roots(n):
            for c in [root, *walk_no_nested(root)]:
                if hit or not isinstance(c, ast.Call):
                    continue
                m = flow.dec_method(fi, c, n, dec)
                if m == flow.feed:
                    arg = c.args[0] if c.args else (c.keywords[0].value if c.keywords else None)
                    hit = arg is not None and is_chunk(arg, n)
                    continue
                if m is not None or depth >= 2:
                    continue
                callee = flow.callee(fi, c)
                p = flow.dec_param(fi, callee, c, dec) if callee is not None else None
                if callee is None or p is None:
                    continue
                binding = bind_args(callee, c) or {}
                rd2 = flow.rd_of(callee)
                ccfg = cfg_of(callee)
                for q, a in binding.items():
                    if not is_chunk(a, n):
                        continue

                    def is_q(x: ast.AST, node: Node, q: str = q) -> bool:
                        defs = rd2.reaching(node, q)
                        return isinstance(x, ast.Name) and x.id == q and bool(defs) and all(d.kind == "param" for d in defs)

                    inner = feeding_nodes(flow, callee, p, is_q, depth + 1)
                    if inner and ccfg.all_paths_pass(ccfg.entry, [ccfg.exit], inner):
                        hit = True
        if hit:
            out.append(n)
    return out


def feeds_at_all(flow: EventFlow, fi: FuncInfo, dec: str, stmts: list[ast.stmt], depth: int = 0) -> bool:
    cfg = cfg_of(fi)
    for st in stmts:
        for c in [st, *walk_no_nested(st)]:
            if not isinstance(c, ast.Call):
                continue
            n = cfg.node_of(c)
            if n is None:
                continue
            m = flow.dec_method(fi, c, n, dec)
            if m == flow.feed:
                return True
            callee = flow.callee(fi, c) if m is None else None
            p = flow.dec_param(fi, callee, c, dec) if callee is not None else None
            if callee is not None and p is not None and depth < 2 and feeds_at_all(flow, callee, p, callee.node.body, depth + 1):  # type: ignore[attr-defined]
                return True
    return False


def rules_feed(ctx: Ctx, roles: Roles) -> None:
    repo = ctx.repo
    pcls = repo.cls(FORM_PARSER)
    parse = pcls.methods.get("parse")
    if parse is None:
        raise AnchorMissing(f"{FORM_PARSER}.parse not found")
    flow = EventFlow(repo, roles.cls)
    for tname in TERMINAL_EVENTS:
        if tname not in flow.universe:
            raise AnchorMissing(f"event class {tname} not found among the subclasses of {flow.base.name}")
    dec = find_decoder(repo, flow, parse, roles.cls)

    # the functions that hold the decoder: parse and the helpers it hands it to
    owners: list[tuple[FuncInfo, str]] = [(parse, dec)]
    i = 0
    while i < len(owners) and i < 12:
        fi, d = owners[i]
        i += 1
        for c in walk_no_nested(fi.node):
            if isinstance(c, ast.Call):
                callee = flow.callee(fi, c)
                p = flow.dec_param(fi, callee, c, d) if callee is not None else None
                if callee is not None and p is not None and all(o[0] is not callee for o in owners):
                    owners.append((callee, p))

    # (a) the loop over the chunks: every chunk is fed, unmodified
    loops = []
    for fi, d in owners:
        rd = flow.rd_of(fi)
        cfg = cfg_of(fi)
        for loop in walk_no_nested(fi.node):
            if not isinstance(loop, (ast.For, ast.AsyncFor)) or not feeds_at_all(flow, fi, d, loop.body):
                continue
            head = cfg.node_of(loop)
            assert head is not None
            it = loop.iter
            if isinstance(it, ast.Name):  # `chunks = _chunk_iter(...)` ... `for data in chunks`
                defs = rd.reaching(head, it.id)
                if len(defs) == 1 and next(iter(defs)).kind == "assign" and next(iter(defs)).index is None and next(iter(defs)).value is not None:
                    it = next(iter(defs)).value
            chunker = flow.callee(fi, it) if isinstance(it, ast.Call) else None
            if chunker is not None and flow.dec_param(fi, chunker, it, d) is not None:  # type: ignore[arg-type]
                continue  # a generator that drains the decoder, not the source of the chunks
            loops.append((fi, d, loop, head, chunker, it))
    if not loops:
        raise AnalysisError(f"{parse.loc()}: receive_data is not called inside a for loop over the chunks (in {parse.qualname} or a helper that is handed the decoder)")
    seen_chunkers = []
    for fi, d, loop, head, chunker, it in loops:
        cfg = cfg_of(fi)
        rd = flow.rd_of(fi)
        if not isinstance(loop.target, ast.Name):
            raise AnalysisError(f"{fi.loc(loop)}: the loop over the chunks does not bind one plain variable")
        var = loop.target.id
        body_ids = flow._loop_body_ids(fi, loop)

        def is_chunk(x: ast.AST, node: Node) -> bool:
            defs = rd.reaching(node, var)
            return isinstance(x, ast.Name) and x.id == var and bool(defs) and all(dd.kind == "for" and dd.stmt is loop for dd in defs)

        sites = [n for n in feeding_nodes(flow, fi, d, is_chunk) if n.id in body_ids]
        starts = [s_ for s_ in cfg.succ(head, "T") if all(s_ is not x for x in sites)]
        r = cfg.reach(starts, avoid_nodes=sites) if starts else set()
        skipped = head.id in r or cfg.exit.id in r
        others = [c for st in loop.body for c in [st, *walk_no_nested(st)] if isinstance(c, ast.Call) and cfg.node_of(c) is not None
                  and flow.dec_method(fi, c, cfg.node_of(c), d) == flow.feed and all(cfg.node_of(c) is not x for x in sites)]  # type: ignore[arg-type]
        where = (sites[0].ast if sites else (others[0] if others else loop))
        ctx.ob("R1.3", f"{fi.qualname}: every chunk of the loop is handed to receive_data as read", bool(sites) and not skipped,
               f"`for {var} in {norm(loop.iter)}`: the loop variable reaches receive_data unmodified at {[norm(x.ast)[:60] for x in sites]}"
               + (f" (other receive_data calls in the loop: {[norm(c) for c in others]})" if others else "")
               + f"; a path through the loop body avoids it: {skipped}", fi, where, "every chunk fed")
        # (c) the chunk reader
        if chunker is None:
            raise AnalysisError(f"{fi.loc(loop)}: chunk source `{norm(it)}` is not a function of the package")
        if all(chunker is not x for x in seen_chunkers):
            seen_chunkers.append(chunker)

    # (b) drained until NeedData / Epilogue: class of the last next_event() result when the next chunk is fed / at the end
    start = EvFact(frozenset(), EV_START, False, frozenset())
    res = flow.flow(parse, dec, frozenset({start}))
    ctx.floor("R1.3", "receive_data calls reached from parse", len(flow.feed_arrivals), 1)
    ctx.floor("R1.3", "next_event calls reached from parse", len(flow.fetch_sites), 1)
    allowed = set(TERMINAL_EVENTS) | {EV_START}
    leaks: list[tuple[str, FuncInfo, ast.AST, EvFact]] = []
    for (_, _), (ffi, call, facts) in sorted(flow.feed_arrivals.items(), key=lambda kv: (kv[1][0].fq, kv[1][1].lineno)):
        for f in facts:
            if f.cls not in allowed:
                leaks.append((f"the next chunk is fed (`{norm(call)}`)", ffi, call, f))
    for f in res.exit:
        if f.cls not in allowed:
            leaks.append((f"{parse.qualname} returns", parse, parse.node, f))
    owner = loops[0][0]
    if leaks and all(f.murky for _, _, _, f in leaks):
        w, lfi, lnode, _ = leaks[0]
        raise AnalysisError(f"{lfi.loc(lnode)}: cannot decide whether the decoder is drained when {w}: the value of next_event() is used in a way that is not modelled "
                            f"(not bound to a plain local, or tested by a condition on the event that is not understood)")
    fetches = sorted(flow.fetch_sites.values(), key=lambda fc: (fc[0].fq, fc[1].lineno))
    seen_at = [f"{sorted({f.cls for w2, _, _, f in leaks if w2 == w and not f.murky})} when {w}" for w in dict.fromkeys(w for w, _, _, f in leaks if not f.murky)]
    arriving = sorted({f.cls for _, _, facts in flow.feed_arrivals.values() for f in facts} | {f.cls for f in res.exit})
    ctx.ob("R1.3", f"{owner.qualname}: next_event is called until NeedData / Epilogue after receive_data", not leaks,
           f"class of the value next_event() returned last when the next chunk is fed or {parse.qualname} returns: {arriving}; "
           + (f"not drained: {seen_at}" if leaks else f"always one of {sorted(TERMINAL_EVENTS)} (followed through every test on the event: isinstance / identity with a constant / flags / helper predicates)"),
           owner, (leaks[0][2] if leaks and leaks[0][1] is owner else fetches[0][1] if fetches and fetches[0][0] is owner else owner.node), "drain loop")
    for ffi, _ in owners:
        ctx.saw(ffi)
    for chunker in seen_chunkers:
        rule_chunker(ctx, chunker)
    rules_fields(ctx, flow, owners)


def rule_chunker(ctx: Ctx, fi: FuncInfo) -> None:
    """the generator that reads the chunks: followed as (what happened to the result of the last read) over its CFG"""
    rf = ReadFlow(fi)
    cfg = rf.cfg
    ctx.floor("R1.3", f"read calls in {fi.qualname}", len(rf.reads), 1)
    reads = sorted(rf.reads.values(), key=lambda x: (x.lineno, x.col_offset))
    where = astq.stmt_of(fi, reads[0]) if reads else fi.node
    data_yields = sorted(rf.data_yields.values(), key=lambda x: x.lineno)
    other_yields = sorted(rf.other_yields.values(), key=lambda x: x.lineno)
    dropped = sorted(rf.dropped.values(), key=lambda x: getattr(x[0], "lineno", 0))
    unmod = bool(data_yields) and not other_yields
    ctx.ob("R1.3", f"{fi.qualname}: every non-empty read is yielded unmodified", unmod and not dropped,
           f"reads {[norm(r) for r in reads]}; yields of the read result itself {[norm(y) for y in data_yields]}, of something else {[norm(y) for y in other_yields]}; "
           + (f"a non-empty read can be dropped: {[why for _, why in dropped]}" if dropped else "no path reads again or ends while bytes that were read have not been yielded"),
           fi, (other_yields[0] if other_yields else where), "reads yielded")
    early = sorted(rf.exit_status - {RD_EMPTY})
    others = sorted(set(rf.other_tests.values()))
    other_nodes = [x for x in walk_no_nested(fi.node) if id(x) in rf.other_tests]
    ctx.ob("R1.3", f"{fi.qualname}: reading stops only on an empty read (a short read is not the end)", not early,
           f"emptiness tests {sorted(set(rf.tests.values()))}; other tests on the read result {others}; status of the last read when the generator ends: {sorted(rf.exit_status)}"
           + (f": it can finish without an empty read ({early})" if early else ""), fi, (other_nodes[0] if other_nodes and early else where), "stop on empty read only")
    end_yields = sorted(rf.end_yields.values(), key=lambda x: x.lineno)
    enodes = [cfg.node_of(y) for y in end_yields]
    ynodes = [cfg.node_of(y) for y in data_yields + other_yields]
    ends_ok = bool(enodes) and cfg.all_paths_pass(cfg.entry, [cfg.exit], [n for n in enodes if n is not None])
    after = set()
    for en in enodes:
        if en is not None:
            after |= cfg.reach([s_ for s_, lab in en.succs if lab != "raise"])
    data_after = any(n is not None and n.id in after for n in ynodes)
    ctx.ob("R1.3", f"{fi.qualname}: the end of input is signalled by a final `yield None`", ends_ok and not data_after,
           f"every path to the end passes {[norm(y) for y in end_yields]}: {ends_ok}; data yielded after it: {data_after}", fi, end_yields[0] if end_yields else fi.node, "final yield None")
    ctx.saw(fi)


# ---------------------------------------------------------------------------
# R1.4 - R1.6: the payload splitter


class Splitter:
    """role model of ``_parse_data``: returns (payload slice of the buffer, deleted prefix length, more_data)."""

    def __init__(self, ctx: Ctx, roles: Roles, pats: Patterns, folder: Folder):
        self.ctx, self.roles, self.pats = ctx, roles, pats
        repo = ctx.repo
        cands = []
        self.ret_tuple: dict[int, ast.Tuple] = {}  # return statement -> the tuple it returns (written in place or held in a local)
        one_liners = {f.name for f in roles.funcs[1:] if len(f.node.body) >= 1 and isinstance(f.node.body[-1], ast.Return) and all(  # type: ignore[attr-defined]
            isinstance(st, ast.Expr) and isinstance(st.value, ast.Constant) for st in f.node.body[:-1]) and astq.method_calls(f.node, "search", nested=False)}  # type: ignore[attr-defined]
        for fi in roles.funcs[1:]:
            rets = []
            for r in astq.returns_of(fi.node):
                tup = self._returned_tuple(fi, r)
                if tup is not None and len(tup.elts) >= 2:
                    rets.append(r)
                    self.ret_tuple[id(r)] = tup
            # the delimiter search is in the function itself or in a one-expression helper it calls
            searches = astq.method_calls(fi.node, "search", nested=False) or [c for nm in one_liners if nm != fi.name for c in astq.method_calls(fi.node, nm, nested=False)]
            if rets and searches:
                cands.append((fi, rets))
        if len(cands) != 1:
            raise AnchorMissing(f"{roles.cls.name}: expected one helper of {ENTRY} that searches a delimiter and returns (payload, deleted, more), found {[c[0].qualname for c in cands]}")
        self.fi, self.returns = cands[0]
        # which parameter is the buffer
        idx = set()
        self.call_sites: list[tuple[FuncInfo, ast.Call]] = []
        for f in roles.funcs:
            for c in astq.method_calls(f.node, self.fi.name, nested=False):
                if isinstance(c.func.value, ast.Name) and c.func.value.id == "self":  # type: ignore[attr-defined]
                    self.call_sites.append((f, c))
                    hit = [i for i, a in enumerate(c.args) if self._is_buffer(a, f)]
                    if len(hit) != 1:
                        raise AnalysisError(f"{f.loc(c)}: `{norm(c)}` does not pass the receive buffer as one positional argument")
                    idx.add(hit[0])
        if len(idx) != 1 or not self.call_sites:
            raise AnalysisError(f"{self.fi.qualname}: call sites disagree on the buffer argument")
        self.data = self.fi.params[1 + next(iter(idx))]
        self.buffers = {self.data, f"self.{roles.buffer}"}
        self.cfg = cfg_of(self.fi)
        self.rd = ReachingDefs(self.cfg, self.fi.params)
        if any(d.name == self.data for ds in self.rd.gen.values() for d in ds):
            raise AnalysisError(f"{self.fi.qualname}: parameter `{self.data}` (the buffer) is rebound inside the function: not modelled")
        # release expressions
        self.release: list[tuple[ast.Return, str, ast.AST | None, ast.AST | None]] = []
        self.items: list[dict[str, t.Any]] = []  # every classified release position
        stop: set[str] = set()
        for r in self.returns:
            payload, deleted = self.ret_tuple[id(r)].elts[0], self.ret_tuple[id(r)].elts[1]
            for _ in range(3):
                while isinstance(payload, ast.Call) and dotted(payload.func) in ("bytes", "bytearray", "memoryview") and len(payload.args) == 1:
                    payload = payload.args[0]
                if isinstance(payload, ast.Name):  # `chunk = bytes(data[a:b])` ... `return chunk, ...`
                    rn0 = self.cfg.node_of(r)
                    defs0 = self.rd.reaching(rn0, payload.id) if rn0 is not None else frozenset()
                    d0 = next(iter(defs0)) if len(defs0) == 1 else None
                    if d0 is not None and d0.kind == "assign" and d0.index is None and d0.value is not None and d0.node is not None and all(
                            self.rd.reaching(d0.node, x.id) == self.rd.reaching(rn0, x.id) for x in ast.walk(d0.value) if isinstance(x, ast.Name)):
                        payload = d0.value
                        continue
                break
            if not (isinstance(payload, ast.Subscript) and norm(payload.value) in self.buffers and isinstance(payload.slice, ast.Slice) and payload.slice.step is None):
                raise AnalysisError(f"{self.fi.loc(r)}: payload `{norm(payload)}` is not a slice of the buffer")
            self.release.append((r, "payload end", payload.slice.upper, payload.slice.lower))
            self.release.append((r, "deleted prefix", deleted, payload.slice.lower))
            for e in (payload.slice.upper, deleted):
                if isinstance(e, ast.Name):
                    stop.add(e.id)
        self.stop = stop
        self.ev = AffEval(self.fi, folder, self.buffers, pats.nattr, stop, init=(pats.init, pats.param))
        self.ev_open = AffEval(self.fi, folder, self.buffers, pats.nattr, set(), init=(pats.init, pats.param))
        self.ev.rewrite = self.ev_open.rewrite = self.inline  # one-expression helpers are read at the call site
        self.delims: dict[str, ast.AST] = {}
        self.sites: dict[t.Any, dict[str, t.Any]] = {}  # flush sites by CFG node (and arm of a conditional expression)
        self.holds: dict[t.Any, dict[str, t.Any]] = {}
        self.n_match = 0
        self._classify_all()

    @staticmethod
    def _returned_tuple(fi: FuncInfo, r: ast.Return) -> ast.Tuple | None:
        """`return a, b, c` or `result = (a, b, c)` ... `return result` (nothing the tuple reads is rebound in between)"""
        v = r.value
        if isinstance(v, ast.Tuple):
            return v
        if isinstance(v, ast.Name):
            cfg = cfg_of(fi)
            rd = ReachingDefs(cfg, fi.params)
            rn = cfg.node_of(r)
            defs = rd.reaching(rn, v.id) if rn is not None else frozenset()
            d = next(iter(defs)) if len(defs) == 1 else None
            if d is not None and d.kind == "assign" and d.index is None and isinstance(d.value, ast.Tuple) and d.node is not None and all(
                    rd.reaching(d.node, x.id) == rd.reaching(rn, x.id) for x in ast.walk(d.value) if isinstance(x, ast.Name)):
                return d.value
        return None

    def _is_buffer(self, a: ast.AST, f: FuncInfo) -> bool:
        if isinstance(a, ast.Call) and dotted(a.func) in ("bytes", "bytearray", "memoryview") and len(a.args) == 1:
            a = a.args[0]
        return attr_of(a, f) == self.roles.buffer

    # -- classification of release positions ---------------------------------------
    def _match_source(self, call: ast.AST, node: Node) -> ast.Call | None:
        """``m.start()`` / ``m.end()`` -> the regex call that produced m"""
        if isinstance(call, ast.Call) and isinstance(call.func, ast.Attribute) and call.func.attr in ("start", "end") and isinstance(call.func.value, ast.Name):
            srcs = self._regex_results(call.func.value.id, node)
            if srcs is not None and len(srcs) == 1:
                return srcs[0]
        return None

    def _regex_results(self, name: str, node: Node) -> list[ast.Call] | None:
        """the regex calls whose result the local can hold at node, when every binding visible there is the result of a
        search / match / fullmatch or None (`m = RX.search(b)`; `m = RX.search(b) if seen else None`; `m = None` ... `if seen: m =
        RX.search(b)`): a method of the local can only be called when it is not None, so the None bindings do not count.
        None = some binding is something else."""
        defs = self.rd.reaching(node, name)
        if not defs:
            return None
        out: dict[int, ast.Call] = {}
        for d in defs:
            if d.kind not in ("assign", "walrus") or d.index is not None or d.value is None:
                return None
            calls = self._regex_arms(d.value)
            if calls is None:
                return None
            out.update({id(c): c for c in calls})
        return list(out.values())

    def _regex_arms(self, value: ast.AST) -> list[ast.Call] | None:
        """the regex calls among the arms of an expression whose every arm is a search / match / fullmatch call or None"""
        out: list[ast.Call] = []
        if any(isinstance(x, ast.Call) and self._inlinable(x) is not None for x in ast.walk(value)):
            value = self.inline(value) or value  # `m = self._find(data, boundary)` with `def _find(...): return RX.search(data) if ... else None`
        for arm, _ in self._arms(value, ()):
            if arm is None or astq.is_none(arm):
                continue
            if isinstance(arm, ast.Call) and isinstance(arm.func, ast.Attribute) and arm.func.attr in ("search", "match", "fullmatch"):
                out.append(arm)
            else:
                return None
        return out

    def _anchor_call(self, e: ast.AST) -> FuncInfo | None:
        """the package function a call runs: a method reached through self / cls / the class name, or a function of the module"""
        if not isinstance(e, ast.Call):
            return None
        f = e.func
        if isinstance(f, ast.Attribute) and isinstance(f.value, ast.Name) and f.value.id in ("self", "cls", self.roles.cls.name):
            _, what = self.ctx.repo.lookup(self.roles.cls, f.attr)
            return what if isinstance(what, FuncInfo) else None
        if isinstance(f, ast.Name) and f.id not in self.ev_open.fi_locals():
            fq = self.ctx.repo.resolve(self.fi.module, f.id)
            return self.ctx.repo.try_func(fq) if fq and fq.startswith("werkzeug") else None
        return None

    # -- one-expression helpers are read at the call site ---------------------------------------------------------------
    def _inlinable(self, c: ast.AST) -> tuple[FuncInfo, ast.AST, dict[str, ast.AST]] | None:
        callee = self._anchor_call(c)
        if callee is None or callee is self.fi or anchor_table(callee) is not None or anchor_summary(callee) is not None:
            return None
        body = [st for st in callee.node.body if not (isinstance(st, ast.Expr) and isinstance(st.value, ast.Constant))]  # type: ignore[attr-defined]
        if len(body) != 1 or not isinstance(body[0], ast.Return) or body[0].value is None:
            return None
        binding = bind_args(callee, c)  # type: ignore[arg-type]
        params = [p for p in callee.params if p not in ("self", "cls")]
        if binding is None or set(binding) != set(params):
            return None
        free = {x.id for x in ast.walk(body[0].value) if isinstance(x, ast.Name)} - set(params) - {"self", "cls"}
        if any(nm in self.ev_open.fi_locals() for nm in free):
            return None  # a global of the helper's module that a local of this function would capture
        return callee, body[0].value, binding

    def _region_anchor(self, c: ast.AST) -> tuple[ast.AST, ast.AST] | None:
        """a call of a hold-back anchor that is given the buffer and the start of the region to scan -> (buffer argument, start argument)"""
        callee = self._anchor_call(c)
        if callee is None or callee is self.fi or len(c.args) + len(c.keywords) != 2:  # type: ignore[attr-defined]
            return None
        tab = anchor_table(callee)
        if tab is None or tab.start_param is None:
            return None
        binding = bind_args(callee, c)  # type: ignore[arg-type]
        params = [p for p in callee.params if p not in ("self", "cls")]
        if binding is None or set(binding) != set(params) or len(params) != 2:
            return None
        other = next(p for p in params if p != tab.start_param)
        return binding[other], binding[tab.start_param]

    def inline(self, e: ast.AST | None, depth: int = 0) -> ast.AST | None:
        """replace calls of private helpers whose body is one `return <expression>` (and that are not themselves a hold-back
        anchor) by that expression with the arguments substituted: `self._hold(data, k)` -> `k + self.last_newline(data[k:])`"""
        if e is None or depth > 2 or not any(isinstance(x, ast.Call) and (self._inlinable(x) is not None or self._region_anchor(x) is not None) for x in ast.walk(e)):
            return e
        sp = self

        def fresh(x: ast.AST) -> ast.AST:
            return ast.parse(ast.unparse(x), mode="eval").body  # a copy without links into the module tree

        class T(ast.NodeTransformer):
            def visit_Call(self, c: ast.Call):  # noqa: N802
                self.generic_visit(c)
                reg = sp._region_anchor(c)
                if reg is not None:  # anchor(data, k) -> anchor(data[k:]) + k (the table confirmed that reading)
                    d_, k_ = fresh(reg[0]), reg[1]
                    one = ast.Call(func=fresh(c.func), args=[ast.Subscript(value=d_, slice=ast.Slice(lower=fresh(k_), upper=None, step=None), ctx=ast.Load())], keywords=[])
                    return ast.BinOp(left=one, op=ast.Add(), right=fresh(k_))
                hit = sp._inlinable(c)
                if hit is None:
                    return c
                _, expr, binding = hit

                class S(ast.NodeTransformer):
                    def visit_Name(self, nm: ast.Name):  # noqa: N802
                        return fresh(binding[nm.id]) if nm.id in binding else nm

                return S().visit(fresh(expr))

        out = T().visit(fresh(e))
        for x in ast.walk(out):
            ast.copy_location(x, e)
        ast.fix_missing_locations(out)
        return self.inline(out, depth + 1)

    # -- bindings of a release variable: one item per value the variable can take ------------------------------------
    @staticmethod
    def _atoms(test: ast.AST, label: str) -> list[tuple[ast.AST, str]]:
        """condition of a conditional expression on one arm -> the atoms known there (a disjunction is kept whole)"""
        if isinstance(test, ast.UnaryOp) and isinstance(test.op, ast.Not):
            return Splitter._atoms(test.operand, "F" if label == "T" else "T")
        if isinstance(test, ast.BoolOp) and ((isinstance(test.op, ast.And) and label == "T") or (isinstance(test.op, ast.Or) and label == "F")):
            return [x for v in test.values for x in Splitter._atoms(v, label)]
        return [(test, label)]

    def _arms(self, value: ast.AST | None, extra: tuple) -> list[tuple[ast.AST | None, tuple]]:
        v = value
        while isinstance(v, ast.Call) and (dotted(v.func) or "").endswith("cast") and len(v.args) == 2:
            v = v.args[1]
        if isinstance(v, ast.IfExp):
            return self._arms(v.body, extra + tuple(self._atoms(v.test, "T"))) + self._arms(v.orelse, extra + tuple(self._atoms(v.test, "F")))
        if isinstance(v, ast.NamedExpr):
            return self._arms(v.value, extra)
        return [(v, extra)]

    def bindings(self, e: ast.AST | None, at: Node, stmt: ast.AST) -> list[tuple[ast.AST | None, Node, ast.AST, tuple]]:
        """(value, node where it is computed, statement, conditions of conditional expressions on the way) for every value the
        expression can denote: release variables are followed to their bindings - plain, tuple (`a, b = x, y`; `a, b = m.span()`),
        walrus - and conditional expressions are split into their arms"""
        out: list[tuple[ast.AST | None, Node, ast.AST, tuple]] = []
        if isinstance(e, ast.Name) and e.id in self.stop:
            for d in self.rd.reaching(at, e.id):
                v = d.value
                if d.node is None or v is None or d.kind not in ("assign", "walrus", "unpack"):
                    raise AnalysisError(f"{self.fi.loc(stmt)}: `{e.id}` is bound by a construct that is not modelled ({d.kind})")
                if d.kind == "unpack":
                    if isinstance(v, (ast.Tuple, ast.List)) and d.index is not None and d.index < len(v.elts) and not any(isinstance(x, ast.Starred) for x in v.elts) \
                            and isinstance(d.stmt, ast.Assign) and all(isinstance(tg, (ast.Tuple, ast.List)) and len(tg.elts) == len(v.elts) for tg in d.stmt.targets):
                        v = v.elts[d.index]
                    elif isinstance(v, ast.Call) and isinstance(v.func, ast.Attribute) and v.func.attr == "span" and not v.args and d.index in (0, 1):
                        v = ast.copy_location(ast.Call(func=ast.copy_location(ast.Attribute(value=v.func.value, attr=("start", "end")[d.index], ctx=ast.Load()), v), args=[], keywords=[]), v)
                    else:
                        raise AnalysisError(f"{self.fi.loc(stmt)}: `{e.id}` is bound by a tuple assignment that is not modelled (`{norm(d.stmt or v)}`)")
                for arm, extra in self._arms(v, ()):
                    if isinstance(arm, ast.Name) and arm.id in self.stop and arm.id != e.id:
                        out += [(v2, n2, s2, extra + x2) for v2, n2, s2, x2 in self.bindings(arm, d.node, d.stmt or v)]
                    else:
                        out.append((arm, d.node, d.stmt or v, extra))
        else:
            for arm, extra in self._arms(e, ()):
                if isinstance(arm, ast.Name) and arm.id in self.stop:
                    out += [(v2, n2, s2, extra + x2) for v2, n2, s2, x2 in self.bindings(arm, at, stmt)]
                else:
                    out.append((arm, at, stmt, extra))
        return out

    def classify(self, value: ast.AST | None, node: Node) -> dict[str, t.Any]:
        if value is None:
            return {"kind": "TAIL", "k": Lin(0, 0)}
        ev = self.ev_open
        ev.opaque = {}
        try:
            a = ev.aff(value, node)
        except NotAffine as e:
            raise AnalysisError(f"{self.fi.loc(value)}: release position `{norm(value)}` is not modelled ({e})")
        ops = [ev.opaque[s] for s in a.coef if s.startswith("op:")]
        for o in ops:
            src = self._match_source(o, node)
            if src is not None and src.func.attr == "search":  # type: ignore[attr-defined]
                return {"kind": "MATCH", "regex": src.func.value, "call": src}  # type: ignore[attr-defined]
        for o in ops:
            m = self._anchor_call(o)
            if m is not None:
                return {"kind": "HOLD", "anchor": m, "call": o, "aff": a}
        if a.only({"D", "n"}) and a.coef.get("D") == 1:
            return {"kind": "TAIL", "k": Lin(-a.coef.get("n", 0), -a.const), "aff": a}
        raise AnalysisError(f"{self.fi.loc(value)}: release position `{norm(value)}` is neither a match position, a hold-back anchor nor the end of the buffer")

    def _classify_all(self) -> None:
        for r, what, e, lower in self.release:
            rn = self.cfg.node_of(r)
            assert rn is not None
            for value, node, stmt, extra in self.bindings(e, rn, r):
                c = self.classify(value, node)
                c.update(stmt=stmt, node=node, what=what, ret=r, lower=lower, value=value, extra=extra)
                self.items.append(c)
                if c["kind"] == "MATCH":
                    self.n_match += 1
                    self.delims[norm(c["regex"])] = c["regex"]
                elif c["kind"] == "HOLD":
                    self.holds.setdefault((node.id, norm(value) if extra else ""), c)
                else:
                    self.sites.setdefault((node.id, norm(value) if extra else ""), c)
        if len(self.delims) != 1:
            raise AnalysisError(f"{self.fi.qualname}: expected one delimiter pattern whose match bounds the payload, found {sorted(self.delims)}")
        self.delim = next(iter(self.delims.values()))
        self.langs = self.pats.langs(self.fi, self.delim)

    # -- guards -------------------------------------------------------------------------
    def _through_flag(self, a: ast.AST, tn: Node, lab: str) -> list[tuple[ast.AST, Node, str]]:
        """`far = <condition>` ... `if far:` -> the condition, read where it was computed (its operands are unchanged in between)"""
        if isinstance(a, ast.Name) and a.id not in self.fi.params:
            d = self.ev_open.single_def(a.id, tn)
            if d is not None and d.node is not None and isinstance(d.value, (ast.Compare, ast.BoolOp, ast.UnaryOp)):
                return [y for x, l2 in self._atoms(d.value, lab) for y in self._through_flag(x, d.node, l2)]
        if isinstance(a, ast.Call) and self._inlinable(a) is not None:  # the condition sits in a one-expression helper
            b = self.inline(a)
            if b is not None and isinstance(b, (ast.Compare, ast.BoolOp, ast.UnaryOp)):
                return [(x, tn, l2) for x, l2 in self._atoms(b, lab)]
        return [(a, tn, lab)]

    def guard_kinds(self, node: Node, extra: tuple = ()) -> dict[str, t.Any]:
        """classify every branch edge that dominates node (plus the conditions of conditional expressions that select the value)."""
        out: dict[str, t.Any] = {"fact": None, "fact_expr": None, "thresholds": [], "neutral": [], "unknown": []}
        edges: list[tuple[ast.AST | None, Node, str, str]] = [(tn.ast, tn, lab, tn.kind) for tn, lab in self.cfg.guards(node)]
        edges += [(a, node, lab, "test") for a, lab in extra]
        flat: list[tuple[ast.AST | None, Node, str, str]] = []
        for a, tn, lab, kind in edges:
            if kind == "test" and a is not None:
                flat += [(a2, n2, l2, kind) for a2, n2, l2 in self._through_flag(a, tn, lab)]
            else:
                flat.append((a, tn, lab, kind))
        for a, tn, lab, kind in flat:
            if kind != "test":
                out["unknown"].append(f"loop `{tn.text()}`")
                continue
            f = self._presence(a, tn, lab)
            if f is not None:
                if out["fact"] not in (None, f[0]):
                    raise AnalysisError(f"{self.fi.loc(a)}: contradictory facts about the boundary text")
                out["fact"], out["fact_expr"], out["fact_node"] = f[0], f[1], tn
                continue
            if isinstance(a, ast.Name) and a.id in self.fi.params:
                out["neutral"].append(norm(a))
                continue
            if isinstance(a, ast.Name) and self._regex_results(a.id, tn) is not None:  # `if m:` / `if not m:` - a match object is true, None is not
                out["neutral"].append(norm(a))
                continue
            if isinstance(a, ast.Compare) and len(a.ops) == 1 and isinstance(a.ops[0], (ast.Is, ast.IsNot)) and astq.is_none(a.comparators[0]):
                # a match test (what is compared with None is the result of a regex call or None, held in a local or bound by a
                # walrus in the test itself): says nothing that makes a release safer
                tested = a.left.value if isinstance(a.left, ast.NamedExpr) else a.left
                if (isinstance(tested, ast.Name) and self._regex_results(tested.id, tn) is not None) or (not isinstance(tested, ast.Name) and self._regex_arms(tested) is not None):
                    out["neutral"].append(norm(a))
                    continue
            th = self._threshold(a, tn, lab)
            if th is not None:
                if th["release"]:
                    out["thresholds"].append(th)
                else:
                    out["neutral"].append(norm(a))
                continue
            out["unknown"].append(f"`{norm(a)}`")
        return out

    def _presence(self, a: ast.AST, tn: Node, lab: str):
        """is the test a statement about the boundary text being in the buffer? -> ("present"|"absent", expr)"""
        def find_call(x: ast.AST) -> ast.Call | None:
            """`buffer.find(needle)` / `buffer.count(needle)`, also through a local that holds the result"""
            if isinstance(x, ast.NamedExpr):
                x = x.value
            if isinstance(x, ast.Name) and x.id not in self.fi.params:
                d = self.ev_open.single_def(x.id, tn)
                x = d.value if d is not None else x
            if isinstance(x, ast.Call) and isinstance(x.func, ast.Attribute) and x.func.attr in ("find", "count") and norm(x.func.value) in self.buffers and len(x.args) == 1 and not x.keywords:
                return x
            return None

        if not isinstance(a, ast.Compare):
            # `if buffer.count(needle):` - the number of occurrences used as a truth value
            fc0 = find_call(a)
            if fc0 is not None and fc0.func.attr == "count":  # type: ignore[attr-defined]
                return ("present" if lab == "T" else "absent", fc0.args[0])
            return None
        if len(a.ops) != 1:
            return None
        op, lhs, rhs = a.ops[0], a.left, a.comparators[0]

        def int_const(x: ast.AST) -> int | None:
            if isinstance(x, ast.UnaryOp) and isinstance(x.op, ast.USub) and isinstance(x.operand, ast.Constant) and isinstance(x.operand.value, int):
                return -x.operand.value
            return x.value if isinstance(x, ast.Constant) and isinstance(x.value, int) and not isinstance(x.value, bool) else None

        if isinstance(op, (ast.In, ast.NotIn)) and norm(rhs) in self.buffers:
            present_if_true = isinstance(op, ast.In)
            needle = lhs
        else:
            fc, c, opt = find_call(lhs), int_const(rhs), type(op)
            if fc is None and find_call(rhs) is not None:  # constant on the left
                fc, c = find_call(rhs), int_const(lhs)
                opt = {ast.Gt: ast.Lt, ast.Lt: ast.Gt, ast.GtE: ast.LtE, ast.LtE: ast.GtE}.get(opt, opt)
            if fc is None or c is None:
                return None
            needle = fc.args[0]
            if fc.func.attr == "count":  # type: ignore[attr-defined]
                table = {(ast.Eq, 0): False, (ast.NotEq, 0): True, (ast.Lt, 1): False, (ast.GtE, 1): True, (ast.Gt, 0): True, (ast.LtE, 0): False}
            else:
                table = {(ast.Eq, -1): False, (ast.NotEq, -1): True, (ast.Lt, 0): False, (ast.GtE, 0): True, (ast.Gt, -1): True, (ast.LtE, -1): False}
            present_if_true = table.get((opt, c))  # type: ignore[arg-type]
            if present_if_true is None:
                return None
        present = present_if_true if lab == "T" else not present_if_true
        return ("present" if present else "absent", needle)

    def _threshold(self, a: ast.AST, tn: Node, lab: str):
        """`len(buffer) - P  OP  T` with P a hold-back position (anchor call + offsets, written out or held in a local) and T affine
        in the boundary length -> dict(var, teff: Lin, anchors) when the edge means `pending tail > teff`."""
        if not (isinstance(a, ast.Compare) and len(a.ops) == 1 and isinstance(a.ops[0], (ast.Gt, ast.GtE, ast.Lt, ast.LtE))):
            return None
        ev = self.ev_open
        try:
            d = ev.aff(a.left, tn) - ev.aff(a.comparators[0], tn)
        except NotAffine:
            return None
        sgn = d.coef.get("D", 0)
        if sgn not in (1, -1):
            return None
        # sgn * d = (D - P) - T : P = the part that is neither the buffer length, the boundary length nor a constant
        P = Aff({k: -sgn * v for k, v in d.coef.items() if k not in ("D", "n")})
        ops = [k for k in P.coef if k.startswith("op:")]
        if len(ops) != 1 or P.coef[ops[0]] != 1 or any(v != 1 for v in P.coef.values()):
            return None
        call = ev.opaque.get(ops[0])
        afi = self._anchor_call(call) if call is not None else None
        if afi is None:
            return None
        op = type(a.ops[0])
        T = Lin(-sgn * d.coef.get("n", 0), -sgn * d.const)  # tail OP T (sgn = 1) or T' OP' tail
        if sgn == -1:
            op = {ast.Gt: ast.Lt, ast.GtE: ast.LtE, ast.Lt: ast.Gt, ast.LtE: ast.GtE}[op]
        if lab == "F":
            op = {ast.Gt: ast.LtE, ast.GtE: ast.Lt, ast.Lt: ast.GtE, ast.LtE: ast.Gt}[op]
        if op is ast.Gt:
            teff = T
        elif op is ast.GtE:
            teff = T.minus(1)
        else:
            return {"release": False, "test": a}  # the edge means "tail is short": understood, but not a release threshold
        names = [x.id for side in (a.left, a.comparators[0]) for x in ast.walk(side) if isinstance(x, ast.Name) and x.id in ev.fi_locals() and x.id not in self.buffers]
        var = next((nm for nm in names if (dd := ev.single_def(nm, tn)) is not None and any(self._anchor_call(x) is afi for x in ast.walk(dd.value))), None) or norm(call)
        return {"release": True, "var": var, "teff": teff, "test": a, "anchors": [{"kind": "HOLD", "anchor": afi, "call": call, "aff": P}]}

    # -- R1.7: deleted prefix vs payload start -----------------------------------------
    def is_buffer_index(self, name: str, node: Node) -> bool:
        """every binding of the local visible at node is 0 or a position of a match found in the buffer (0 <= v <= len(buffer))"""
        defs = self.rd.reaching(node, name)
        if not defs:
            return False

        def uncast(v: ast.AST) -> ast.AST:
            while isinstance(v, ast.Call) and (dotted(v.func) or "").endswith("cast") and len(v.args) == 2:
                v = v.args[1]
            return v

        def position(v: ast.AST, at: Node) -> bool:
            v = uncast(v)
            if isinstance(v, ast.IfExp):
                return position(v.body, at) and position(v.orelse, at)
            if isinstance(v, ast.Constant) and isinstance(v.value, int) and not isinstance(v.value, bool) and v.value == 0:
                return True
            if isinstance(v, ast.Call) and isinstance(v.func, ast.Attribute) and v.func.attr in ("start", "end") and not v.args:
                inner = uncast(v.func.value)
                if isinstance(inner, ast.NamedExpr):
                    inner = uncast(inner.value)
                srcs = [inner]
                if isinstance(inner, ast.Name):
                    srcs = [uncast(d.value) for d in self.rd.reaching(at, inner.id) if d.value is not None and d.index is None]
                    if len(srcs) != len(self.rd.reaching(at, inner.id)):
                        return False
                return bool(srcs) and all(
                    isinstance(dv, ast.Call) and isinstance(dv.func, ast.Attribute) and dv.func.attr in ("match", "search", "fullmatch") and bool(dv.args) and norm(dv.args[0]) in self.buffers
                    for dv in srcs)
            return False

        return all(d.kind in ("assign", "walrus") and d.value is not None and d.index is None and d.node is not None and position(d.value, d.node) for d in defs)

    def lower_bound(self, diff: Aff, node: Node, ev: AffEval) -> tuple[int | None, str]:
        """a lower bound of an affine expression over: n >= 1, len(buffer) >= every buffer position >= 0, anchor calls >= 0
        (or -1).  None = not bounded below by a constant (a buffer position is subtracted and nothing balances it); shapes
        outside this vocabulary raise NotAffine."""
        lb = diff.const
        neg_index = 0
        for sym, k in diff.coef.items():
            if sym == "n":
                if k < 0:
                    return None, "it shrinks with the boundary length"
                lb += k
            elif sym == "D":
                if k < 0:
                    raise NotAffine("the buffer length is subtracted")
            elif sym.startswith("name:"):
                if not self.is_buffer_index(sym[5:], node):
                    raise NotAffine(f"`{sym[5:]}` is not bound to 0 or a match position in the buffer on every path")
                if k < 0:
                    neg_index += -k
            elif sym.startswith("op:"):
                afi = self._anchor_call(ev.opaque.get(sym))  # type: ignore[arg-type]
                tab = anchor_table(afi) if afi is not None else None
                if tab is None or k < 0:
                    raise NotAffine(f"`{sym[3:]}` has no modelled bound")
                lb += k * tab.lower  # 0, or -1 for an anchor that answers -1 when there is no line break
            else:
                raise NotAffine(f"symbol {sym}")
        if neg_index > diff.coef.get("D", 0):
            return None, "a position in the buffer is subtracted and neither the scanned region nor the buffer length balances it"
        return lb, ""

    def callsite_unknown(self) -> list[str]:
        """guards on the calls of the splitter other than protocol-state tests"""
        out = []
        for f, c in self.call_sites:
            cfg = cfg_of(f)
            n = cfg.node_of(c)
            if n is None:
                continue
            rd = ReachingDefs(cfg, f.params)
            for tn, _ in cfg.guards(n):
                a = tn.ast
                if tn.kind == "test" and a is not None and state_test_parts(f, rd, a, tn, self.roles) is not None:
                    continue
                out.append(f"`{tn.text()}` at {f.loc(a)}")
        return out


BRANCH = {"present": "boundary text present", "absent": "boundary text absent"}


def describe_anchor(afi: FuncInfo, tab) -> str:
    """what the anchor helper computes, in words: the closed form when it has one, else how it was evaluated"""
    summ = anchor_summary(afi)
    if summ is not None:
        comb, terms = summ
        return f"{afi.qualname} returns {comb}(" + ", ".join(f"last {bytes([b_])!r} or {'len' if k_ == 'end' else '-1'}" for k_, b_ in terms) + ")"
    return (f"{afi.qualname} was evaluated on all {len(tab.results)} arguments of up to {max(len(s_) for s_ in tab.results)} bytes over "
            f"{[bytes([b_]) for b_ in tab.letters if b_ != tab.filler]} and one other byte")


class Branches:
    """names of the instances of one clause by the state of the buffer (boundary text absent / present) the site is reached in, so that
    the shape of the branching does not show in the name: two duplicated computations (one per state) and one computation that serves
    both states give the same instances.  A site whose guards name a state stands for that state; a site whose guards say nothing
    stands for every state that no other site stands for, and for "any buffer" when each state already has a site of its own (an
    additional computation, not a merged one)."""

    def __init__(self, facts: t.Iterable[str | None]):
        self.claimed = {BRANCH[f] for f in facts if f is not None}

    def of(self, fact: str | None) -> list[str]:
        if fact is not None:
            return [BRANCH[fact]]
        free = [b for b in (BRANCH["absent"], BRANCH["present"]) if b not in self.claimed]
        self.claimed.update(free)
        return free or ["any buffer"]


def rules_splitter(ctx: Ctx, roles: Roles, pats: Patterns, folder: Folder) -> Splitter:
    sp = Splitter(ctx, roles, pats, folder)
    fi = sp.fi
    ctx.saw(fi)
    rx_txt = norm(sp.delim)
    call_unknown = sp.callsite_unknown()
    ctx.floor("R1.4", "delimiter-match release positions", sp.n_match, 1)
    ctx.floor("R1.4", "whole-buffer releases without a delimiter", len(sp.sites), 1)
    ctx.floor("R1.6", "hold-back release positions", len(sp.holds), 1)
    first_bytes = set().union(*[l.first_bytes() for l in sp.langs])
    lbw = set().union(*[line_break_words(l) for l in sp.langs])  # the line breaks a delimiter can begin with

    br15 = Branches(sp.guard_kinds(st_["node"], st_.get("extra", ()))["fact"] for st_ in sp.sites.values())
    for nid, site in sorted(sp.sites.items(), key=lambda kv: kv[1]["node"].lineno):
        node: Node = site["node"]
        g = sp.guard_kinds(node, site.get("extra", ()))
        fact = g["fact"]
        # longest incomplete delimiter that may sit at the end of the buffer here
        vals, example = [], b""
        for i, lang in enumerate(sp.langs):
            kw: dict[str, bytes] = {}
            if fact is not None:
                try:
                    needle = sp.ev_open.bytes_val(g["fact_expr"], g["fact_node"], pats.boundary(i))
                except NotAffine as e:
                    raise AnalysisError(f"{fi.loc(g['fact_expr'])}: cannot fold the text looked up in the buffer ({e})")
                kw = {"must_contain": needle} if fact == "present" else {"must_not_contain": needle}
            n_, ex = lang.pending(**kw)
            vals.append(n_)
            if i == 0:
                example = ex
        L = fit(vals, "longest incomplete delimiter")
        k: Lin = site["k"]
        ths = g["thresholds"]
        best = max(ths, key=lambda th: (th["teff"].a, th["teff"].c)) if ths else None
        ok = k.ge(L) or any(th["teff"].ge(L) for th in ths)
        unknown = g["unknown"] + call_unknown
        if not ok and unknown:
            raise AnalysisError(f"{fi.loc(site['stmt'])}: release of the whole buffer is guarded by conditions that are not modelled: {unknown}")
        known = "nothing about the boundary text" if fact is None else f"`{norm(g['fact_expr'])}` is {'in' if fact == 'present' else 'not in'} the buffer"
        branch = {None: "any buffer", "present": "boundary text present", "absent": "boundary text absent"}[fact]
        ctx.ob("R1.4", f"{fi.qualname}: releasing the whole buffer ({site['what']}) without a delimiter keeps every possible incomplete delimiter", ok,
               f"`{norm(site['stmt'])}` withholds {k} byte(s); guard: " + (f"`{norm(best['test'])}` i.e. pending tail > {best['teff']}" if best else "none")
               + f"; known on this branch: {known}; longest incomplete match of {rx_txt} then is {L} byte(s) (n = len(boundary); e.g. {example!r} for boundary {pats.boundary(0)!r}); needs T >= {L}",
               fi, site["stmt"], f"whole-buffer release ({branch})")
        # R1.5: the position the guard measures from
        if best is not None:
            names15 = br15.of(fact)
            for anc in best["anchors"]:
                afi: FuncInfo = anc["anchor"]
                ctx.saw(afi)
                tab = anchor_table(afi)
                if tab is None:
                    raise AnalysisError(f"{afi.loc()}: hold-back anchor `{afi.qualname}` has a shape that is not modelled (expected a pure function of its one argument: last-index lookups, "
                                        f"slices, byte tests, index arithmetic, loops; result -1 .. len(argument))")
                if not first_bytes <= set(tab.letters):
                    raise AnalysisError(f"{afi.loc()}: line-break byte(s) {sorted(first_bytes - set(tab.letters))} of `{rx_txt}` are outside the table `{afi.qualname}` is evaluated on: not modelled")
                early = sorted(((s_, r_, delimiter_start(s_, lbw, first_bytes)) for s_, r_ in tab.results.items()), key=lambda x: (len(x[0]), x[0]))
                early = [(s_, r_, q_) for s_, r_, q_ in early if q_ < len(s_) and r_ < q_]
                under = bool(early)
                if under and unknown:
                    raise AnalysisError(f"{fi.loc(site['stmt'])}: early release is guarded by conditions that are not modelled: {unknown}")
                for br in names15:
                    ctx.ob("R1.5", f"{fi.qualname}: the early-release guard measures the pending tail from the last line break", not under,
                           f"`{norm(best['test'])}` measures from `{best['var']}` = `{norm(anc['call'])}`; {describe_anchor(afi, tab)}"
                           + (f": for the argument {early[0][0]!r} it answers {early[0][1]} although the last line break begins at {early[0][2]}; when two different line-break bytes are more than T bytes apart the earlier one is taken, "
                              f"the tail looks long and the whole buffer is released although it ends with a byte that may start the delimiter "
                              f"(e.g. payload with a line break + more than T other bytes, then a CR LF delimiter whose CR ends one chunk and whose LF starts the next: the CR is emitted as payload)" if under
                              else ": for every argument with a line break the answer is not before the place where the last line break begins"),
                           fi, best["test"], f"early-release anchor ({br})")

    # R1.6: region of the hold-back scan vs region of the delimiter search
    dstarts = []
    searches = {id(c): c for c in astq.method_calls(fi.node, "search", nested=False)}
    searches.update({id(it["call"]): it["call"] for it in sp.items if it["kind"] == "MATCH"})  # a search read out of a one-expression helper
    for c in searches.values():
        if norm(c.func.value) == rx_txt and c.args and norm(c.args[0]) in sp.buffers:  # type: ignore[attr-defined]
            dstarts.append(c.args[1] if len(c.args) > 1 else None)
    if not dstarts or any(d is not None and not (isinstance(d, ast.Constant) and d.value == 0) for d in dstarts):
        raise AnalysisError(f"{fi.qualname}: delimiter search `{rx_txt}.search(...)` does not start at the beginning of the buffer: not modelled")
    br16 = Branches(sp.guard_kinds(h_["node"], h_.get("extra", ()))["fact"] for h_ in sp.holds.values())
    br110 = Branches(sp.guard_kinds(h_["node"], h_.get("extra", ()))["fact"] for h_ in sp.holds.values())
    for nid, h in sorted(sp.holds.items(), key=lambda kv: kv[1]["node"].lineno):
        call: ast.Call = h["call"]
        node = h["node"]
        region = call.args[0] if call.args else None
        if isinstance(region, ast.Name) and region.id not in sp.buffers:
            # `tail = data[k:]` ... `anchor(tail)`: read the region through the alias (same bindings at both places)
            d1 = sp.ev_open.single_def(region.id, node)
            if d1 is not None:
                region = d1.value
        lows: list[tuple[str, ast.AST | None, Node | None]] = []
        if region is not None and norm(region) in sp.buffers:
            lows.append(("0", None, None))
            lo = None
        elif isinstance(region, ast.Subscript) and norm(region.value) in sp.buffers and isinstance(region.slice, ast.Slice) and region.slice.upper is None and region.slice.step is None:
            lo = region.slice.lower
            if lo is None or (isinstance(lo, ast.Constant) and lo.value == 0):
                lows.append(("0", None, None))
            elif isinstance(lo, ast.Name):
                def uncast(v: ast.AST) -> ast.AST:
                    while isinstance(v, ast.Call) and (dotted(v.func) or "").endswith("cast") and len(v.args) == 2:
                        v = v.args[1]
                    return v

                def scan_starts(v: ast.AST, d) -> None:
                    """0, or the end of a match anchored at the start of the buffer; both arms of a conditional expression"""
                    v = uncast(v)
                    if isinstance(v, ast.IfExp):
                        scan_starts(v.body, d)
                        scan_starts(v.orelse, d)
                        return
                    if isinstance(v, ast.Constant) and v.value == 0 and not isinstance(v.value, bool):
                        lows.append(("0", d.stmt, d.node))
                        return
                    src = None
                    if isinstance(v, ast.Call) and isinstance(v.func, ast.Attribute) and v.func.attr == "end" and not v.args:
                        inner = uncast(v.func.value)
                        if isinstance(inner, ast.NamedExpr):
                            inner = uncast(inner.value)
                        if isinstance(inner, ast.Name):
                            ds = sp.rd.reaching(d.node, inner.id)
                            if len(ds) == 1 and next(iter(ds)).index is None and next(iter(ds)).value is not None:
                                inner = uncast(next(iter(ds)).value)
                        if isinstance(inner, ast.Call) and isinstance(inner.func, ast.Attribute) and inner.func.attr == "match" and inner.args and norm(inner.args[0]) in sp.buffers:
                            src = inner
                    if src is None:
                        raise AnalysisError(f"{fi.loc(call)}: start of the hold-back scan `{norm(v)}` is not modelled")
                    lang = pats.langs(fi, src.func.value)[0]  # type: ignore[attr-defined]
                    mn = min(len(w) for w in lang.words)
                    lows.append((f">={mn} (end of `{norm(src)}`)" if mn > 0 else "0", d.stmt, d.node))

                for d in sp.rd.reaching(node, lo.id):
                    if d.kind not in ("assign", "walrus") or d.value is None or d.node is None or d.index is not None:
                        raise AnalysisError(f"{fi.loc(call)}: start of the hold-back scan `{lo.id}` is bound by `{d.kind}`: not modelled")
                    scan_starts(d.value, d)
            else:
                raise AnalysisError(f"{fi.loc(call)}: start of the hold-back scan `{norm(lo)}` is not modelled")
        else:
            raise AnalysisError(f"{fi.loc(call)}: hold-back anchor is not computed on the buffer or a tail slice of it: `{norm(call)}`")
        late = [(txt, st, dn) for txt, st, dn in lows if txt != "0"]
        if late:
            tab6 = anchor_table(h["anchor"])
            if tab6 is None or not tab6.end_when_no_break(first_bytes):
                raise AnalysisError(f"{fi.loc(call)}: hold-back scan starts late and `{h['anchor'].qualname}` has a shape that is not modelled: cannot decide what is released when the scanned region has no line break")
            unknown = list(call_unknown) + sp.guard_kinds(node, h.get("extra", ()))["unknown"]
            for _, _, dn in late:
                if dn is not None:
                    unknown += sp.guard_kinds(dn)["unknown"]
            if unknown:
                raise AnalysisError(f"{fi.loc(call)}: hold-back with a late scan start is guarded by conditions that are not modelled: {unknown}")
        g = sp.guard_kinds(node, h.get("extra", ()))
        for br in br16.of(g["fact"]):
            ctx.ob("R1.6", f"{fi.qualname}: the hold-back scan starts no later than the delimiter search", not late,
                   f"`{rx_txt}.search({sp.data})` looks for a delimiter from offset 0; `{norm(call)}` scans for a line break from {sorted({txt for txt, _, _ in lows})}"
                   + (f": a delimiter that begins in the skipped prefix is found once complete (payload ends before it) but is not held back while incomplete ({h['anchor'].qualname} answers `end of region` when the region has no line break) "
                      f"(e.g. buffer = line break + first bytes of `--boundary` right after the headers of a body-less part: those bytes are released as payload)" if late else ""),
                   fi, call, f"hold-back scan region ({br})")
        # R1.10: where the anchor cuts the scanned region
        afi10: FuncInfo = h["anchor"]
        tab = anchor_table(afi10)
        if tab is None:
            raise AnalysisError(f"{afi10.loc()}: hold-back anchor `{afi10.qualname}` has a shape that is not modelled (expected a pure function of its one argument: last-index lookups, "
                                f"slices, byte tests, index arithmetic, loops; result -1 .. len(argument))")
        if not first_bytes <= set(tab.letters):
            raise AnalysisError(f"{afi10.loc()}: line-break byte(s) {sorted(first_bytes - set(tab.letters))} of `{rx_txt}` are outside the table `{afi10.qualname}` is evaluated on: not modelled")
        late10 = sorted(((s_, r_, delimiter_start(s_, lbw, first_bytes)) for s_, r_ in tab.results.items() if r_ > delimiter_start(s_, lbw, first_bytes)), key=lambda x: (len(x[0]), x[0]))
        # the position that is released = anchor(region) + start of the region (+ what else is added)
        shift = 0
        ev = sp.ev_open
        ev.opaque = {}
        try:
            a_pos = ev.aff(h["value"], node)
            syms = [s_ for s_ in a_pos.coef if s_.startswith("op:") and sp._anchor_call(ev.opaque.get(s_)) is afi10]  # type: ignore[arg-type]
            a_lo = ev.aff(lo, node) if lo is not None else Aff()
            rest = a_pos - a_lo
            if len(syms) == 1 and rest.coef == {syms[0]: 1}:
                shift = rest.const
        except NotAffine:
            pass
        ok10 = not late10 and shift <= 0
        unknown10 = list(call_unknown) + g["unknown"]
        if not ok10 and unknown10:
            raise AnalysisError(f"{fi.loc(call)}: a hold-back position that may lie after the start of an incomplete delimiter is guarded by conditions that are not modelled: {unknown10}")
        for br in br110.of(g["fact"]):
            ctx.ob("R1.10", f"{fi.qualname}: the hold-back position is not after the place where an incomplete delimiter can begin", ok10,
                   f"`{norm(h['value'])}` releases the buffer up to `{norm(call)}`" + (f" + {shift}" if shift > 0 else "") + f"; {describe_anchor(afi10, tab)}; line breaks a `{rx_txt}` match can begin with: {sorted(lbw)}"
                   + (f": for the region {late10[0][0]!r} it answers {late10[0][1]}, but the last line break (the possible beginning of a delimiter whose rest has not arrived) begins at {late10[0][2]}: the bytes in between are emitted as payload "
                      f"(e.g. a chunk that ends between the CR and the LF in front of a delimiter: the CR is appended to the payload and the LF that follows is taken for a bare-LF delimiter; "
                      f"{len(late10)} of {len(tab.results)} evaluated regions)" if late10
                      else f": the position is {shift} byte(s) after what the anchor answers" if shift > 0
                      else f": for every one of the {len(tab.results)} evaluated regions the answer is at or before the place where the last line break begins"),
                   fi, call, f"hold-back position ({br})")

    # R1.7: what is skipped in front of the payload is deleted with it
    n17 = 0
    br17 = {kd: Branches(sp.guard_kinds(it_["node"], it_.get("extra", ()))["fact"] for it_ in sp.items if it_["what"] == "deleted prefix" and it_["kind"] == kd) for kd in ("HOLD", "TAIL")}
    for it in sp.items:
        if it["what"] != "deleted prefix" or it["kind"] not in ("HOLD", "TAIL"):
            continue
        n17 += 1
        node, ret, lower = it["node"], it["ret"], it["lower"]
        rn = sp.cfg.node_of(ret)
        assert rn is not None
        ev = sp.ev_open
        ev.opaque = {}
        try:
            a_del = ev.aff(it["value"], node)
            a_lo = ev.aff(lower, rn) if lower is not None else Aff()
        except NotAffine as e:
            raise AnalysisError(f"{fi.loc(ret)}: payload start `{norm(lower) if lower is not None else 0}` is not modelled ({e})")
        for sym in set(a_del.coef) | set(a_lo.coef):
            if sym.startswith("name:") and sp.rd.reaching(node, sym[5:]) != sp.rd.reaching(rn, sym[5:]):
                raise AnalysisError(f"{fi.loc(ret)}: `{sym[5:]}` is rebound between `{norm(it['stmt'])}` and the return: not modelled")
        try:
            lb, why = sp.lower_bound(a_del - a_lo, rn, ev)
        except NotAffine as e:
            raise AnalysisError(f"{fi.loc(it['stmt'])}: cannot bound `{norm(it['value'])}` against the payload start `{norm(lower) if lower is not None else 0}`: {e}")
        ok = lb is not None and lb >= 0
        g = sp.guard_kinds(node, it.get("extra", ()))
        if node is not rn:
            g2 = sp.guard_kinds(rn)
            g["unknown"] = g["unknown"] + [u for u in g2["unknown"] if u not in g["unknown"]]
        unknown = g["unknown"] + call_unknown
        if not ok and unknown:
            raise AnalysisError(f"{fi.loc(it['stmt'])}: a deleted prefix that may end before the payload start is guarded by conditions that are not modelled: {unknown}")
        lo_txt = norm(lower) if lower is not None else "0"
        for br in br17[it["kind"]].of(g["fact"]):
            ctx.ob("R1.7", f"{fi.qualname}: when the part continues, everything in front of the returned payload is deleted from the buffer", ok,
                   f"payload = {sp.data}[{lo_txt}:...], deleted prefix = `{norm(it['value'])}` (from `{norm(it['stmt'])}`); deleted - payload start >= "
                   + (f"{lb} for every buffer" if lb is not None else f"? ({why})")
                   + ("" if ok else f": the bytes skipped in front of the payload ({sp.data}[:{lo_txt}], the line break that opens the part body) can stay in the buffer while the decoder "
                      f"moves on, and are then read again as payload (e.g. the chunk ends right after the blank line of the part headers: the part's data starts with a stray line break)"),
                   fi, it["stmt"], f"deleted prefix covers payload start ({br}, {'hold-back' if it['kind'] == 'HOLD' else 'whole buffer'})")
    ctx.floor("R1.7", "deleted prefixes on paths that continue the part", n17, 1)
    return sp


# ---------------------------------------------------------------------------
# R1.8: the opening line break of a part body is consumed exactly once


def rules_skip_once(ctx: Ctx, roles: Roles, sp: Splitter) -> None:
    """every path through next_event (helpers that touch the state or the buffer inlined), from every protocol state: a call of the
    splitter that skips a line break in front of the payload and the deletion that follows it go together with leaving the states
    in which the splitter skips"""
    repo = ctx.repo
    ts = Typestate(repo, roles, lambda *a, **k: None)
    lower_of = {id(r): lower for r, what, _, lower in sp.release if what == "payload end"}
    px = PathExec(repo, roles, ts, sp.fi, lower_of)
    paths = {s: px.paths_from(s) for s in roles.members}

    def skipping_calls(p) -> list[tuple[int, tuple, tuple]]:
        out = []
        for i, ev in enumerate(p.events):
            if ev[0] == "call":
                ret = next((e2 for e2 in p.events[i + 1:] if e2[0] == "ret"), None)
                if ret is not None and ret[1]:
                    out.append((i, ev, ret))
        return out

    # whether a call skips must be a function of the protocol state the decoder was in
    for s, ps in paths.items():
        seen: dict[int, set[bool]] = {}
        where: dict[int, tuple] = {}
        for p in ps:
            for i, ev in enumerate(p.events):
                if ev[0] == "call":
                    ret = next((e2 for e2 in p.events[i + 1:] if e2[0] == "ret"), None)
                    if ret is not None:
                        seen.setdefault(ev[1], set()).add(bool(ret[1]))
                        where[ev[1]] = ev
        for cid, kinds in seen.items():
            if len(kinds) > 1:
                cfi, call = where[cid][2], where[cid][3]
                raise AnalysisError(f"{cfi.loc(call)}: in state {s}, whether `{norm(call)}` skips a line break in front of the payload is not decided by the protocol state "
                                    f"(it depends on a flag that is not followed): not modelled")
    skip_states = sorted(s for s, ps in paths.items() if any(skipping_calls(p) for p in ps))
    ctx.floor("R1.8", "protocol states in which the splitter is called so that it skips the opening line break", len(skip_states), 1)
    for s in skip_states:
        bad: list[tuple[t.Any, bool, tuple]] = []
        n_paths = 0
        exits: set[str] = set()
        first_call = None
        for p in paths[s]:
            for i, ev, ret in skipping_calls(p):
                first_call = first_call or ev
                n_paths += 1
                dels = [e2 for e2 in p.events[i + 1:] if e2[0] == "del" and not px.deleted_nothing(e2[1], p)]
                consumed = bool(dels)
                exits.add(p.state)
                if consumed == (p.state in skip_states):
                    bad.append((p, consumed, ev))
        assert first_call is not None
        cfi, call = first_call[2], first_call[3]
        fact = f"{n_paths} path(s) through {roles.entry.qualname} from state {s} call `{norm(call)}` with the skip of the opening line break; states they end in: {sorted(exits)}; states that skip: {skip_states}"
        if bad:
            bad.sort(key=lambda b: len(b[0].val))
            p, consumed, ev = bad[0]
            conds = ", ".join(f"`{re.sub(r'@[A-Za-z_0-9]+:[0-9]+(?::[0-9a-z]+|\\[[0-9]+\\])*', '', k)}` is {v}" for k, v in sorted(p.val.items())) or "no condition"
            if consumed:
                fact += (f"; on the path with {conds} the skipped line break is deleted from the buffer but the decoder stays in state {p.state}: the next call skips a second line break, "
                         f"the payload's own first one (e.g. the chunk ends right after the blank line that ends the part headers and the payload starts with a line break: one piece keeps it, two pieces lose it)")
            else:
                fact += (f"; on the path with {conds} the decoder moves on to state {p.state} but nothing is deleted from the buffer: the line break that was skipped is still there and is read again as payload")
        ctx.ob("R1.8", f"{cfi.qualname}: the line break that opens a part body is consumed exactly once (decoder in state {s})", not bad, fact, cfi, call, f"opening line break consumed once ({s})")
    ctx.note(f"R1.8: {px.steps} step(s) of the path executor over {len(roles.members)} protocol states")


# ---------------------------------------------------------------------------
# R1.9: field values do not depend on where the payload was cut


def rules_fields(ctx: Ctx, flow: EventFlow, owners: list[tuple[FuncInfo, str]]) -> None:
    ff = FieldFlow(ctx.repo, flow, owners)
    owner = owners[0][0]
    ctx.floor("R1.9", f"reads of the payload `{ff.cls_name}.{ff.attr}` of an event in the form parser", len(ff.reads), 1)
    n_sinks = 0
    any_changed = False
    for rec in ff.reads:
        fi, node = rec["fi"], rec["node"]
        sinks = rec["sinks"]
        n_sinks += len(sinks)
        changed = [s_ for s_ in sinks if s_["via"]]
        if rec["unknown"] and not changed:
            ufi, unode, why = rec["unknown"][0]
            raise AnalysisError(f"{ufi.loc(unode)}: the payload `{norm(node)}` is {why}: not modelled")
        if not sinks:
            continue  # only measured / tested
        any_changed = any_changed or bool(changed)
        where = changed[0] if changed else sinks[0]
        how = sorted({" . ".join(s_["via"]) for s_ in changed})
        recv = sorted({s_["receiver"] for s_ in sinks})
        ctx.ob("R1.9", f"{fi.qualname}: the payload of a Data event is collected as received", not changed,
               f"`{norm(node)}` reaches {[norm(s_['node'])[:70] for s_ in sinks]} (collected in {recv})"
               + (f"; before that each piece goes through `{'`, `'.join(how)}` on its own: the result depends on where the payload was cut, i.e. on the read buffer size and on short reads "
                  f"(e.g. a multi-byte UTF-8 character that straddles two reads is decoded in two halves)" if changed else ": unmodified or through a byte-wise map"),
               where["fi"], where["node"], f"payload collected ({' . '.join(changed[0]['via']) if changed else 'as received'})")
    ctx.floor("R1.9", "places where a payload is collected", n_sinks, 1)
    joins = ff.joins()
    lists = ff.list_receivers()
    if lists and not joins and not any_changed:
        fi0, st0 = next(iter(lists.values()))
        raise AnalysisError(f"{fi0.loc(st0)}: the list the payloads are collected in is not consumed by a `.join(...)`: not modelled")
    for j in joins:
        fi, c = j["fi"], j["call"]
        if j["sep_ok"] is None or j["elem"] is None:
            raise AnalysisError(f"{fi.loc(c)}: `{norm(c)}` joins the collected payloads in a way that is not modelled (separator / elements)")
        ok = j["sep_ok"] and j["elem"] == ""
        ctx.ob("R1.9", f"{fi.qualname}: the collected payloads are joined as they are, with nothing in between", ok,
               f"`{norm(c)[:90]}`: separator `{norm(j['sep'])}` is {'empty' if j['sep_ok'] else 'NOT empty: the value depends on the number of pieces'}; elements "
               + ("as collected" if j["elem"] == "" else f"transformed one by one (`{j['elem']}`): the result depends on where the payload was cut"),
               fi, c, f"join of collected payloads ({j['receiver']})")
    for fi in ff.scope:
        ctx.saw(fi)


# ---------------------------------------------------------------------------
# R1.11: what a delimiter match leaves of a line break must not show in the part headers


# representative header blocks of the property's domain (CRLF / bare-LF line ends, a file part, a folded header)
HEADER_BLOCKS = (
    b'Content-Disposition: form-data; name="a"',
    b'Content-Disposition: form-data; name="f"; filename="x.txt"\r\nContent-Type: text/plain',
    b'Content-Disposition: form-data; name="f"; filename="x.txt"\nContent-Type: text/plain',
    b'Content-Disposition: form-data;\r\n name="a"\r\nX-Extra: 1',
)
BLOCK = "__block__"


def left_over_by_delimiters(pats: Patterns) -> dict[bytes, tuple[str, bytes, bytes]]:
    """premise of R1.11, decided on the delimiter patterns: bytes r such that both w and w + r are complete matches of a delimiter
    that opens a part (not the closing `--boundary--`).  When a chunk ends after w the search succeeds at once, the match ends
    there, and r - the rest of the line break that ends the delimiter line - arrives as the first bytes of the next stage."""
    out: dict[bytes, tuple[str, bytes, bytes]] = {}
    b = pats.boundary(0)
    for attr in sorted(pats.compiles):
        if not any(isinstance(x, ast.Name) and x.id == pats.param for x in ast.walk(pats.compiles[attr])):
            continue  # a pattern that does not depend on the boundary is not a delimiter pattern
        lang = pats.langs(pats.init, ast.parse(f"self.{attr}", mode="eval").body)[0]
        if any(b not in w for w in lang.words):
            raise AnalysisError(f"{pats.init.loc()}: a word of `self.{attr}` does not contain the boundary: not modelled as a delimiter pattern")
        opening = [w for w in sorted(lang.words) if not w[w.find(b) + len(b):].startswith(b"--")]
        for w1 in opening:
            for w2 in opening:
                if len(w2) > len(w1) and w2.startswith(w1):
                    out.setdefault(w2[len(w1):], (f"self.{attr}", w1, w2))
    return out


def header_stages(repo, roles: Roles, ts: Typestate) -> list[dict[str, t.Any]]:
    """the expressions that turn a prefix of the receive buffer into an argument of an event that opens a part (an event class
    without a bytes field): found by role - the constructor argument is followed back through plain local assignments, and through
    a parameter to the argument of the one call of the helper, until the buffer slice shows; the slice is replaced by the
    placeholder BLOCK"""
    flow = EventFlow(repo, roles.cls)
    opening = set()
    for name in flow.universe:
        c = flow.module.classes[name]
        fields = [st for st in c.node.body if isinstance(st, ast.AnnAssign)]
        if name != flow.base.name and fields and not any(norm(st.annotation) in ("bytes", "bytearray") for st in fields):
            opening.add(name)
    # the decoder's methods reached from next_event, and the functions of the module they call
    funcs = list(roles.funcs)
    for fi in list(funcs):
        for c in walk_no_nested(fi.node):
            if isinstance(c, ast.Call):
                callee = ts._callee(fi, c)
                if callee is not None and callee.module is fi.module and all(callee is not f for f in funcs):
                    funcs.append(callee)
    rds: dict[str, ReachingDefs] = {}

    def rd_of(fi: FuncInfo) -> ReachingDefs:
        if fi.qualname not in rds:
            rds[fi.qualname] = ReachingDefs(cfg_of(fi), fi.params)
        return rds[fi.qualname]

    def callers(fi: FuncInfo) -> list[tuple[FuncInfo, ast.Call]]:
        return [(g, c) for g in funcs for c in walk_no_nested(g.node) if isinstance(c, ast.Call) and g is not fi and ts._callee(g, c) is fi]

    def is_buffer_slice(x: ast.AST, fi: FuncInfo) -> bool:
        return isinstance(x, ast.Subscript) and isinstance(x.slice, ast.Slice) and attr_of(x.value, fi) == roles.buffer

    out: dict[str, dict[str, t.Any]] = {}
    for fi0 in funcs:
        cfg0 = cfg_of(fi0)
        for c in walk_no_nested(fi0.node):
            if not (isinstance(c, ast.Call) and isinstance(c.func, ast.Name) and c.func.id in opening and c.func.id in fi0.module.classes):
                continue
            at0 = cfg0.node_of(c)
            if at0 is None:
                continue
            for a in list(c.args) + [k.value for k in c.keywords]:
                found: list[tuple[ast.Subscript, FuncInfo, Node]] = []  # buffer slices met on the way: original node, function, node it is read at

                def walk(x: ast.AST, fi: FuncInfo, at: Node, d: int) -> ast.AST:
                    """a fresh copy of x with locals replaced by the one plain assignment that reaches them"""
                    if is_buffer_slice(x, fi):
                        found.append((x, fi, at))  # type: ignore[arg-type]
                        return ast.Name(id=BLOCK, ctx=ast.Load())
                    if isinstance(x, ast.Name) and isinstance(x.ctx, ast.Load) and d < 6:
                        defs = rd_of(fi).reaching(at, x.id)
                        dd = next(iter(defs)) if len(defs) == 1 else None
                        if dd is not None and dd.kind == "assign" and dd.index is None and dd.value is not None and dd.node is not None:
                            return walk(dd.value, fi, dd.node, d + 1)
                        if dd is not None and dd.kind == "param" and x.id in fi.params and x.id not in ("self", "cls"):
                            sites = callers(fi)
                            binding = bind_args(fi, sites[0][1]) if len(sites) == 1 else None
                            g = sites[0][0] if sites else None
                            gat = cfg_of(g).node_of(sites[0][1]) if g is not None else None
                            if binding is not None and x.id in binding and g is not None and gat is not None:
                                return walk(binding[x.id], g, gat, d + 1)
                    if isinstance(x, ast.Name):
                        return ast.Name(id=x.id, ctx=ast.Load())
                    before = len(found)
                    new = x.__class__()
                    for f_, v_ in ast.iter_fields(x):
                        if isinstance(v_, ast.AST):
                            setattr(new, f_, walk(v_, fi, at, d))
                        elif isinstance(v_, list):
                            setattr(new, f_, [walk(i_, fi, at, d) if isinstance(i_, ast.AST) else i_ for i_ in v_])
                        else:
                            setattr(new, f_, v_)
                    if isinstance(x, ast.Call) and len(found) == before and d < 6:
                        # a helper of the decoder that is not given the block but reads the buffer itself and returns what it made of
                        # it (`headers = self._headers_up_to(match)`): its one return value stands for the call
                        callee = ts._callee(fi, x)
                        if callee is not None and callee is not fi and any(callee is f for f in funcs) and len(callers(callee)) == 1 \
                                and not any(isinstance(y, (ast.Yield, ast.YieldFrom)) for y in walk_no_nested(callee.node)):
                            rets = [r for r in walk_no_nested(callee.node) if isinstance(r, ast.Return)]
                            rn = cfg_of(callee).node_of(rets[0]) if len(rets) == 1 and rets[0].value is not None else None
                            if rn is not None:
                                sub = walk(rets[0].value, callee, rn, d + 1)  # type: ignore[arg-type]
                                if len(found) > before:
                                    return sub
                    return new

                e2 = ast.fix_missing_locations(ast.copy_location(walk(a, fi0, at0, 0), a))
                if not found:
                    continue
                sl = found[0][0].slice
                if len({id(f_[0]) for f_ in found}) != 1 or sl.step is not None or sl.upper is None or not (sl.lower is None or (isinstance(sl.lower, ast.Constant) and sl.lower.value == 0)):  # type: ignore[union-attr]
                    raise AnalysisError(f"{fi0.loc(a)}: `{norm(a)}` of `{norm(c.func)}(...)` is computed from `{norm(found[0][0])}`, which is not one prefix of the receive buffer: not modelled")
                out.setdefault(norm(e2), {"fi": found[0][1], "expr": e2, "node": found[0][2], "arg": found[0][0], "ctors": set()})["ctors"].add(c.func.id)
    if not out:
        # the constructor is not called by name (class chosen into a local, ...): fall back on the other end of the stage - a function
        # of the package that is handed a prefix of the buffer up to a position
        for fi0 in funcs:
            cfg0 = cfg_of(fi0)
            for c in walk_no_nested(fi0.node):
                at0 = cfg0.node_of(c) if isinstance(c, ast.Call) else None
                if at0 is None or ts._callee(fi0, c) is None:  # type: ignore[arg-type]
                    continue
                hits = [x for a in list(c.args) + [k.value for k in c.keywords] for x in ast.walk(a)  # type: ignore[union-attr]
                        if is_buffer_slice(x, fi0) and x.slice.step is None and x.slice.upper is not None  # type: ignore[attr-defined]
                        and (x.slice.lower is None or (isinstance(x.slice.lower, ast.Constant) and x.slice.lower.value == 0))]  # type: ignore[attr-defined]
                if len(hits) != 1:
                    continue

                def copy(x: ast.AST) -> ast.AST:
                    if x is hits[0]:
                        return ast.Name(id=BLOCK, ctx=ast.Load())
                    new = x.__class__()
                    for f_, v_ in ast.iter_fields(x):
                        setattr(new, f_, copy(v_) if isinstance(v_, ast.AST) else [copy(i_) if isinstance(i_, ast.AST) else i_ for i_ in v_] if isinstance(v_, list) else v_)
                    return new

                e2 = ast.fix_missing_locations(ast.copy_location(copy(c), c))
                out.setdefault(norm(e2), {"fi": fi0, "expr": e2, "node": at0, "arg": hits[0], "ctors": set()})["ctors"].add("part-opening event")
    return list(out.values())


def rules_residue(ctx: Ctx, roles: Roles, pats: Patterns, folder: Folder) -> None:
    repo = ctx.repo
    left = left_over_by_delimiters(pats)
    if not left:
        ctx.ob("R1.11", f"{roles.cls.name}: no delimiter match can end inside the line break that ends the delimiter line", True,
               f"no complete match of {sorted('self.' + a for a in pats.compiles)} that opens a part is a proper beginning of another one: nothing is left over for the next stage",
               pats.init, pats.init.node, "line-break rest after a delimiter")
        return
    ts = Typestate(repo, roles, lambda *a, **k: None)
    stages = header_stages(repo, roles, ts)
    ctx.floor("R1.11", "expressions that turn the head of the buffer into the headers of a part-opening event", len(stages), 1)
    me = MiniEval(repo, folder)
    pairs = [(r, h) for r in sorted(left) for h in HEADER_BLOCKS]

    def table(expr: ast.AST, fi: FuncInfo) -> list[tuple[t.Any, t.Any]]:
        """the expression on every sample block, without and with the rest in front (_Unmodelled when it cannot be evaluated)"""
        out = []
        for r, h in pairs:
            row = []
            for block in (h, r + h):
                me.steps = 0
                try:
                    row.append(me.ev(expr, {"self": SelfRef(roles.cls), BLOCK: block}, fi, 0))
                except _PyRaise as ex:
                    row.append(("raises", ex.names[0]))
            out.append((row[0], row[1]))
        return out

    def spine(expr: ast.AST) -> list[ast.AST]:
        """the expressions that enclose the placeholder, outermost first (the placeholder itself excluded)"""
        out: list[ast.AST] = []
        cur: ast.AST | None = expr
        while cur is not None and not (isinstance(cur, ast.Name) and cur.id == BLOCK):
            if isinstance(cur, ast.expr):
                out.append(cur)
            inner = [ch for ch in ast.iter_child_nodes(cur) if has_block(ch)]
            cur = inner[0] if len(inner) == 1 else None  # the block is read in two places: nothing smaller is a function of one value
        return out

    def has_block(x: ast.AST) -> bool:
        return any(isinstance(y, ast.Name) and y.id == BLOCK for y in ast.walk(x))

    # what has to be the same with and without the rest is the value the stage computes from the header block.  An argument of the
    # event that is derived from that value by further steps (`parse_options_header(headers[...])[1].get("filename")`, a helper that
    # picks the options out of the headers, ...) is a function of it: same headers, same argument - whatever those steps are and
    # whether or not they can be evaluated here.  So each argument is reduced to the outermost enclosing expression of the block
    # that can be evaluated (its core); arguments with the same core are one instance.
    cores: dict[str, dict[str, t.Any]] = {}
    whole: set[str] = set()
    for st in stages:
        fi = st["fi"]
        ctx.saw(fi)
        # an argument that is a display (`Field(**{"headers": headers, "name": name})`, a tuple of values) hands its elements to the
        # event as they are: each element computed from the block is a stage of its own
        todo, exprs = [st["expr"]], []
        while todo:
            x = todo.pop(0)
            if isinstance(x, (ast.Dict, ast.Tuple, ast.List, ast.Set, ast.Starred)):
                todo += [ch for ch in ast.iter_child_nodes(x) if has_block(ch)]
            else:
                exprs.append(x)
        for expr in exprs:
            whole.add(norm(expr))
            why = None
            for x in spine(expr):
                try:
                    tab = table(x, fi)
                except _Unmodelled as e:
                    why = (x, e)  # the innermost failure is the one reported: it is the step that reads the block itself
                    continue
                if x is not expr:
                    # the steps applied to the core must not look at the receive buffer again (they would see the rest too)
                    inner = {id(y) for y in ast.walk(x)}
                    again = [y for y in ast.walk(expr) if id(y) not in inner and isinstance(y, ast.Attribute) and attr_of(y, fi) == roles.buffer]
                    if again:
                        raise AnalysisError(f"{fi.loc(st['arg'])}: `{norm(expr)}` reads the receive buffer besides the header block `{norm(st['arg'])}`: not modelled")
                c = cores.setdefault(norm(x), {"fi": fi, "expr": x, "node": st["node"], "arg": st["arg"], "ctors": set(), "tab": tab, "derived": []})
                c["ctors"] |= st["ctors"]
                if x is not expr:
                    c["derived"].append(norm(expr))
                break
            else:
                x, e = why if why is not None else (expr, "the block itself is handed on")
                raise AnalysisError(f"{fi.loc(st['arg'])}: cannot evaluate `{norm(x)}` on a sample header block ({e}): not modelled")

    undecided: list[str] = []
    n_bad = 0
    for key, st in sorted(cores.items()):
        fi = st["fi"]
        diffs = []
        for (r, h), (v0, v1) in zip(pairs, st["tab"]):
            if isinstance(v0, tuple) and v0[:1] == ("raises",):
                raise AnalysisError(f"{fi.loc(st['arg'])}: `{norm(st['expr'])}` raises {v0[1]} on the well-formed header block {h!r}: not modelled")
            if not (v0 == v1):
                rx, w1, w2 = left[r]
                diffs.append((r, h, v0, v1, rx, w1, w2))
        ok = not diffs
        if not ok and key not in whole:
            # an intermediate value differs, but what an event is given is computed from it by steps that are not followed: they may
            # or may not remove the difference
            undecided.append(f"{fi.loc(st['arg'])}: `{norm(st['expr'])}` differs with the rest of a line break in front of the header block, and what becomes of it in "
                             f"`{st['derived'][0][:120]}` cannot be evaluated: not modelled")
            continue
        if not ok:
            # is the rest removed somewhere else before this stage reads the buffer?
            cfg = cfg_of(fi)
            for x in walk_no_nested(fi.node):
                if ts.is_buf(x, fi) and ts._buffer_effect_node(x) == "shift":
                    sn = cfg.node_of(x)
                    if sn is not None and sn is not st["node"] and st["node"].id in cfg.reach([sn]):
                        raise AnalysisError(f"{fi.loc(x)}: the buffer is modified on a path to `{norm(st['arg'])}`: whether that removes the rest of a line break is not modelled")
        r0, (rx0, w10, w20) = sorted(left.items())[0]
        fact = (f"both {w10!r} and {w20!r} are complete matches of `{rx0}` (boundary {pats.boundary(0)!r}): when a chunk ends between them the match ends early and {sorted(left)} arrive(s) in front of the part headers; "
                f"`{norm(st['expr'])}` ({BLOCK} = the buffer up to the blank line) feeds {sorted(st['ctors'])}"
                + (f" (also through {len(st['derived'])} argument(s) computed from it, e.g. `{st['derived'][0][:100]}`: a function of that value)" if st["derived"] else "")
                + f"; evaluated on {len(pairs)} (rest, header block) pairs: ")
        if diffs:
            r, h, v0, v1, _, _, _ = diffs[0]
            fact += (f"for the block {h!r} it gives {v0!r}, with the rest {r!r} in front {v1!r}: the headers of the part depend on where the delimiter line was cut "
                     f"(the stage that follows a delimiter has to skip empty lines, because the delimiter pattern accepts a line break that is not complete)")
        else:
            fact += "the same value with and without the rest in front"
        n_bad += 0 if ok else 1
        ctx.ob("R1.11", f"{fi.qualname}: the rest of a line break left in front of the part headers does not show in the headers", ok, fact, fi, st["arg"],
               f"line-break rest in front of the part headers ({'/'.join(sorted(st['ctors']))})")
    if undecided and not n_bad:
        raise AnalysisError(undecided[0])


# ---------------------------------------------------------------------------


def run(ctx: Ctx) -> None:
    for rid, text in RULES.items():
        ctx.rule(rid, text)
    repo = ctx.repo
    folder = Folder(repo)
    roles = find_roles(repo)
    pats = Patterns(repo, folder, roles.cls)
    rules_offset(ctx, roles, pats, folder)
    rules_feed(ctx, roles)
    sp = rules_splitter(ctx, roles, pats, folder)
    rules_skip_once(ctx, roles, sp)
    rules_residue(ctx, roles, pats, folder)
