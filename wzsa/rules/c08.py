"""C08 - multi-value containers vs. their documented model (structural clauses)."""

from __future__ import annotations

import ast

from .. import astq
from ..cfg import cfg_of
from ..classflow import EXEMPT_ROOTS, Closure, callable_names, is_rejector
from ..dataflow import ReachingDefs, bound_in_enclosing_comp
from ..loader import AnalysisError, BuiltinClass, ClassInfo, FuncInfo, dotted, norm, walk_no_nested
from ..report import Ctx
from ._shared import headerset_insertion_rule, headerset_order_rule

LEVEL_TEXT = (
    "Static decision of structural clauses of C08 on /repo's current source: (R8.1) on every class with an Immutable*Mixin "
    "in its MRO, no public or special method name resolved in that MRO reaches a primitive mutation of the underlying "
    "storage (builtin list/dict mutators, stores into the object's attributes) except through a method that raises "
    "TypeError on every path - exhaustive over typeshed's mutator tables and the class's own methods; (R8.2) in the "
    "case-insensitive containers every comparison with a lower-cased operand has a lower-cased operand on the other side "
    "(flow-sensitive); (R8.3) HeaderSet methods mutate list and set together; (R8.4) per-key lists stored, copied or "
    "returned by MultiDict are fresh objects except the three documented pass-through methods; (R8.5) the environ-backed "
    "view keeps no state of its own; (R8.6) hash material of immutable multi dicts is no finer than their equality. "
    "It decides these clauses on all paths, not conformance of every read with the abstract model after every history."
)
TRUSTED = ["CPython ast", "typeshed method tables of list/dict/MutableSet/MutableMapping/MutableSequence (bundled with the repo's mypy, read as text)", "Python MRO (C3) and super() semantics"]
ASSUMPTIONS = ["private helpers (single underscore) are reachable only through public methods of the same class", "constructors and the pickle/copy protocol are exempt from R8.1 (they initialise a new object)"]

CI_CLASSES = ["datastructures.headers.Headers", "datastructures.structures.HeaderSet"]
LOWERED_SETS = {"_set"}  # HeaderSet._set holds lower-cased members (established by R8.3's pairing + __init__)


def _immutable_classes(ctx: Ctx) -> list[ClassInfo]:
    out = []
    for c in ctx.repo.all_classes():
        mro = ctx.repo.mro(c)
        if any(k.name.startswith("Immutable") and k.name.endswith("Mixin") for k in mro[1:]):
            out.append(c)
    return sorted(out, key=lambda c: c.fq)


def run(ctx: Ctx) -> None:
    repo = ctx.repo
    ctx.rule("R8.1", "every public/special method name callable on an immutable variant, resolved in that class's MRO, is a rejector (raises TypeError on every path, mutates nothing first) or reaches no primitive mutation of the underlying storage")
    ctx.rule("R8.2", "in Headers / HeaderSet, a comparison (== != in not-in) with one operand lower-cased has the other operand lower-cased too")
    ctx.rule("R8.3", "every HeaderSet method that mutates _headers mutates _set and vice versa")
    ctx.rule("R8.4", "per-key lists stored, copied or returned by MultiDict / CombinedMultiDict are fresh (slice, list(), literal, comprehension)")
    ctx.rule("R8.5", "EnvironHeaders assigns self.environ only in __init__, assigns nothing else, and its read methods read self.environ")
    ctx.rule("R8.6", "hash material of an immutable multi dict whose equality is order-insensitive does not include positions")

    # ---------------- R8.1 -------------------------------------------
    classes = _immutable_classes(ctx)
    ctx.floor("R8.1", "immutable classes", len(classes), 12)
    n_names = 0
    for c in classes:
        cl = Closure(repo, c)
        for name in sorted(callable_names(repo, c)):
            if name in EXEMPT_ROOTS:
                continue
            hits = cl.reach(name)
            n_names += 1
            owner, what = repo.lookup(c, name)
            where = what if isinstance(what, FuncInfo) else None
            if not hits:
                if isinstance(what, FuncInfo):
                    ctx.saw(what)
                ctx.ob("R8.1", f"{c.name}.{name}", True, f"resolves to {owner.name if owner else '?'}.{name}: no primitive mutation reachable", where or c.fq, None, f"{c.name}.{name}")
                continue
            path, site = hits[0]
            loc_fi = site.func or where
            ctx.ob(
                "R8.1",
                f"{c.name}.{name}",
                False,
                f"mutation reachable on an immutable object: {' -> '.join(path)} -> {site.desc}" + (f" ({len(hits)} site(s))" if len(hits) > 1 else ""),
                loc_fi or c.fq,
                site.node,
                f"{c.name}.{name} reaches {site.desc}",
            )
    ctx.floor("R8.1", "method names examined", n_names, 380)
    # rejectors really are rejectors: every mixin method
    nrej = 0
    for c in repo.all_classes():
        if c.name.startswith("Immutable") and c.name.endswith("Mixin"):
            for name, fi in c.methods.items():
                if name in EXEMPT_ROOTS or name.startswith("_") and not name.startswith("__") or name in ("__hash__", "copy", "__copy__"):
                    continue
                ok, why = is_rejector(repo, fi)
                nrej += 1
                ctx.ob("R8.1", f"{c.name}.{name} rejects", ok, why, fi, fi.node, f"rejector {c.name}.{name}")
    ctx.floor("R8.1", "mixin rejectors", nrej, 39)

    # ---------------- R8.2 -------------------------------------------
    ncmp = 0
    for cfq in CI_CLASSES:
        c = repo.cls(cfq)
        for name, fi in c.methods.items():
            ncmp += _casefold_rule(ctx, fi)
    # subclasses overriding key comparison (EnvironHeaders has its own normalisation: upper/replace) are handled by R8.5
    ctx.floor("R8.2", "case-folded comparisons", ncmp, 9)

    # ---------------- R8.3 -------------------------------------------
    hs = repo.cls("datastructures.structures.HeaderSet")
    cl = Closure(repo, hs)
    npair = 0
    for name, fi in hs.methods.items():
        if name == "__init__":
            continue
        sites = cl.prim_sites(fi)
        a = [s for s in sites if "_headers" in s.desc]
        b = [s for s in sites if "_set" in s.desc]
        if a or b:
            npair += 1
            ctx.ob("R8.3", f"HeaderSet.{name} mutates both structures", bool(a) and bool(b), f"_headers: {[s.desc for s in a]}; _set: {[s.desc for s in b]}", fi, fi.node, f"HeaderSet.{name} pairing")
    ctx.floor("R8.3", "HeaderSet mutating methods", npair, 5)
    ctx.floor("R8.3", "HeaderSet list growth sites", headerset_insertion_rule(ctx, "R8.3"), 1)
    ctx.floor("R8.3", "HeaderSet methods that drop and add a key", headerset_order_rule(ctx, "R8.3"), 1)
    # members added to _set are lower-cased, constructor builds _set from _headers lower-cased
    for name, fi in hs.methods.items():
        for call in astq.calls(fi.node):
            if isinstance(call.func, ast.Attribute) and call.func.attr in ("add", "remove", "discard") and astq.is_self_attr(call.func.value, "_set"):
                arg = call.args[0]
                low = _is_lowered(arg, fi, cfg_of(fi), ReachingDefs(cfg_of(fi), fi.params))
                ctx.ob("R8.3", f"HeaderSet.{name}: _set.{call.func.attr} gets a lower-cased member", low, norm(call), fi, call, norm(call))

    # ---------------- R8.4 -------------------------------------------
    _freshness(ctx)

    # ---------------- R8.5 -------------------------------------------
    eh = repo.cls("datastructures.headers.EnvironHeaders")
    stores = []
    for name, fi in eh.methods.items():
        for n in walk_no_nested(fi.node):
            if isinstance(n, (ast.Assign, ast.AugAssign, ast.AnnAssign)):
                tg = n.targets if isinstance(n, ast.Assign) else [n.target]
                for t_ in tg:
                    for e in ast.walk(t_):
                        if isinstance(e, ast.Attribute) and isinstance(e.value, ast.Name) and e.value.id == "self" and isinstance(e.ctx, ast.Store):
                            stores.append((name, e.attr, fi, n))
    only_init = all(m == "__init__" and a == "environ" for m, a, _, _ in stores)
    ctx.ob("R8.5", "EnvironHeaders stores only self.environ, only in __init__", only_init and len(stores) == 1, f"attribute stores: {[(m, a) for m, a, _, _ in stores]}", eh.methods["__init__"], eh.node, "environ-only state")
    nread = 0
    for name in ("__getitem__", "_get_key", "__len__", "__iter__", "__eq__"):
        fi = eh.methods.get(name)
        if fi is None:
            continue
        reads = any(astq.is_self_attr(n, "environ") for n in ast.walk(fi.node)) or any(isinstance(g, ast.comprehension) and astq.is_name(g.iter, "self") for g in ast.walk(fi.node)) or any(isinstance(c_.func, ast.Attribute) and isinstance(c_.func.value, ast.Name) and c_.func.value.id == "self" and c_.func.attr in ("_get_key", "__iter__") for c_ in astq.calls(fi.node)) or any(isinstance(n, ast.Call) and dotted(n.func) in ("iter", "list") and n.args and astq.is_name(n.args[0], "self") for n in ast.walk(fi.node))
        nread += 1
        ctx.ob("R8.5", f"EnvironHeaders.{name} reads the environ", reads, "uses self.environ (directly or through _get_key / iteration)", fi, fi.node, f"EnvironHeaders.{name} reads environ")
    ctx.floor("R8.5", "read methods", nread, 4)
    # the inherited readers that would touch Headers._list must be overridden: every Headers method that reads self._list directly and is not a rejector on EnvironHeaders
    hd = repo.cls("datastructures.headers.Headers")
    leaks = []
    for name in sorted(callable_names(repo, eh)):
        owner, what = repo.lookup(eh, name)
        if isinstance(what, FuncInfo) and owner is hd:
            if any(astq.is_self_attr(n, "_list") for n in walk_no_nested(what.node)):
                leaks.append(name)
    allowed = {"__init__"}
    ecl = Closure(repo, eh)
    for nm in leaks:
        if nm in allowed or nm in EXEMPT_ROOTS or ecl.reach(nm):
            continue  # mutating ones are R8.1's business
        fi = hd.methods[nm]
        ctx.ob("R8.5", f"EnvironHeaders.{nm} does not read the unused private list", False, f"inherited Headers.{nm} touches self._list, which EnvironHeaders never fills", fi, fi.node, f"EnvironHeaders inherits list reader {nm}")

    # ---------------- R8.6 -------------------------------------------
    n86 = 0
    for c in classes:
        o, h = repo.lookup(c, "_iter_hashitems")
        if not isinstance(h, FuncInfo):
            continue
        eo, ew = repo.lookup(c, "__eq__")
        order_free_eq = isinstance(eo, BuiltinClass)
        positional = any(dotted(cl_.func) in ("enumerate", "zip", "range") for cl_ in astq.calls(h.node))
        n86 += 1
        ok = not (order_free_eq and positional)
        ctx.ob("R8.6", f"{c.name} hash material vs equality", ok, f"__eq__ from {eo.name if eo else '?'} ({'order-insensitive' if order_free_eq else 'own'}), _iter_hashitems from {o.name} {'uses positions' if positional else 'position-free'}", h, h.node, f"{c.name} hash material")
        ho, hh = repo.lookup(c, "__hash__")
        if isinstance(hh, FuncInfo):
            uses = any(isinstance(cl_.func, ast.Attribute) and cl_.func.attr == "_iter_hashitems" for cl_ in astq.calls(hh.node)) and any(dotted(cl_.func) == "frozenset" for cl_ in astq.calls(hh.node))
            ctx.ob("R8.6", f"{c.name}.__hash__ hashes the frozenset of its hash items", uses, f"__hash__ from {ho.name}", hh, hh.node, f"{c.name} hash shape")
    ctx.floor("R8.6", "classes with hash items", n86, 5)


# ---------------------------------------------------------------------


def _is_lowered(e: ast.AST, fi: FuncInfo, cfg, rd: ReachingDefs, depth: int = 0) -> bool:
    if isinstance(e, ast.Call) and isinstance(e.func, ast.Attribute) and e.func.attr in ("lower", "casefold") and not e.args:
        return True
    if isinstance(e, ast.Name) and depth < 4:
        g = bound_in_enclosing_comp(e, fi.node)
        if g is not None:
            return False
        node = cfg.node_of(e)
        if node is None:
            return False
        defs = rd.reaching(node, e.id)
        if not defs:
            return False
        for d in defs:
            if d.kind not in ("assign", "walrus") or d.value is None or d.index is not None:
                return False
            if not _is_lowered(d.value, fi, cfg, rd, depth + 1):
                return False
        return True
    if isinstance(e, ast.Constant) and isinstance(e.value, str):
        return e.value == e.value.lower()
    return False


def _mentions_lowered(e: ast.AST, fi: FuncInfo, cfg, rd) -> bool:
    if _is_lowered(e, fi, cfg, rd):
        return True
    if isinstance(e, ast.Attribute) and isinstance(e.value, ast.Name) and e.value.id == "self" and e.attr in LOWERED_SETS:
        return True
    return False


def _casefold_rule(ctx: Ctx, fi: FuncInfo) -> int:
    cfg = cfg_of(fi)
    rd = ReachingDefs(cfg, fi.params)
    n = 0
    for cmp_ in [x for x in ast.walk(fi.node) if isinstance(x, ast.Compare)]:
        if len(cmp_.ops) != 1 or not isinstance(cmp_.ops[0], (ast.Eq, ast.NotEq, ast.In, ast.NotIn)):
            continue
        a, b = cmp_.left, cmp_.comparators[0]
        la, lb = _mentions_lowered(a, fi, cfg, rd), _mentions_lowered(b, fi, cfg, rd)
        if not (la or lb):
            continue
        if isinstance(a, ast.Constant) or isinstance(b, ast.Constant):
            continue
        n += 1
        ctx.ob(
            "R8.2",
            f"{fi.qualname}: `{norm(cmp_)}`",
            la and lb,
            f"left {'lower-cased' if la else 'RAW'}, right {'lower-cased' if lb else 'RAW'}",
            fi,
            cmp_,
            norm(cmp_),
        )
    return n


def _fresh(e: ast.AST | None, fi: FuncInfo, cfg, rd: ReachingDefs, depth: int = 0) -> bool:
    if e is None:
        return False
    if isinstance(e, (ast.List, ast.ListComp)):
        return True
    if isinstance(e, ast.Call):
        d = dotted(e.func)
        if d in ("list", "sorted"):
            return True
        if isinstance(e.func, ast.Attribute) and e.func.attr == "copy" and not e.args:
            return True
    if isinstance(e, ast.Subscript) and isinstance(e.slice, ast.Slice):
        return True
    if isinstance(e, ast.Name) and depth < 4:
        node = cfg.node_of(e)
        if node is None:
            return False
        defs = rd.reaching(node, e.id)
        if not defs:
            return False
        return all(d.kind == "assign" and d.index is None and _fresh(d.value, fi, cfg, rd, depth + 1) for d in defs)
    return False


def _freshness(ctx: Ctx) -> None:
    repo = ctx.repo
    md = repo.cls("datastructures.structures.MultiDict")
    cmd = repo.cls("datastructures.structures.CombinedMultiDict")
    n = 0

    def rdof(fi):
        cfg = cfg_of(fi)
        return cfg, ReachingDefs(cfg, fi.params)

    # (1) stores of a per-key list through dict.__setitem__
    for name in ("__setitem__", "setlist", "setlistdefault"):
        fi = md.methods.get(name)
        if fi is None:
            raise AnalysisError(f"MultiDict.{name} missing")
        cfg, rd = rdof(fi)
        found = 0
        for c in astq.method_calls(fi.node, "__setitem__"):
            if len(c.args) == 2:
                found += 1
                n += 1
                ctx.ob("R8.4", f"MultiDict.{name} stores a fresh list", _fresh(c.args[1], fi, cfg, rd), norm(c), fi, c, norm(c))
        if not found:
            ctx.ob("R8.4", f"MultiDict.{name} stores through dict.__setitem__", False, "no super().__setitem__(key, <list>) found", fi, fi.node, f"{name} store")
    # (2) setdefault(key, []) before append/extend
    for cls, name in ((md, "add"), (md, "__init__"), (cmd, "lists")):
        fi = cls.methods[name]
        for c in astq.method_calls(fi.node, "setdefault"):
            if len(c.args) == 2:
                n += 1
                ctx.ob("R8.4", f"{cls.name}.{name}: new key gets a fresh list", isinstance(c.args[1], ast.List) and not c.args[1].elts, norm(c), fi, c, norm(c))
    # (3) getlist returns
    for cls in (md, cmd):
        fi = cls.methods["getlist"]
        cfg, rd = rdof(fi)
        for r in astq.returns_of(fi.node):
            n += 1
            ctx.ob("R8.4", f"{cls.name}.getlist returns a fresh list", _fresh(r.value, fi, cfg, rd), norm(r), fi, r, norm(r))
    # (4) lists yields
    fi = md.methods["lists"]
    cfg, rd = rdof(fi)
    ys = [y for y in ast.walk(fi.node) if isinstance(y, ast.Yield)]
    for y in ys:
        ok = isinstance(y.value, ast.Tuple) and len(y.value.elts) == 2 and _fresh(y.value.elts[1], fi, cfg, rd)
        n += 1
        ctx.ob("R8.4", "MultiDict.lists yields fresh lists", ok, norm(y), fi, y, norm(y))
    if not ys:
        ctx.ob("R8.4", "MultiDict.lists yields fresh lists", False, "no yield found", fi, fi.node, "lists yield")
    # (5) constructor copies
    fi = md.methods["__init__"]
    cfg, rd = rdof(fi)
    gens = [g for g in ast.walk(fi.node) if isinstance(g, ast.GeneratorExp)]
    for g in gens:
        ok = isinstance(g.elt, ast.Tuple) and len(g.elt.elts) == 2 and _fresh(g.elt.elts[1], fi, cfg, rd)
        n += 1
        ctx.ob("R8.4", "MultiDict(MultiDict) copies each list", ok, norm(g), fi, g, norm(g))
    for st in walk_no_nested(fi.node):
        if isinstance(st, ast.Assign) and isinstance(st.targets[0], ast.Subscript) and astq.is_name(st.targets[0].value, "tmp"):
            n += 1
            ctx.ob("R8.4", "MultiDict(mapping) stores fresh lists", _fresh(st.value, fi, cfg, rd), norm(st), fi, st, norm(st))
    # (6) copies go through the constructor / to_dict(flat=False) -> lists
    for name, must in (("copy", "self.__class__(self)"), ("to_dict", "dict(self.lists())"), ("deepcopy", "deepcopy(")):
        fi = md.methods[name]
        n += 1
        ctx.ob("R8.4", f"MultiDict.{name} copies through the copying constructor / lists()", any(must in norm(r) for r in astq.returns_of(fi.node)), f"returns {[norm(r) for r in astq.returns_of(fi.node)]}", fi, fi.node, f"{name} shape")
    fi = cmd.methods["copy"]
    n += 1
    ctx.ob("R8.4", "CombinedMultiDict.copy builds a MultiDict from itself", any("MultiDict(self)" in norm(r) for r in astq.returns_of(fi.node)), "", fi, fi.node, "combined copy")
    ctx.floor("R8.4", "freshness sites", n, 14)
