"""C08 - multi-value containers vs. their documented model (structural clauses)."""

from __future__ import annotations

import ast

from .. import astq
from ..classflow import EXEMPT_ROOTS, Closure, callable_names
from ..loader import AnalysisError, BuiltinClass, ClassInfo, FuncInfo, dotted, norm
from ..report import Ctx
from . import _c16_helpers as H
from ._c08_helpers import combined_observers_rule, desugar_suppress, combined_read_through_rule, get_never_raises_rule, headers_first_match_rule, pickle_state_rule, removal_loop_rule
from ._shared import headerset_insertion_rule, headerset_order_rule, headerset_roles

LEVEL_TEXT = (
    "Static decision of structural clauses of C08 on /repo's current source: (R8.1) on every class with an Immutable*Mixin "
    "in its MRO, no public or special method name resolved in that MRO reaches a primitive mutation of the underlying "
    "storage (builtin list/dict mutators, stores into the object's attributes) except through a method that raises "
    "TypeError on every path (helpers followed) and changes nothing first - exhaustive over typeshed's mutator tables "
    "and the class's own methods. The remaining clauses are decided by path-wise symbolic execution over the inlined "
    "call graph (private methods, module-level helpers, super() calls followed; values through locals, tuple "
    "assignments, conditional expressions and comprehensions resolved to terms): (R8.2) in the case-insensitive "
    "containers every evaluated comparison with a lower-cased operand has a lower-cased operand on the other side; "
    "(R8.3) every public HeaderSet method changes list and set together, grows the list one element at a time under "
    "that element's own membership test, drops before it adds, and only hands lower-cased members to the set (the two "
    "attributes are identified by what the constructor stores); (R8.4) per-key lists stored, copied or returned by "
    "MultiDict are objects created on the spot except the documented pass-through methods; (R8.5) the environ-backed "
    "view keeps no state of its own, its methods read the environ, and no inherited reader touches the unused private "
    "list; (R8.6) hash material of immutable multi dicts is no finer than their equality and is a hashed frozenset of "
    "the hash items (also when memoised); (R8.7) read-through of the combined multi dict: every method of the model's read "
    "interface (item get, get, getlist, keys, items, values, lists, listvalues, to_dict, in, len, iteration), resolved in "
    "the combined class's MRO, reads the list of wrapped dicts the constructor stored; every explicit loop over that "
    "list iterates the whole list in order; and no path leaves such a loop inside an iteration (break / return / raise "
    "in the body, helpers inlined) with an outcome the method also produces after a complete scan - the default, the "
    "KeyError, False, the accumulated result are given only when every wrapped dict has been consulted, an early exit "
    "carries a value found in the current dict; (R8.8) in-place removal loops, decided on the CFG of every loop of the "
    "container modules (werkzeug.datastructures.*): a for loop that walks a list lazily (the list, iter / enumerate / zip "
    "of it, range(len(it)); local aliases resolved) and removes an element from that list in its body (del l[i] / "
    "l.pop(i) / l.remove(x), one level of self.helper(...) followed) has no path from the removal back to the loop head "
    "unless it walks backwards, or walks a copy and does not delete at its own position; a while loop that deletes at an "
    "index variable of a list it reads at that variable (or whose length it tests) advances that variable on no path from "
    "the deletion back to the loop test (net change of the index along each path, a step back compensating a step "
    "forward); (R8.9) get() of every container class, executed as the class's MRO resolves it with the class's own item "
    "access, membership test and private helpers inlined (so a base-class get() is judged once per subclass against that "
    "subclass's __getitem__, which for the multi dicts also raises for a key that is present without values), lets no "
    "explicitly raised KeyError / BadRequestKeyError / LookupError / IndexError escape on any path - also when the "
    "exception object is chosen first and raised later; a raising path that repeats, with the same arguments and no change "
    "of the object in between, a call that had returned normally earlier on the path (membership test that ran the lookup, "
    "then the lookup) is infeasible and not counted; (R8.10) for every class with MultiDict in its MRO the reduction "
    "pickle uses (__reduce_ex__ / __reduce__ as the MRO resolves it, else __getstate__ with __setstate__; values through "
    "locals, private and module-level helpers, other methods of the class, super() and generator helpers followed; a "
    "state that a loop fills element by element is judged by a def/use closure on the AST: which reads of the object "
    "reach the returned value through bindings, loop targets and container growth, all pairs stored per key into a dict "
    "counting as the first-value view again) builds its state from a read that carries every value of every key - "
    "items(multi=True) not collapsed by dict(), lists() / listvalues() / getlist() / to_dict(flat=False), the raw dict of "
    "lists (dict.items(self) ...), a storage attribute, a copy of the multi dict - and not only from the first-value view "
    "(dict(self), items(), values(), to_dict(), self[key]). Two clauses are decided by constant propagation of concrete values "
    "through the syntax trees of the methods (DESIGN 9.2; nothing of werkzeug is imported or run; calls of other methods / helpers of "
    "the package, generator functions, explicit raises caught by class, with contextlib.suppress, match on builtin types followed), "
    "for the states of a fixed table and for nothing else: (R8.11) len(), iteration and keys() of the combined multi dict, as "
    "its MRO resolves them, on 7 lists of wrapped dicts (none, empty ones, disjoint keys, a key shared by two / by all wrapped dicts, "
    "the same key in another letter case; the wrapped dicts are the documented MultiDict model, not werkzeug's code) give the "
    "number of distinct keys / each distinct key exactly once - so the sibling observers of the key set agree with each other; "
    "(R8.12) Headers' keyed read accessors h[key], get(key), get(key, default), pop(key), pop(key, default) on 4 pair lists "
    "(a key repeated in several letter cases with different values, a single pair, the empty list; 10 (list, key) cases per "
    "form) give the value of the FIRST pair in list order whose key equals the given key case-insensitively, the default / "
    "None / a KeyError for a missing key, leave the list unchanged (get, item access) and pop leaves exactly the other "
    "pairs in order. In the container modules `with contextlib.suppress(E): body` is read by every clause as try: body / except E: pass. "
    "It decides the other clauses on all paths, not conformance of every read "
    "with the abstract model after every history; generator bodies of callees and implicit exceptions are not "
    "followed; for R8.7 a scan split into parts (first, *rest = self.dicts; self.dicts[0] + self.dicts[1:]; two halves; the parts joined "
    "again) is judged per function on the intervals of list positions the parts stand for, in the order they are used: chaining from "
    "the first to the last position without gap / overlap / inversion = the full ordered scan, otherwise a violation; bounds are compared "
    "as text, a part of a part, a part handed to a helper and a single dict read by position after a scanned part (*init, last) end in "
    "ANALYSIS-ERROR; an iterator advanced with next() before the loop counts as the whole scan; "
    "for R8.7 a scan spelled as a comprehension / generator expression / next() / any() is complete by "
    "construction and what is then done with its result (e.g. consulting only the first dict that has the key) is not "
    "decided, nor is which value of a wrapped dict is read or whether the reads of one wrapped dict are complete (the list "
    "handed whole to a call, f(*self.dicts), counts as a read of every wrapped dict unless it is sliced / reordered first), "
    "and a walk of the list by index (while i < len(self.dicts)) is not judged (exit 2); for R8.8 "
    "removal deeper than one helper level, inside comprehensions or by recursion is not seen, and whether two matching "
    "elements can ever be adjacent is not considered (the walk must be right for every list); for R8.9 exceptions raised "
    "implicitly by builtins or by objects of unknown class (the wrapped dicts of the combined view, the conversion "
    "callable) are not followed; for R8.10 whether the constructor / __setstate__ rebuilds the object from that state is "
    "not decided, nor is the pickling of Headers / HeaderSet (default reduction of their attributes); a path whose state "
    "does not mention the object at all is accepted when another path of the reduction reads it completely (which objects "
    "take the constant path is not decided), and in the flow-insensitive mode one complete read reaching the state suffices; "
    "for R8.11 / R8.12 nothing is decided outside the table (longer lists, other key alphabets, non-string keys, get() with a "
    "type conversion, the int / slice / None forms of item access and pop, setdefault and the other accessors, EnvironHeaders, "
    "the order in which the combined view hands out keys, its other readers - values, items, lists, getlist agree with the model only "
    "as far as R8.7 goes), and a method whose evaluation leaves the modelled subset of Python (super(), with statements other than "
    "suppress, classes other than the modelled instance, a generator that raises, isinstance against package classes) ends in "
    "ANALYSIS-ERROR, never in a verdict; a disagreement computed on one state is reported even if another state could not be evaluated."
)
TRUSTED = ["CPython's own str / list / dict / set / tuple operations and pure builtins applied to the table's concrete values (R8.11 / R8.12; the evaluator is _c08_helpers.Concrete / ModelEval)", "CPython ast", "typeshed method tables of list/dict/MutableSet/MutableMapping/MutableSequence (bundled with the repo's mypy, read as text)", "Python MRO (C3) and super() semantics", "builtin container semantics: dict.pop / set.discard / remove change the container iff the key is present, setdefault iff it is absent"]
ASSUMPTIONS = ["private helpers (single underscore) are reachable only through public methods of the same class", "constructors and the pickle/copy protocol are exempt from R8.1 (they initialise a new object)", "R8.7: the list of wrapped dicts holds mapping objects (never None) and a private sentinel object of the package (_missing) is never a value stored in a wrapped dict", "R8.8: a container may hold two adjacent elements that match a removal condition (no uniqueness invariant is assumed for a list walked by a removal loop)", "R8.11: a wrapped dict behaves like the documented MultiDict (a dict of non-empty value lists whose dict protocol - iteration, len, in, keys() - is that of its keys; item access gives the first value)", "R8.12: the attribute Headers.__init__() sets to an empty list when given nothing is the pair list all accessors work on", "R8.10: the documented reader names of the multi dict model (items(multi=...), lists, listvalues, getlist, to_dict(flat=...), copy / deepcopy) mean what the model says"]

CI_CLASSES = ["datastructures.headers.Headers", "datastructures.structures.HeaderSet"]
LOWERED_SETS = {"_set"}  # HeaderSet._set holds lower-cased members (established by R8.3's pairing + __init__)


def _immutable_classes(ctx: Ctx) -> list[ClassInfo]:
    out = []
    for c in ctx.repo.all_classes():
        mro = ctx.repo.mro(c)
        if any(k.name.startswith("Immutable") and k.name.endswith("Mixin") for k in mro[1:]):
            out.append(c)
    return sorted(out, key=lambda c: c.fq)


def run(ctx: Ctx) -> None:
    repo = ctx.repo
    desugar_suppress(repo)  # with contextlib.suppress(E): body  ==  try: body / except E: pass (the CFG has no handler edge for a with)
    ctx.rule("R8.1", "every public/special method name callable on an immutable variant, resolved in that class's MRO, is a rejector (raises TypeError on every path, mutates nothing first) or reaches no primitive mutation of the underlying storage")
    ctx.rule("R8.2", "in Headers / HeaderSet, a comparison (== != in not-in) with one operand lower-cased has the other operand lower-cased too")
    ctx.rule("R8.3", "every HeaderSet method that mutates _headers mutates _set and vice versa")
    ctx.rule("R8.4", "per-key lists stored, copied or returned by MultiDict / CombinedMultiDict are fresh (slice, list(), literal, comprehension)")
    ctx.rule("R8.5", "EnvironHeaders assigns self.environ only in __init__, assigns nothing else, and its read methods read self.environ")
    ctx.rule("R8.6", "hash material of an immutable multi dict whose equality is order-insensitive does not include positions")
    ctx.rule("R8.7", "every read method of CombinedMultiDict reads the wrapped dicts, scans the whole list in order, and abandons a scan only with a value found in the current dict (the not-found / accumulated outcome needs a complete scan)")
    ctx.rule("R8.8", "a loop of the container modules that removes an element from the list it walks does not advance past the element that moves into the hole (it leaves the loop, walks backwards, walks a copy and removes by value, or does not advance the index on the deleting path)")
    ctx.rule("R8.9", "get() of every container class, resolved in the class's MRO with the class's own item access inlined, lets no explicitly raised lookup error escape: a key without value gives the default")
    ctx.rule("R8.11", "len(), iteration and keys() of the combined multi dict, evaluated on a table of wrapped-dict states, give the distinct keys of the wrapped dicts (their number / each once): the sibling observers of the key set agree")
    ctx.rule("R8.12", "Headers' keyed read accessors (h[key], get, pop), evaluated on a table of pair lists with repeated keys, answer with the first matching pair in list order, the default / KeyError for a missing key, and pop leaves exactly the other pairs")
    ctx.rule("R8.10", "the pickle reduction of every class with the multi dict in its MRO (the __reduce_ex__ the MRO resolves, else __getstate__) builds its state from a read that carries every value of every key, not from the first-value view")

    # ---------------- R8.1 -------------------------------------------
    classes = _immutable_classes(ctx)
    ctx.floor("R8.1", "immutable classes", len(classes), 12)
    n_names = 0
    for c in classes:
        cl = Closure(repo, c)
        for name in sorted(callable_names(repo, c)):
            if name in EXEMPT_ROOTS:
                continue
            hits = cl.reach(name)
            n_names += 1
            owner, what = repo.lookup(c, name)
            where = what if isinstance(what, FuncInfo) else None
            if not hits:
                if isinstance(what, FuncInfo):
                    ctx.saw(what)
                ctx.ob("R8.1", f"{c.name}.{name}", True, f"resolves to {owner.name if owner else '?'}.{name}: no primitive mutation reachable", where or c.fq, None, f"{c.name}.{name}")
                continue
            path, site = hits[0]
            loc_fi = site.func or where
            ctx.ob(
                "R8.1",
                f"{c.name}.{name}",
                False,
                f"mutation reachable on an immutable object: {' -> '.join(path)} -> {site.desc}" + (f" ({len(hits)} site(s))" if len(hits) > 1 else ""),
                loc_fi or c.fq,
                site.node,
                f"{c.name}.{name} reaches {site.desc}",
            )
    ctx.floor("R8.1", "method names examined", n_names, 380)
    # rejectors really are rejectors: every mixin method
    nrej = 0
    for c in repo.all_classes():
        if c.name.startswith("Immutable") and c.name.endswith("Mixin"):
            for name, fi in c.methods.items():
                if name in EXEMPT_ROOTS or name.startswith("_") and not name.startswith("__") or name in ("__hash__", "copy", "__copy__"):
                    continue
                ok, why = _rejects(repo, c, fi)
                nrej += 1
                ctx.ob("R8.1", f"{c.name}.{name} rejects", ok, why, fi, fi.node, f"rejector {c.name}.{name}")
    ctx.floor("R8.1", "mixin rejectors", nrej, 39)

    # ---------------- R8.2 -------------------------------------------
    LOWERED_SETS.clear()
    LOWERED_SETS.add(headerset_roles(repo)[1])  # HeaderSet's set attribute holds lower-cased members (R8.3 + constructor)
    ncmp = 0
    for cfq in CI_CLASSES:
        ncmp += _casefold_rule(ctx, repo.cls(cfq))
    # subclasses overriding key comparison (EnvironHeaders has its own normalisation: upper/replace) are handled by R8.5
    ctx.floor("R8.2", "case-folded comparisons", ncmp, 9)

    # ---------------- R8.3 -------------------------------------------
    hs = repo.cls("datastructures.structures.HeaderSet")
    LIST, SET = headerset_roles(repo)
    LOWERED_SETS.clear()
    LOWERED_SETS.add(SET)
    npair = 0
    members: dict[tuple[str, int], dict] = {}

    def on_event(a, ev, st):
        if ev[0] == "mut" and ev[1] in (LIST, SET):
            a = a | {(ev[1], H.norm(ev[-2]))}
        if ev[0] == "op" and ev[1] == SET and ev[3]:
            low = None
            if ev[2] in ("add", "remove", "discard", "__contains__"):
                low = H.is_lowered(ev[3][0])
            elif ev[2] in ("update", "difference_update", "intersection_update", "symmetric_difference_update", "__ior__", "__isub__", "__iand__", "__ixor__"):
                low = H.lowered_elements(ev[3][0], LOWERED_SETS)
            elif ev[2] == "store":
                c = H.const_of(ev[3][0])
                low = (c is not H._NOCONST and not c) or H.lowered_elements(ev[3][0], LOWERED_SETS)
            if low is not None:
                d = members.setdefault((ev[-1].fq if ev[-1] else "", id(ev[-2])), {"fi": ev[-1], "node": ev[-2], "op": ev[2], "ok": True, "arg": ev[3][0]})
                d["ok"] = d["ok"] and low
        return a

    for name, fi in sorted(hs.methods.items()):
        public = not name.startswith("_") or (name.startswith("__") and name.endswith("__"))
        if not public:
            continue  # private helpers are judged inlined into their callers
        ex = H.Exec(repo, hs, on_event=on_event)
        outs = ex.run_function(fi, auto0=frozenset())
        if name == "__init__":
            continue
        touched = set().union(*[o.st.auto for o in outs]) if outs else set()
        a = sorted(d for l, d in touched if l == LIST)
        b = sorted(d for l, d in touched if l == SET)
        if a or b:
            npair += 1
            ctx.ob("R8.3", f"HeaderSet.{name} mutates both structures", bool(a) and bool(b), f"{LIST}: {a}; {SET}: {b}", fi, fi.node, f"HeaderSet.{name} pairing")
    ctx.floor("R8.3", "HeaderSet mutating methods", npair, 5)
    ctx.floor("R8.3", "HeaderSet list growth sites", headerset_insertion_rule(ctx, "R8.3"), 1)
    ctx.floor("R8.3", "HeaderSet methods that drop and add a key", headerset_order_rule(ctx, "R8.3"), 1)
    # members put into / looked up in _set are lower-cased; the constructor builds _set from lower-cased items
    for d in sorted(members.values(), key=lambda d: (d["fi"].fq if d["fi"] else "", getattr(d["node"], "lineno", 0))):
        fi = d["fi"]
        nm = fi.name if fi is not None else "?"
        ctx.ob("R8.3", f"HeaderSet.{nm}: _set.{d['op']} gets a lower-cased member", d["ok"], f"{norm(d['node'])}: argument `{d['arg']}`", fi or hs.fq, d["node"], norm(d["node"]))
    ctx.floor("R8.3", "writes of the lower-case set", len(members), 4)

    # ---------------- R8.4 -------------------------------------------
    _freshness(ctx)

    # ---------------- R8.5 -------------------------------------------
    eh = repo.cls("datastructures.headers.EnvironHeaders")
    hd = repo.cls("datastructures.headers.Headers")
    stores = []
    readers: dict[str, dict] = {}
    for name, fi in sorted(eh.methods.items()):
        evs, outs = _events(repo, eh, fi, ("mut", "store", "read", "compare"))
        for e in evs:
            if e[0] == "mut" and e[-1] is not None and e[-1].cls is eh:
                stores.append((name, e[1], fi, e[-2]))
            elif e[0] == "store" and e[1] == H.SELF and e[-1] is not None and e[-1].cls is eh:
                stores.append((name, e[2], fi, e[-2]))
        direct = any(e[0] == "read" and e[1] == "environ" for e in evs) or any(e[0] == "compare" and ("__self__.environ" in e[2] or "__self__.environ" in e[3]) for e in evs)
        iterates = any(e[0] == "read" and e[1] == "" and e[2] != "__init__" for e in evs) or any(e[0] == "compare" and H.SELF in (e[2], e[3]) for e in evs)
        readers[name] = {"fi": fi, "direct": direct, "iterates": iterates, "returns": any(o.kind == "ret" for o in outs)}
    only_init = all(m == "__init__" and a == "environ" for m, a, _, _ in stores)
    ctx.ob("R8.5", "EnvironHeaders stores only self.environ, only in __init__", only_init and len(stores) == 1, f"attribute stores: {[(m, a) for m, a, _, _ in stores]}", eh.methods["__init__"], eh.node, "environ-only state")
    nread = 0
    iter_reads = readers.get("__iter__", {}).get("direct", False)
    for name, d in sorted(readers.items()):
        if name == "__init__" or not d["returns"]:
            continue  # the constructor, and methods that always raise (copy / |)
        reads = d["direct"] or (d["iterates"] and iter_reads)
        nread += 1
        ctx.ob("R8.5", f"EnvironHeaders.{name} reads the environ", reads, "uses self.environ (directly, through a helper, or by iterating itself)", d["fi"], d["fi"].node, f"EnvironHeaders.{name} reads environ")
    ctx.floor("R8.5", "read methods", nread, 4)
    # the inherited readers that would touch Headers' private list must be overridden: every Headers method that reads
    # it (itself or through the private helpers that EnvironHeaders does not override) and is not a rejector on EnvironHeaders
    lists = {s_.desc.split(".")[1] for nm in ("add", "clear", "set") for _, s_ in Closure(repo, hd).reach(nm, stop_at_rejectors=False) if s_.desc.startswith("self.")}
    if not lists:
        raise AnalysisError("Headers: private list not identified")
    ecl = Closure(repo, eh)
    for nm in sorted(callable_names(repo, eh)):
        owner, what = repo.lookup(eh, nm)
        if not (isinstance(what, FuncInfo) and owner is hd) or nm in EXEMPT_ROOTS or ecl.reach(nm):
            continue  # mutating ones are R8.1's business
        seen: list[tuple] = []
        ex = H.Exec(repo, eh, on_event=lambda a, ev, st, seen=seen: (seen.append(ev) if ev[0] in ("read", "op") and ev[1] in lists else None) or a, inline_public=False)
        ex.run_function(what, auto0=None)
        if seen:
            ctx.ob("R8.5", f"EnvironHeaders.{nm} does not read the unused private list", False, f"inherited Headers.{nm} touches self.{seen[0][1]} (`{norm(seen[0][-2])}`), which EnvironHeaders never fills", what, what.node, f"EnvironHeaders inherits list reader {nm}")

    # ---------------- R8.6 -------------------------------------------
    n86 = 0
    for c in classes:
        o, h = repo.lookup(c, "_iter_hashitems")
        if not isinstance(h, FuncInfo):
            continue
        eo, ew = repo.lookup(c, "__eq__")
        order_free_eq = isinstance(eo, BuiltinClass)
        entered: list[FuncInfo] = [h]
        ex = H.Exec(repo, c, on_event=lambda a, ev, st, entered=entered: (entered.append(ev[-1]) if ev[0] == "enter" and ev[-1] is not None and ev[-1].name.startswith("_") else None) or a)
        houts = ex.run_function(h, auto0=None)
        texts = [o_.value for o_ in houts if o_.kind == "ret"]
        positional = any(dotted(cl_.func) in ("enumerate", "zip", "range") for f_ in entered for cl_ in astq.calls(f_.node)) or any(
            isinstance(x, ast.Call) and dotted(x.func) in ("enumerate", "zip", "range") for t_ in texts for x in ast.walk(H.P(t_))
        )
        n86 += 1
        ok = not (order_free_eq and positional)
        ctx.ob("R8.6", f"{c.name} hash material vs equality", ok, f"__eq__ from {eo.name if eo else '?'} ({'order-insensitive' if order_free_eq else 'own'}), _iter_hashitems from {o.name} {'uses positions' if positional else 'position-free'}", h, h.node, f"{c.name} hash material")
        ho, hh = repo.lookup(c, "__hash__")
        if isinstance(hh, FuncInfo):
            ent2: list[str] = []
            cached: list[str] = []

            def on_hash(a, ev, st, ent2=ent2, cached=cached):
                if ev[0] == "enter":
                    ent2.append(ev[1])
                elif ev[0] == "store" and ev[1] == H.SELF and ev[2] in H.CACHE_ATTRS:
                    cached.append(ev[3])  # the value memoised for later calls is hash material too
                return a

            ex = H.Exec(repo, c, on_event=on_hash)
            vals = sorted({o_.value for o_ in ex.run_function(hh, auto0=None) if o_.kind == "ret"} | set(cached))

            def hashed_set(v: str) -> bool:
                n_ = H.P(v)
                return isinstance(n_, ast.Call) and dotted(n_.func) == "hash" and len(n_.args) == 1 and isinstance(n_.args[0], ast.Call) and dotted(n_.args[0].func) in ("frozenset", "set")

            computed = [v for v in vals if H.loc_of(v) is None]
            uses = "_iter_hashitems" in ent2 and bool(computed) and all(hashed_set(v) for v in computed)
            ctx.ob("R8.6", f"{c.name}.__hash__ hashes the frozenset of its hash items", uses, f"__hash__ from {ho.name} returns {vals}", hh, hh.node, f"{c.name} hash shape")
    ctx.floor("R8.6", "classes with hash items", n86, 5)

    # ---------------- R8.7 -------------------------------------------
    nread, nloops = combined_read_through_rule(ctx, "R8.7")
    ctx.floor("R8.7", "read methods of the combined view", nread, 12)
    ctx.floor("R8.7", "explicit scans of the wrapped dicts", nloops, 1)

    # ---------------- R8.8 -------------------------------------------
    nsites, npairs = removal_loop_rule(ctx, "R8.8")
    ctx.floor("R8.8", "element removal sites (del x[i] / x.pop(i) / x.remove(v)) seen in the container modules", nsites, 6)

    # ---------------- R8.9 -------------------------------------------
    nget, nget_pkg = get_never_raises_rule(ctx, "R8.9")
    ctx.floor("R8.9", "container classes whose get() is a package method", nget, 6)
    ctx.floor("R8.9", "... of which the item access is a package method that can raise", nget_pkg, 4)

    # ---------------- R8.10 ------------------------------------------
    ctx.floor("R8.10", "classes with the multi dict in their MRO", pickle_state_rule(ctx, "R8.10"), 4)

    # ---------------- R8.11 / R8.12 ----------------------------------
    ctx.floor("R8.11", "(observer, state) evaluations of the combined view", combined_observers_rule(ctx, "R8.11"), 21)
    ctx.floor("R8.12", "(accessor form, state, key) evaluations of Headers", headers_first_match_rule(ctx, "R8.12"), 50)


# ---------------------------------------------------------------------


def _rejects(repo, c: ClassInfo, fi: FuncInfo) -> tuple[bool, str]:
    """every path of the method (helpers followed) ends by raising TypeError, and nothing is changed before."""
    changed: list[tuple] = []
    ex = H.Exec(repo, c, on_event=lambda a, ev, st: (changed.append(ev) if ev[0] == "mut" else None) or a)
    outs = ex.run_function(fi, auto0=None)
    if any(o.kind == "ret" for o in outs):
        return False, "has a normally-completing path"
    kinds = sorted({o.value for o in outs})
    if changed:
        return False, f"changes the object before raising: {norm(changed[0][-2])}"
    if kinds == ["TypeError"]:
        return True, "raises TypeError on every path"
    return False, f"raises {kinds}"


STR_METHODS_RAW = {"upper", "title", "strip", "lstrip", "rstrip", "capitalize", "swapcase", "replace", "format", "join", "decode", "encode"}


def _caseness(term: str, collection: bool) -> str:
    """'lowered' | 'raw' | 'unknown' for an operand of a comparison."""
    if collection:
        if H.lowered_elements(term, LOWERED_SETS):
            return "lowered"
    elif H.is_lowered(term):
        return "lowered"
    n = H.P(term)
    if isinstance(n, ast.Call):
        if isinstance(n.func, ast.Attribute) and n.func.attr in STR_METHODS_RAW | H.PURE_METHODS:
            return "raw"
        d = dotted(n.func)
        if d in ("str", "repr", "list", "tuple", "set", "frozenset", "sorted", "iter", "map", "dict", "enumerate", "zip", "reversed"):
            return "raw"
        return "unknown"
    return "raw"


def _casefold_rule(ctx: Ctx, c: ClassInfo) -> int:
    """every evaluated comparison (== != in not-in) of the class's methods - private helpers and module-level helpers
    inlined into the public methods that call them, comprehension filters included - that has a lower-cased operand
    has a lower-cased operand on the other side too (operands are the executor's terms, so a key lower-cased in
    the caller, through a local, a tuple assignment or a conditional expression is seen as lower-cased)."""
    repo = ctx.repo
    found: dict[tuple[str, int], dict] = {}

    def on_event(a, ev, st):
        if ev[0] != "compare" or ev[1] not in ("Eq", "NotEq", "In", "NotIn"):
            return a
        node, fi = ev[-2], ev[-1]
        if isinstance(node, ast.Compare) and (isinstance(node.left, ast.Constant) or isinstance(node.comparators[0], ast.Constant)):
            return a
        coll = ev[1] in ("In", "NotIn")
        ka, kb = _caseness(ev[2], False), _caseness(ev[3], coll)
        if H.const_of(ev[2]) is not H._NOCONST or H.const_of(ev[3]) is not H._NOCONST:
            return a
        if ka != "lowered" and kb != "lowered":
            return a
        d = found.setdefault((fi.fq if fi else "", id(node)), {"fi": fi, "node": node, "ok": True, "sides": (ka, kb), "terms": (ev[2], ev[3])})
        if not (ka == "lowered" and kb == "lowered"):
            d["ok"] = False
            d["sides"] = (ka, kb)
            d["terms"] = (ev[2], ev[3])
        return a

    for name, fi in sorted(c.methods.items()):
        public = not name.startswith("_") or (name.startswith("__") and name.endswith("__"))
        if not public and _called_in_class(c, name):
            continue
        ex = H.Exec(repo, c, on_event=on_event, inline_public=False)
        ex.run_function(fi, auto0=None)
    for d in sorted(found.values(), key=lambda d: (d["fi"].fq if d["fi"] else "", getattr(d["node"], "lineno", 0))):
        fi, cmp_ = d["fi"], d["node"]
        if not d["ok"] and "unknown" in d["sides"]:
            raise AnalysisError(f"{fi.fq if fi else c.fq}: cannot decide whether `{d['terms'][0 if d['sides'][0] == 'unknown' else 1]}` in `{norm(cmp_)}` is lower-cased")
        ctx.ob(
            "R8.2",
            f"{fi.qualname if fi else c.name}: `{norm(cmp_)}`",
            d["ok"],
            f"left {'lower-cased' if d['sides'][0] == 'lowered' else 'RAW'} (`{d['terms'][0]}`), right {'lower-cased' if d['sides'][1] == 'lowered' else 'RAW'} (`{d['terms'][1]}`)",
            fi or c.fq,
            cmp_,
            norm(cmp_),
        )
    return len(found)


def _called_in_class(c: ClassInfo, name: str) -> bool:
    """is the private method called by another method of the class (then it is analysed inlined into its callers)?"""
    for other, fi in c.methods.items():
        if other == name:
            continue
        for x in ast.walk(fi.node):
            if isinstance(x, ast.Attribute) and x.attr == name:
                return True
    return False


def _fresh(term: str | None) -> bool:
    """the term denotes a list object created here (nobody else holds a reference to it)."""
    if term is None:
        return False
    if term in ("__nonempty_list__", "__maybe_list__"):
        return True  # a local list literal that was grown on the way
    n = H.P(term)
    if isinstance(n, (ast.List, ast.ListComp)):
        return True
    if isinstance(n, ast.Call):
        d = dotted(n.func)
        if d in ("list", "sorted"):
            return True
        if d == "sum" and len(n.args) == 2 and not n.keywords:
            return _fresh(H.text(n.args[1]))  # sum(lists, []) concatenates into a new list (the start value when there is nothing to add)
        if isinstance(n.func, ast.Attribute) and n.func.attr == "copy" and not n.args:
            return True
    if isinstance(n, ast.Subscript) and isinstance(n.slice, ast.Slice):
        return True
    if isinstance(n, ast.IfExp):
        return _fresh(H.text(n.body)) and _fresh(H.text(n.orelse))
    if isinstance(n, ast.BinOp) and isinstance(n.op, ast.Add):
        return _fresh(H.text(n.left)) or _fresh(H.text(n.right))
    return False


def _widened_fresh(fi: FuncInfo, term: str | None) -> bool:
    """a local the executor widened (its term kept growing around a loop: ``rv += more`` / ``rv = rv + more``) still
    denotes a list created here when every binding of the name in the function is a fresh list or such a growth step."""
    m = H.re.fullmatch(r"__wide_(\w+)__", term or "")
    if not m:
        return False
    name = m.group(1)
    is_name = lambda x: isinstance(x, ast.Name) and x.id == name  # noqa: E731
    bound = 0
    for x in ast.walk(fi.node):
        if isinstance(x, (ast.Assign, ast.AnnAssign)):
            tgs = x.targets if isinstance(x, ast.Assign) else [x.target]
            if any(is_name(t_) for t_ in tgs):
                v = x.value
                if v is None:
                    continue
                grows = isinstance(v, ast.BinOp) and isinstance(v.op, ast.Add) and is_name(v.left)
                if not (grows or _fresh(H.text(v))):
                    return False
                bound += 1
            elif any(is_name(y) for t_ in tgs for y in ast.walk(t_)):
                return False
        elif isinstance(x, ast.AugAssign) and is_name(x.target):
            if not isinstance(x.op, ast.Add):
                return False
        elif isinstance(x, ast.Name) and x.id == name and isinstance(x.ctx, (ast.Store, ast.Del)) and not isinstance(getattr(x, "_parent", None), (ast.Assign, ast.AnnAssign, ast.AugAssign)):
            return False  # bound by a loop target / with / walrus / tuple unpacking
        elif isinstance(x, ast.arg) and x.arg == name:
            return False
    return bound > 0


def _events(repo, cls: ClassInfo, fi: FuncInfo, kinds: tuple[str, ...]) -> tuple[list[tuple], list]:
    seen: list[tuple] = []
    ids: set[tuple] = set()

    def on_event(a, ev, st):
        if ev[0] in kinds:
            k = (ev[0], id(ev[-2]), ev[1:-2])
            if k not in ids:
                ids.add(k)
                seen.append(ev)
        return a

    ex = H.Exec(repo, cls, on_event=on_event)
    outs = ex.run_function(fi, auto0=None)
    return seen, outs


def _is_local_dict(term: str) -> bool:
    c = H.const_of(term)
    return (c is not H._NOCONST and isinstance(c, dict)) or term in ("__nonempty_dict__", "__maybe_dict__")


def _freshness(ctx: Ctx) -> None:
    """per-key lists stored, copied or handed out by MultiDict are objects created on the spot.  Decided on the
    executor's events of each method (calls into private helpers / super() followed, values through locals, tuple
    assignments and conditional expressions resolved to their terms)."""
    repo = ctx.repo
    md = repo.cls("datastructures.structures.MultiDict")
    cmd = repo.cls("datastructures.structures.CombinedMultiDict")
    n = 0

    # (1) stores of a per-key list into the underlying dict
    for name in ("__setitem__", "setlist", "setlistdefault"):
        fi = md.methods.get(name)
        if fi is None:
            raise AnalysisError(f"MultiDict.{name} missing")
        evs, _ = _events(repo, md, fi, ("op",))
        stores = [e for e in evs if e[1] == "" and e[2] == "__setitem__" and len(e[3]) == 2]
        for e in stores:
            n += 1
            ctx.ob("R8.4", f"MultiDict.{name} stores a fresh list", _fresh(e[3][1]), f"{norm(e[-2])}: stores `{e[3][1]}`", e[-1] or fi, e[-2], norm(e[-2]))
        if not stores:
            ctx.ob("R8.4", f"MultiDict.{name} stores through dict.__setitem__", False, "no store of a list into the underlying dict found", fi, fi.node, f"{name} store")
    # (2) a new key gets a list of its own: setdefault(key, []) on the underlying dict / a dict under construction
    for cls, name in ((md, "add"), (md, "__init__"), (cmd, "lists")):
        fi = cls.methods[name]
        evs, _ = _events(repo, cls, fi, ("op", "mcall"))
        for e in evs:
            if e[2] == "setdefault" and len(e[3]) == 2 and (e[0] == "op" and e[1] == "" or e[0] == "mcall" and _is_local_dict(e[1])):
                n += 1
                c = H.const_of(e[3][1])
                ctx.ob("R8.4", f"{cls.name}.{name}: new key gets a fresh list", isinstance(c, list) and not c, f"{norm(e[-2])}: default `{e[3][1]}`", e[-1] or fi, e[-2], norm(e[-2]))
    # (3) getlist returns
    for cls in (md, cmd):
        fi = cls.methods["getlist"]
        evs, _ = _events(repo, cls, fi, ("return",))
        for e in evs:
            if e[-1] is not fi:
                continue
            n += 1
            ctx.ob("R8.4", f"{cls.name}.getlist returns a fresh list", _fresh(e[1]) or _widened_fresh(fi, e[1]), f"{norm(e[-2])}: returns `{e[1]}`", fi, e[-2], norm(e[-2]))
    # (4) lists yields
    fi = md.methods["lists"]
    evs, _ = _events(repo, md, fi, ("yield",))
    for e in evs:
        v = H.P(e[1])
        ok = isinstance(v, ast.Tuple) and len(v.elts) == 2 and _fresh(H.text(v.elts[1]))
        n += 1
        ctx.ob("R8.4", "MultiDict.lists yields fresh lists", ok, f"yields `{e[1]}`", fi, e[-2], norm(e[-2]))
    if not evs:
        ctx.ob("R8.4", "MultiDict.lists yields fresh lists", False, "no yield found", fi, fi.node, "lists yield")
    # (5) constructor copies: what is handed to dict.__init__ holds lists of its own
    fi = md.methods["__init__"]
    evs, _ = _events(repo, md, fi, ("read", "storeitem"))
    for e in evs:
        if e[0] == "read" and e[1] == "" and e[2] == "__init__" and e[3]:
            g = H.P(e[3][0])
            if isinstance(g, (ast.GeneratorExp, ast.ListComp)):
                ok = isinstance(g.elt, ast.Tuple) and len(g.elt.elts) == 2 and _fresh(H.text(g.elt.elts[1]))
                n += 1
                src = next((x for x in ast.walk(e[-2]) if isinstance(x, (ast.GeneratorExp, ast.ListComp))), e[-2])
                ctx.ob("R8.4", "MultiDict(MultiDict) copies each list", ok, f"dict.__init__({e[3][0]})", fi, src, norm(src))
        elif e[0] == "storeitem" and _is_local_dict(e[1]):
            n += 1
            ctx.ob("R8.4", "MultiDict(mapping) stores fresh lists", _fresh(e[3]), f"{norm(e[-2])}: stores `{e[3]}`", fi, e[-2], norm(e[-2]))
    # (6) copies go through the copying constructor / to_dict(flat=False) -> lists()
    def class_call_on(term: str, arg_ok) -> bool:
        c = H.P(term)
        if not (isinstance(c, ast.Call) and len(c.args) == 1 and not c.keywords):
            return False
        f = H.text(c.func)
        if f != "type(__self__)":
            k = repo.try_cls(repo.resolve(md.module, f) or "") if H.re.match(r"^[A-Za-z_][\w.]*$", f) else None
            if k is None or not any(x is md for x in repo.mro(k)):
                return False
        return arg_ok(H.text(c.args[0]))

    def rets(cls, name):
        fi_ = cls.methods[name]
        evs_, outs_ = _events(repo, cls, fi_, ())
        return fi_, sorted({o.value for o in outs_ if o.kind == "ret"})

    fi, vals = rets(md, "copy")
    n += 1
    ctx.ob("R8.4", "MultiDict.copy copies through the copying constructor / lists()", bool(vals) and all(class_call_on(v, lambda a: a == H.SELF) for v in vals), f"returns {vals}", fi, fi.node, "copy shape")
    fi = md.methods["to_dict"]
    if not fi.params[1:]:
        raise AnalysisError("MultiDict.to_dict(flat) expected")
    ex = H.Exec(repo, md)
    vals = sorted({o.value for o in ex.run_function(fi, args=[None, "False"]) if o.kind == "ret"})
    from_lists = lambda v: (lambda c: isinstance(c, ast.Call) and dotted(c.func) == "dict" and len(c.args) == 1 and H.text(c.args[0]).startswith("__gen_lists__("))(H.P(v))  # noqa: E731
    n += 1
    ctx.ob("R8.4", "MultiDict.to_dict copies through the copying constructor / lists()", bool(vals) and all(from_lists(v) for v in vals), f"to_dict(flat=False) returns {vals}", fi, fi.node, "to_dict shape")
    fi, vals = rets(md, "deepcopy")
    n += 1
    is_deep = lambda a: (lambda c: isinstance(c, ast.Call) and (dotted(c.func) or "").rsplit(".", 1)[-1] == "deepcopy")(H.P(a))  # noqa: E731
    ctx.ob("R8.4", "MultiDict.deepcopy copies through the copying constructor / lists()", bool(vals) and all(class_call_on(v, is_deep) for v in vals), f"returns {vals}", fi, fi.node, "deepcopy shape")
    fi, vals = rets(cmd, "copy")
    n += 1
    ctx.ob("R8.4", "CombinedMultiDict.copy builds a MultiDict from itself", bool(vals) and all(class_call_on(v, lambda a: a == H.SELF) for v in vals), f"returns {vals}", fi, fi.node, "combined copy")
    ctx.floor("R8.4", "freshness sites", n, 14)
